(* Hand-written executable model of the data plumbing around Model.run / Model.fit:
   reservoirpy/utils/model_utils.py  (to_ragged_seq_set, build_mapping, to_data_mapping, unfold_mapping, fold_mapping,
   allocate_returned_states), the part of _base.check_xy / _check_node_io that decides whether a mapping is accepted,
   and the loop over sequences of reservoirpy/model.py Model.run
       Model.run -> to_data_mapping -> unfold_mapping -> per sequence: with_state(reset, stateful) { _run } -> fold_mapping.
   Node names are natural numbers (the id <-> name table of the scenario language); a name-keyed Python dict is an
   association list in INSERTION order (what `dict` iteration gives), keys pairwise distinct.
   No proofs here (coq/proofs/Mapping_proofs.v). *)
From Coq Require Import List Arith Bool.
From RV Require Import base.Num base.LA model.ModelSem.
Import ListNotations.

(* ------------------------------------------------------------------------------------------------ dictionaries *)
Section Dict.
Context {A : Type}.
Definition dict := list (nat * A).
Definition lookup (k : nat) (m : dict) : option A :=
  match find (fun p => Nat.eqb (fst p) k) m with Some p => Some (snd p) | None => None end.
Definition keys (m : dict) : list nat := map fst m.
End Dict.
Arguments dict A : clear implicits.
Definition memb (k : nat) (l : list nat) : bool := existsb (Nat.eqb k) l.
(* keys of a dict comprehension `{k: ... for k in l}`: a repeated key keeps its FIRST position *)
Fixpoint dedup (l : list nat) : list nat :=
  match l with
  | [] => []
  | k :: r => k :: filter (fun j => negb (Nat.eqb j k)) (dedup r)
  end.

(* ------------------------------------------------------------------------------------------------ data forms *)
Section Data.
Context {row : Type}.                 (* one timestep of one sequence: abstract *)
Notation sq := (list row).            (* one sequence: a 2-D array (timesteps, features) *)

(* what a caller may hand over for one node (or for all of them): a 1-D array (one timestep), a 2-D array (one
   sequence), a 3-D array or a Python list of 2-D arrays (several sequences) *)
Inductive value := VArr1 (r : row) | VArr2 (s : sq) | VArr3 (l : list sq) | VList (l : list sq).
(* ... or a name-keyed mapping of such values *)
Inductive data := DVal (v : value) | DMap (m : dict value).
Definition DArr1 (r : row) := DVal (VArr1 r).
Definition DArr2 (s : sq) := DVal (VArr2 s).
Definition DArr3 (l : list sq) := DVal (VArr3 l).
Definition DList (l : list sq) := DVal (VList l).

(* validation.is_sequence_set: a list, or an ndarray with ndim > 2 *)
Definition is_sequence_set (v : value) : bool :=
  match v with VArr3 _ | VList _ => true | _ => false end.

(* to_ragged_seq_set, on one array / list: `[np.atleast_2d(datum)]` unless it already is a set of sequences
   (both branches of the function do the same thing to one datum) *)
Definition ragged_of (v : value) : list sq :=
  match v with
  | VArr1 r => [[r]]
  | VArr2 s => [s]
  | VArr3 l => l
  | VList l => l
  end.
Inductive ragged := RSeqs (l : list sq) | RMap (m : dict (list sq)).
Definition to_ragged_seq_set (d : data) : ragged :=
  match d with
  | DVal v => RSeqs (ragged_of v)
  | DMap m => RMap (map (fun p => (fst p, ragged_of (snd p))) m)
  end.

(* what the plumbing needs to know about a node: name, is_trainable, unsupervised, fitted *)
Record mnode := mkMN { mn_name : nat; mn_trainable : bool; mn_unsup : bool; mn_fitted : bool }.
(* ... and about a model: model.nodes, model.input_nodes, model.output_nodes (each in the order the property returns) *)
Record mmodel := mkMM { mm_nodes : list mnode; mm_inputs : list mnode; mm_outputs : list mnode }.
Definition node_names (mm : mmodel) : list nat := map mn_name (mm_nodes mm).
Definition trainable_nodes (mm : mmodel) : list mnode := filter mn_trainable (mm_nodes mm).   (* Model.trainable_nodes *)

Inductive io_type := IoInput | IoTarget.

(* build_mapping(nodes, data, io_type): an array / list goes to every node of [nodes] (for targets: to those that are
   not `unsupervised`); a mapping is kept as it is (`data.copy()`), whatever it names *)
Definition build_mapping (nodes : list mnode) (d : data) (io : io_type) : dict (list sq) :=
  match to_ragged_seq_set d with
  | RSeqs l => map (fun n => (mn_name n, l))
                   (match io with IoInput => nodes | IoTarget => filter (fun n => negb (mn_unsup n)) nodes end)
  | RMap m => m
  end.

(* _base.check_xy -> _check_node_io on a mapping of data (teacher nodes are not modelled): every receiver node must be
   named ("Missing input data for node"), except, for targets, nodes that are already fitted.  The values themselves
   are passed through (check_n_sequences validates dimensions and converts to arrays). *)
Definition check_io (receivers : list mnode) (m : dict (list sq)) (io : io_type) : bool :=
  forallb (fun n => memb (mn_name n) (keys m) || (match io with IoTarget => mn_fitted n | IoInput => false end)) receivers.

(* unfold_mapping: ValueError when the keys do not all have the same number of sequences (IndexError on an empty
   mapping); else one name-keyed mapping per sequence index, each with the keys of [data_map] in the same order *)
Definition unfold_mapping (dm : dict (list sq)) : option (list (dict sq)) :=
  match dm with
  | [] => None
  | (_, l0) :: _ =>
      if forallb (fun p => Nat.eqb (length (snd p)) (length l0)) dm
      then Some (map (fun i => map (fun p => (fst p, nth i (snd p) [])) dm) (seq 0 (length l0)))
      else None
  end.

(* to_data_mapping(model, X, Y): (X_sequences, Y_sequences); Y_sequences = [None] * n when there are no targets
   (Y is None, or check_xy returned None for an empty target mapping).  None: an exception. *)
Definition to_data_mapping (mm : mmodel) (X : data) (Y : option data)
  : option (list (dict sq) * list (option (dict sq))) :=
  let xm := build_mapping (mm_inputs mm) X IoInput in
  let ym := match Y with Some y => Some (build_mapping (trainable_nodes mm) y IoTarget) | None => None end in
  if negb (check_io (mm_inputs mm) xm IoInput) then None else
  if negb (match ym with Some m => check_io (trainable_nodes mm) m IoTarget | None => true end) then None else
  match unfold_mapping xm with
  | None => None
  | Some xs =>
      match ym with
      | None | Some [] => Some (xs, repeat None (length xs))
      | Some m => match unfold_mapping m with
                  | Some ys => Some (xs, map Some ys)
                  | None => None
                  end
      end
  end.

(* ------------------------------------------------------------------------------------------------ results *)
Inductive rstates := RsNone | RsAll | RsNames (l : list nat).     (* return_states = None | "all" | iterable of names *)
Definition rs_is_none (rs : rstates) : bool := match rs with RsNone => true | _ => false end.

(* allocate_returned_states: the names under which states are returned, in dict order.  None: `model[name]` raises
   KeyError for a name that is not a node of the model. *)
Definition allocate_returned_states (mm : mmodel) (rs : rstates) : option (list nat) :=
  match rs with
  | RsAll => Some (node_names mm)
  | RsNames l => if forallb (fun k => memb k (node_names mm)) l then Some (dedup l) else None
  | RsNone => Some (map mn_name (mm_outputs mm))
  end.
End Data.

Arguments value row : clear implicits.
Arguments data row : clear implicits.
Arguments ragged row : clear implicits.

Section Fold.
Context {A : Type}.                   (* the returned states of one node over one sequence: a (timesteps, dim) array *)

(* what Model.run returns: a bare array, a bare list of arrays (one per sequence), a dict name -> array, a
   (default)dict name -> list of arrays, or an exception *)
Inductive result := RBare (a : A) | RBareList (l : list A) | RDict (m : dict A) | RDictList (m : dict (list A)) | RErr.

(* `states_map[node_name] += [seq]` on a defaultdict(list) *)
Definition dd_add (m : dict (list A)) (k : nat) (v : A) : dict (list A) :=
  if memb k (keys m)
  then map (fun p => if Nat.eqb (fst p) k then (fst p, snd p ++ [v]) else p) m
  else m ++ [(k, [v])].
Definition fold_many (states : list (dict A)) : dict (list A) :=
  fold_left (fun acc s => fold_left (fun acc2 p => dd_add acc2 (fst p) (snd p)) s acc) states [].

(* fold_mapping(model, states, return_states) *)
Definition fold_mapping (mm : mmodel) (states : list (dict A)) (rs : rstates) : result :=
  match states with
  | [s] =>
      if Nat.eqb (length s) 1 && rs_is_none rs
      then match mm_outputs mm with
           | o :: _ => match lookup (mn_name o) s with Some a => RBare a | None => RErr end   (* KeyError on a dict *)
           | [] => RErr
           end
      else RDict s
  | _ =>
      let sm := fold_many states in
      if Nat.eqb (length sm) 1 && rs_is_none rs
      then match mm_outputs mm with
           | o :: _ => RBareList (match lookup (mn_name o) sm with Some l => l | None => [] end)  (* defaultdict: [] *)
           | [] => RErr
           end
      else RDictList sm
  end.
End Fold.
Arguments result A : clear implicits.

(* ------------------------------------------------------------------------------------------------ Model.run *)
Section Run.
Context {F : Type} `{Num F}.
Notation vec := (list F).
Notation steps := (list ((nat -> option vec) * (nat -> option vec))).
Notation model := (@model F).
Notation env := (@env F).

(* the loop of Model.run over the sequences: for every sequence in turn the one-sequence operation of ModelSem
   (`with self.with_state(reset=reset, stateful=stateful): self._run(X_seq, ..., from_state, stateful, ...)`), each
   starting from the environment the previous one left; an exception stops the loop *)
Fixpoint run_seqs (m : model) (stateful reset : bool) (from_state : nat -> option vec) (seqs : list steps) (e : env)
  : env * list (list (list vec)) * bool :=
  match seqs with
  | [] => (e, [], true)
  | s :: rest =>
      let '(e1, o, ok) := run_op m stateful reset from_state s e in
      if ok then let '(e2, os, ok2) := run_seqs m stateful reset from_state rest e1 in (e2, o :: os, ok2)
      else (e1, [], false)
  end.

(* graphflow.dispatch on one unfolded sequence mapping (no forced feedback): the sequence length is that of the FIRST
   key; at step t every named node is given row t of its own sequence *)
Definition steps_of (xm : dict (list vec)) : steps :=
  let T := match xm with [] => 0 | (_, s) :: _ => length s end in
  map (fun t => ((fun n => match lookup n xm with Some s => nth_error s t | None => None end),
                 (fun _ : nat => @None vec))) (seq 0 T).

(* Model._run records, after every step, the states of the nodes [names] (allocate_returned_states) *)
Definition with_outputs (m : model) (names : list nat) : model := mkModel (order m) (parents m) names.
(* the `states` dict of one _run: name -> array of the per-step states *)
Definition states_of_seq (names : list nat) (outs : list (list vec)) : dict (list vec) :=
  map (fun ip => (snd ip, map (fun step => nth (fst ip) step []) outs)) (combine (seq 0 (length names)) names).

(* Model.run(X, from_state, stateful, reset, return_states) without forced feedbacks *)
Definition model_run (mm : mmodel) (m : model) (stateful reset : bool) (from_state : nat -> option vec)
           (X : data vec) (rs : rstates) (e : env) : env * result (list vec) * bool :=
  match to_data_mapping mm X None, allocate_returned_states mm rs with
  | Some (xs, _), Some names =>
      match xs with
      | [] => (e, RErr, false)                                (* X_[0]: IndexError *)
      | _ => let '(e1, outs, ok) := run_seqs (with_outputs m names) stateful reset from_state (map steps_of xs) e in
             (e1, if ok then fold_mapping mm (map (states_of_seq names) outs) rs else RErr, ok)
      end
  | _, _ => (e, RErr, false)
  end.
End Run.
