(* C06 / C05: OFFLINE fitting of models that contain FEEDBACK connections, and the ESN convenience node's fit.
   On top of model/ModelSem.v (env, forward, proxies, clamps, dispatch_fb, start_env), model/FitSem.v (the staging,
   dist_states, fit_nodes) and model/Ridge.v (the exact ridge solution).  The forward nodes of every stage are EXECUTED
   timestep by timestep by ModelSem's [forward]; nothing about the nodes is abstract except their forward functions.
   Source facts mirrored (all at /repo HEAD):
     model.py  Model.fit: to_data_mapping; _initialize_on_sequence; with_state(from_state, reset, stateful) around all stages;
               per stage build_forward_sumodels, X[j].update(next_X[j]), run_and_partial_fit per sequence, then node.fit().
     model.py  run_and_partial_fit (since ee4fd63): x_seq filtered to the sub-model's nodes; y_seq = targets of ALL the offline
               nodes of the COMPLETE model (not only those of the stage); forced_feedbacks = y_seq if force_teachers else None;
               run_submodel; dist_states_to_next_subgraph; partial_fit(dist_states.get(name), y_seq.get(name), warmup).
     model.py  run_submodel: per sequence `with model.with_state(reset=reset, stateful=stateful)` on the COMPLETE model (reset:
               every node of the complete model is zeroed at the start of every sequence; otherwise states carry over from
               sequence to sequence and from stage to stage), then model._run(..., submodel=submodel).
     model.py  Model._run: _load_proxys(keep=True) (at rest: proxies := states); per step `with self.with_feedback(forced_fb)`
               on the COMPLETE model (a receiver is clamped with the value found under its own name, else under its sender's
               name; any other named node gets a temporary state proxy), submodel._call(x) = forward over the SUB-model's nodes
               only, then _load_proxys() on the complete model;  finally _clean_proxys().
     utils/graphflow.py dispatch(X, Y, shift_fb=True): forced value at step 0 = zeros_like(Y[0]) (of EACH sequence), at step
               i > 0 = Y[i-1].
     nodes/esn.py ESN.fit / _run_partial_fit_fn: per sequence a deep copy of the ESN, reservoir.reset() on the copy (the
               readout is not reset), per step `with readout.with_feedback(Y shifted)` -- the readout is the SENDER, so its
               state proxy is set, nothing is clamped -- call(reservoir, x); readout.partial_fit(states, y, warmup);
               afterwards reservoir._state = last state of the last sequence, readout.fit().  No force_teachers argument.
   No proofs here. *)
From Coq Require Import List Arith Bool.
From RV Require Import base.Num base.LA model.ModelSem model.Ridge model.FitSem.
Import ListNotations.

Section FitFb.
Context {F : Type} `{Num F}.
Notation vec := (list F).
Notation mat := (list (list F)).
Notation env := (@env F).
Notation ndesc := (@ndesc F).
Notation model := (@model F).
Notation data := (list (list (list F))).           (* a dataset: sequences x timesteps x features *)

Variable solve : mat -> mat -> mat.                 (* scipy.linalg.solve; Gauss-Jordan over Q in the runner *)

(* learned parameters of a ridge readout: None when partial_fit raised *)
Definition rparams := option (mat * vec).
Record rdesc := mkRD { rd_id : nat; rd_bias : bool; rd_lam : F; rd_dout : nat }.
(* fm_nodes: every node of the model in Model.nodes order (the nfwd of a readout in it is a placeholder);
   fm_graph: the same graph for the staging; fm_rds: its ridge readouts *)
Record fmodel := mkFM { fm_nodes : list ndesc; fm_graph : graph; fm_rds : list rdesc }.

Definition find_rd (fm : fmodel) (v : nat) : option rdesc := find (fun r => Nat.eqb (rd_id r) v) (fm_rds fm).
(* a FITTED readout run as a forward node: readout_forward with its parameters *)
Definition rd_nd (d : ndesc) (r : rdesc) (Wb : mat * vec) : ndesc :=
  mkND (nid d) (fun _ h x _ => Some (Ridge.forward (rd_dout r) (fst Wb) (snd Wb) x, h)) (nfb d) (odim d).
Definition node_with (fm : fmodel) (ps : list (nat * rparams)) (d : ndesc) : ndesc :=
  match find_rd fm (nid d), lookup ps (nid d) with
  | Some r, Some (Some Wb) => rd_nd d r Wb
  | _, _ => d
  end.
(* the complete model: what with_state / _load_proxys / with_feedback range over *)
Definition full_model (fm : fmodel) : model := mkModel (fm_nodes fm) (parents (fm_graph fm)) [].
(* the forward sub-model of a stage (build_forward_sumodels): its nodes in Model.nodes order, its own edges *)
Definition sub_model (fm : fmodel) (ps : list (nat * rparams)) (fwdn : list nat) (fedges : list (nat * nat)) : model :=
  mkModel (map (node_with fm ps) (filter (fun d => mem (nid d) fwdn) (fm_nodes fm))) (parents_in fedges) [].

Definition stepdata := ((nat -> option vec) * (nat -> option vec))%type.       (* (external inputs, forced feedback) *)

(* Model._run(..., submodel): forward over the sub-model; proxies and clamps over the complete model.
   Returns the final environment and the environment after each step. *)
Fixpoint run_sub (full sub : model) (steps : list stepdata) (e : env) : env * list env * bool :=
  match steps with
  | [] => (e, [], true)
  | (ext, forced) :: rest =>
      let '(e1, ok) := ModelSem.forward sub (proxies full forced e) (clamps full forced) ext e in
      if ok then let '(e2, es, ok2) := run_sub full sub rest e1 in (e2, e1 :: es, ok2) else (e1, [], false)
  end.

Definition seq_rows (m : list (nat * data)) (j : nat) (v : nat) : option (list vec) :=
  match lookup m v with Some d => nth_error d j | None => None end.
(* graphflow.dispatch on one sequence of targets: zeros first, then Y[t-1] *)
Definition shifted (rows : list vec) : list vec := dispatch_fb true (vzeros (length (hd [] rows))) rows.
(* forced-feedback mapping of step t of sequence j: the shifted targets of every node that has targets (all the offline
   nodes of the complete model), or nothing *)
Definition forced_at (force : bool) (Y : list (nat * data)) (j t : nat) : nat -> option vec :=
  fun n => if force then match seq_rows Y j n with Some rows => nth_error (shifted rows) t | None => None end else None.
Definition ext_at (fwdn : list nat) (Xs : list (nat * data)) (j t : nat) : nat -> option vec :=
  fun v => if mem v fwdn then match seq_rows Xs j v with Some rows => nth_error rows t | None => None end else None.
Definition fit_steps (force : bool) (fwdn : list nat) (Xs Y : list (nat * data)) (j T : nat) : list stepdata :=
  map (fun t => (ext_at fwdn Xs j t, forced_at force Y j t)) (seq 0 T).

(* run_submodel: the sequences one after the other; [lens] = their lengths *)
Fixpoint run_seqs (full sub : model) (force reset : bool) (fwdn : list nat) (Xs Y : list (nat * data))
         (lens : list nat) (j : nat) (e : env) : env * list (list env) * bool :=
  match lens with
  | [] => (e, [], true)
  | T :: rest =>
      let e0 := start_env full reset (fun _ => None) e in
      let '(e1, es, ok) := run_sub full sub (fit_steps force fwdn Xs Y j T) e0 in
      if ok then let '(e2, ess, ok2) := run_seqs full sub force reset fwdn Xs Y rest (S j) e1 in (e2, es :: ess, ok2)
      else (e1, [], false)
  end.
(* the states of node v over the dataset *)
Definition traj_of (ess : list (list env)) (v : nat) : data := map (fun es => map (fun e : env => st (e v)) es) ess.

(* Ridge: partial_fit on every sequence then fit() *)
Definition rd_fit (fm : fmodel) (w : nat) (v : nat) (ins : list data) (y : data) : rparams :=
  match find_rd fm v, ins with
  | Some r, [x] => Ridge.fit solve (rd_bias r) (rd_lam r) w (length (hd [] (hd [] x))) (rd_dout r) x y
  | _, _ => None
  end.

(* state of Model.fit between stages: environment, X, parameters, trained set, and (for the correspondence) the
   trajectories collected in every stage so far *)
Definition fbstate := (env * list (nat * data) * list (nat * rparams) * list nat * list (list (nat * data)))%type.

Definition run_stage_fb (fm : fmodel) (Y : list (nat * data)) (w : nat) (force reset : bool) (lens : list nat)
           (st : option fbstate) (s : stage) : option fbstate :=
  match st with
  | None => None
  | Some (e, Xs, ps, trained, log) =>
      let g := fm_graph fm in
      let offl := filter (fun n => offline g n && negb (mem n trained)) (s_nodes s) in
      let fwdn := filter (fun n => negb (mem n offl)) (s_nodes s) in
      let fedges := filter (fun ed => negb (mem (snd ed) offl)) (s_edges s) in
      let res := match fwdn with
                 | [] => Some (e, [], Some Xs)
                 | _ => let '(e1, ess, ok) := run_seqs (full_model fm) (sub_model fm ps fwdn fedges) force reset fwdn Xs Y lens 0 e in
                        if ok then let tr := map (fun v => (v, traj_of ess v)) fwdn in Some (e1, tr, dist_states data tr (s_rel s))
                        else None
                 end in
      match res with
      | Some (e1, tr, Some dm) =>
          match fit_nodes data rparams (rd_fit fm w) Y dm offl with
          | Some newp => Some (e1, dm ++ Xs, newp ++ ps, offl ++ trained, log ++ [tr])
          | None => None
          end
      | _ => None
      end
  end.

(* Model.fit(X, Y, warmup=w, force_teachers=force, reset=reset) from environment e, with the staging stg *)
Definition fit_fb (fm : fmodel) (stg : list stage) (X Y : list (nat * data)) (w : nat) (force reset : bool)
           (lens : list nat) (e : env) : option fbstate :=
  fold_left (run_stage_fb fm Y w force reset lens) stg (Some (e, X, [], [], [])).
Definition fit_fb_params (r : option fbstate) : option (list (nat * rparams)) :=
  match r with Some (_, _, ps, _, _) => Some ps | None => None end.

(* ---------------------------------------------------------------------------------------------------- ESN.fit *)
(* reservoir dres (with a feedback connection from the readout or not), readout rd.  Per sequence: deep copy of the ESN
   as it is when fit is called (environment e), reservoir.reset() on the copy; the targets shifted by one step are the
   readout's state proxy during each call of the reservoir; nothing is clamped. *)
Definition esn_full (dres drd : ndesc) : model := mkModel [dres; drd] (fun n => if Nat.eqb n (nid drd) then [nid dres] else []) [].
Definition esn_sub (dres : ndesc) : model := mkModel [dres] (fun _ => []) [].
Fixpoint esn_run (full sub : model) (steps : list stepdata) (e : env) : env * list env * bool :=
  match steps with
  | [] => (e, [], true)
  | (ext, forced) :: rest =>
      let '(e1, ok) := ModelSem.forward sub (proxies full forced e) (fun _ => None) ext e in
      if ok then let '(e2, es, ok2) := esn_run full sub rest e1 in (e2, e1 :: es, ok2) else (e1, [], false)
  end.
Definition esn_seq (dres drd : ndesc) (X Y : list (nat * data)) (e : env) (j T : nat) : list env * bool :=
  let e0 := set_st e (nid dres) (vzeros (odim dres)) in
  let '(_, es, ok) := esn_run (esn_full dres drd) (esn_sub dres) (fit_steps true [nid dres] X Y j T) e0 in (es, ok).
Fixpoint esn_seqs (dres drd : ndesc) (X Y : list (nat * data)) (e : env) (lens : list nat) (j : nat) : list (list env) * bool :=
  match lens with
  | [] => ([], true)
  | T :: rest => let '(es, ok) := esn_seq dres drd X Y e j T in
                 if ok then let '(ess, ok2) := esn_seqs dres drd X Y e rest (S j) in (es :: ess, ok2) else ([], false)
  end.
(* ESN.fit(X, Y, warmup=w): the readout's parameters, and the reservoir states collected *)
Definition esn_fit (dres drd : ndesc) (r : rdesc) (X Y : list (nat * data)) (w : nat) (lens : list nat) (e : env)
  : option (rparams * data) :=
  let '(ess, ok) := esn_seqs dres drd X Y e lens 0 in
  if ok then
    let x := traj_of ess (nid dres) in
    match lookup Y (nid drd) with
    | Some y => Some (Ridge.fit solve (rd_bias r) (rd_lam r) w (length (hd [] (hd [] x))) (rd_dout r) x y, x)
    | None => None
    end
  else None.

(* the value handed to receiver d when it asks for its feedback in a step of Model.fit taken from environment e *)
Definition fit_fb_seen (fm : fmodel) (forced : nat -> option vec) (e : env) (d : ndesc) : option vec :=
  fbvalue d (proxies (full_model fm) forced e) (clamps (full_model fm) forced).
(* ... and in a step of ESN.fit *)
Definition esn_fb_seen (dres drd : ndesc) (forced : nat -> option vec) (e : env) : option vec :=
  fbvalue dres (proxies (esn_full dres drd) forced e) (fun _ => None).

End FitFb.

Arguments mkRD {F} _ _ _ _.
Arguments mkFM {F} _ _ _.
