(* C12 — shape / type validation of node inputs and the operation skeleton  check ; initialise ; core.
   Hand-written executable model of (cited function by function):
     reservoirpy/utils/validation.py : check_vector
     reservoirpy/_base.py            : check_one_sequence, check_n_sequences, _check_node_io (Node caller), check_xy
     reservoirpy/node.py             : set_input_dim / set_output_dim, initialize, call, run, train, partial_fit, fit
     reservoirpy/ops.py              : _link_1to1 (dimension check between initialised nodes)
     initialisers of Reservoir, IPReservoir, NVAR, Ridge, RLS/LMS/FORCE, ScikitLearnNode, Delay, Input/Output/activations, Concat.
   Data are abstract descriptors (kind, numeric dtype?, shape); no numbers are involved, so nothing is polymorphic over Num.
   No proofs in this file. *)
From Coq Require Import List Arith Bool.
Import ListNotations.

(* exception classes, as mapped by the harness (AttributeError, IndexError ... are OtherError) *)
Inductive exn := TypeError | ValueError | RuntimeError | KeyError | OtherError.

(* DArr: numpy array (numeric = np.issubdtype(dtype, np.number), so bool/object/str arrays are not numeric);
   DList: Python list; DNum: Python int/float; DOther: anything else that is not a node (str, dict, ...);
   DTeacher dim: a reservoirpy Node given as data (a "teacher"): Some d = initialised, output_dim d; None = never
   initialised and without declared dimensions *)
Inductive data :=
| DArr (numeric : bool) (shape : list nat)
| DList (items : list data)
| DNum
| DOther
| DTeacher (dim : option nat).

Inductive res (A : Type) := ROk (a : A) | RErr (e : exn).
Arguments ROk {A} a.
Arguments RErr {A} e.

Definition exn_eqb (a b : exn) : bool :=
  match a, b with
  | TypeError, TypeError | ValueError, ValueError | RuntimeError, RuntimeError | KeyError, KeyError
  | OtherError, OtherError => true
  | _, _ => false
  end.

Fixpoint lnat_eqb (a b : list nat) : bool :=
  match a, b with
  | [], [] => true
  | x :: a', y :: b' => (x =? y) && lnat_eqb a' b'
  | _, _ => false
  end.

(* np.atleast_2d on a shape *)
Definition atleast_2d (sh : list nat) : list nat :=
  match sh with [] => [1; 1] | [n] => [1; n] | _ => sh end.

(* validation.check_vector(array, allow_reshape=True, allow_timespans): numbers become 0-d arrays; anything else that is
   not an ndarray -> TypeError; non numeric dtype -> TypeError; atleast_2d; more than one row when no timespan is
   allowed -> ValueError.  Returns the resulting shape. *)
Definition check_vector (x : data) (allow_timespans : bool) : res (list nat) :=
  match x with
  | DList _ | DOther | DTeacher _ => RErr TypeError
  | DNum => ROk [1; 1]
  | DArr num sh =>
      if negb num then RErr TypeError
      else let sh' := atleast_2d sh in
           if negb allow_timespans && (1 <? hd 0 sh') then RErr ValueError else ROk sh'
  end.

(* _base.check_one_sequence: data_dim = shape[1:]; with an expected dimension tuple: same length, and — literally —
   "for dim in expected_dim: if all(dim != ddim for ddim in data_dim): raise ValueError". *)
Definition dims_ok (expected data_dim : list nat) : bool :=
  (length expected =? length data_dim)
  && negb (existsb (fun dim => forallb (fun dd => negb (dim =? dd)) data_dim) expected).

Definition check_one_sequence (x : data) (expected : option (list nat)) (allow_timespans : bool) : res (list nat) :=
  match check_vector x allow_timespans with
  | RErr e => RErr e
  | ROk sh =>
      match expected with
      | None => ROk sh
      | Some ed => if dims_ok ed (tl sh) then ROk sh else RErr ValueError
      end
  end.

(* the "timesteps" tuple computed per input in the several-inputs branch of check_n_sequences *)
Definition timesteps_of (d : data) : list nat :=
  match d with
  | DList items => map (fun it => match it with DArr _ sh => hd 0 sh | _ => 0 end) items
  | DArr _ sh => if length sh =? 2 then [hd 0 sh] else [nth 1 sh 0]
  | _ => []
  end.

Definition all_same (l : list (list nat)) : bool :=
  match l with [] => true | t :: r => forallb (lnat_eqb t) r end.

(* _base.check_n_sequences(x, expected_dim, allow_n_sequences, allow_n_inputs, allow_timespans).
   expected = None | Some [d] (an int or a 1-tuple) | Some (d1 :: d2 :: _) (tuple: one entry per input, Concat).
   Returns the descriptor of x_new. *)
Fixpoint check_n_sequences (x : data) (expected : option (list nat)) (ans ani ats : bool) {struct x} : res data :=
  match expected with
  | Some [] => RErr OtherError                                  (* expected_dim[0] -> IndexError *)
  | Some [d] =>                                                 (* branch "L": a single input *)
      match x with
      | DList items =>
          if negb ans then RErr TypeError                       (* "No lists, only arrays." *)
          else match (fix go (l : list data) : res (list data) :=
                        match l with
                        | [] => ROk []
                        | it :: r =>
                            match check_one_sequence it (Some [d]) ats with
                            | RErr e => RErr e
                            | ROk sh => match go r with RErr e => RErr e | ROk r' => ROk (DArr true sh :: r') end
                            end
                        end) items with
               | RErr e => RErr e
               | ROk l => ROk (DList l)
               end
      | DNum | DOther | DTeacher _ => RErr OtherError           (* x.shape -> AttributeError *)
      | DArr num sh =>
          if length sh <=? 2 then                               (* only one sequence *)
            match check_one_sequence x (Some [d]) ats with RErr e => RErr e | ROk sh' => ROk (DArr true sh') end
          else if length sh =? 3 then                           (* several sequences: every x[i] is checked *)
            if hd 0 sh =? 0 then ROk x
            else match check_one_sequence (DArr num (tl sh)) (Some [d]) ats with
                 | RErr e => RErr e
                 | ROk _ => ROk (DArr num sh)
                 end
          else RErr ValueError                                  (* "expects data with at most 3 dimensions" (before that fix:
                                                                   check_vector only, no dimension check — see check_n_sequences_prefix) *)
      end
  | Some ed =>                                                  (* branch "I": several inputs *)
      match x with
      | DList items =>
          if negb (length items =? length ed) then RErr ValueError   (* "Expecting n inputs but received m" (since 7992b77) *)
          else
          match (fix go (l : list data) (eds : list nat) {struct l} : res (list data) :=
                   match eds with
                   | [] => ROk l                                (* (before 7992b77 items beyond n_inputs were left unchecked) *)
                   | e :: eds' =>
                       match l with
                       | [] => RErr OtherError                  (* x[i] -> IndexError (unreachable since 7992b77) *)
                       | it :: r =>
                           match check_n_sequences it (Some [e]) ans ani ats with
                           | RErr err => RErr err
                           | ROk v => match go r eds' with RErr err => RErr err | ROk r' => ROk (v :: r') end
                           end
                       end
                   end) items ed with
          | RErr e => RErr e
          | ROk l =>
              if all_same (map timesteps_of (firstn (length ed) l)) then ROk (DList l)
              else RErr ValueError                              (* "Inputs with different timesteps" *)
          end
      | _ => RErr ValueError                                    (* "Expecting several inputs." *)
      end
  | None =>
      match x with
      | DList items =>
          match (fix go (l : list data) : res (list data) :=
                   match l with
                   | [] => ROk []
                   | it :: r =>
                       match (if ani then check_n_sequences it None ans false ats
                              else if ans then check_n_sequences it None false false ats
                              else RErr TypeError) with
                       | RErr e => RErr e
                       | ROk v => match go r with RErr e => RErr e | ROk r' => ROk (v :: r') end
                       end
                   end) items with
          | RErr e => RErr e
          | ROk l => ROk (DList l)
          end
      | _ => match check_one_sequence x None ats with RErr e => RErr e | ROk sh => ROk (DArr true sh) end
      end
  end.

(* ------------------------------------------------------------------------------------------------ nodes *)
Inductive kind :=
| KReservoir (units : nat)          (* Reservoir: no learning rule *)
| KIPReservoir (units : nat)        (* IPReservoir: unsupervised offline rule, its partial_fit ignores Y *)
| KNVAR (delay order : nat)
| KOffline                          (* Ridge *)
| KOnline                           (* RLS, LMS, FORCE *)
| KSklearn                          (* ScikitLearnNode (single target) *)
| KDelay (delay : nat)
| KSame                             (* Input, Output, Tanh, Sigmoid, Softmax, Softplus, ReLU, Identity *)
| KConcat.

Definition has_offline (k : kind) : bool :=
  match k with KOffline | KSklearn | KIPReservoir _ => true | _ => false end.
Definition has_online (k : kind) : bool :=
  match k with KOnline => true | _ => false end.

(* the part of a Node this property talks about.  input_dim is a list: [d] for an int, (d1, d2, ..) for Concat.
   params_version / state_version are abstract counters bumped by any mutation of a parameter / of the state;
   trained = the scikit-learn estimator has been fitted (its predict raises NotFittedError otherwise). *)
Record node := mkNode {
  nkind : kind;
  initialized : bool;
  input_dim : option (list nat);
  output_dim : option nat;
  state_shape : option (list nat);
  params_version : nat;
  state_version : nat;
  trained : bool;
  teacher : option (option nat);   (* node._teacher: a registered teacher node and its output_dim (None: not known) *)
  aliased : bool     (* Node.clean_buffers has run: `self._X = self._Y = []` makes the two default buffers ONE list (open finding of C11) *)
}.

Definition fresh (k : kind) (ind : option nat) (outd : option nat) : node :=
  mkNode k false (option_map (fun d => [d]) ind)
         (match k with
          | KReservoir u | KIPReservoir u => Some u       (* output_dim=units in the constructor *)
          | _ => outd                                     (* Input(input_dim=d) passes output_dim=d itself: the harness says so *)
          end)
         None 0 0 false None false.

Fixpoint binom (n k : nat) : nat :=
  match n, k with
  | _, 0 => 1
  | 0, S _ => 0
  | S n', S k' => binom n' k' + binom n' (S k')
  end.

Definition sum (l : list nat) : nat := fold_right Nat.add 0 l.

(* Node.set_input_dim / set_output_dim before initialisation: a declared dimension can only be confirmed *)
Definition set_in (n : node) (v : list nat) : res node :=
  match input_dim n with
  | Some d => if lnat_eqb d v then ROk n else RErr ValueError
  | None => ROk (mkNode (nkind n) (initialized n) (Some v) (output_dim n) (state_shape n)
                        (params_version n) (state_version n) (trained n) (teacher n) (aliased n))
  end.
Definition set_out (n : node) (v : nat) : res node :=
  match output_dim n with
  | Some d => if d =? v then ROk n else RErr ValueError
  | None => ROk (mkNode (nkind n) (initialized n) (input_dim n) (Some v) (state_shape n)
                        (params_version n) (state_version n) (trained n) (teacher n) (aliased n))
  end.

(* the node's initializer: xf = feature sizes of the first input(s) (x.shape[1]), yf = y.shape[1] if a target was given.
   The output dimension each kind derives: *)
Definition derive_out (n : node) (xf : list nat) (yf : option nat) : res nat :=
  match nkind n with
  | KReservoir u | KIPReservoir u => ROk u
  | KNVAR delay order => let lin := delay * hd 0 xf in ROk (lin + binom (lin + order - 1) order)
  | KOffline | KOnline | KSklearn =>
      match output_dim n with
      | Some o => ROk o
      | None => match yf with Some m => ROk m | None => RErr RuntimeError end
      end
  | KDelay _ | KSame => ROk (hd 0 xf)
  | KConcat => ROk (sum xf)
  end.

(* Node.initialize: initializer (set dims, create params) ; reset() (state = zeros((1, output_dim))) ; flag.
   Every failure happens before the first assignment (derive_out's RuntimeError precedes set_input_dim in
   _initialize_readout / sklearn initialize; set_* raise before assigning). *)
Definition initialize (n : node) (xf : list nat) (yf : option nat) : res node :=
  match derive_out n xf yf with
  | RErr e => RErr e
  | ROk o =>
      match set_in n xf with
      | RErr e => RErr e
      | ROk n1 =>
          match set_out n1 o with
          | RErr e => RErr e
          | ROk n2 => ROk (mkNode (nkind n2) true (input_dim n2) (output_dim n2) (Some [1; o])
                                  (S (params_version n2)) (S (state_version n2)) (trained n2) (teacher n2) (aliased n2))
          end
      end
  end.

Inductive op :=
| OCall (x : data)
| ORun (x : data)
| OTrain (x : data) (y : option data)
| OPartialFit (x : data) (y : option data)
| OFit (x : data) (y : option data).

Inductive phase := PSupport | PCheck | PInit | PCore.

(* Ok n' out: accepted, out = Some (rows, width) of the returned array (None for fit / partial_fit, which return the node);
   Err p e n': exception of class e raised in phase p, leaving n';
   Irregular: the validation ACCEPTED the data but it is not a regular (timesteps, features) layout consistent with the
   node's dimensions — what numpy then does inside the forward / learning functions is not modelled. *)
Inductive result :=
| Ok (n : node) (out : option (nat * nat))
| Err (p : phase) (e : exn) (n : node)
| Irregular.

(* what check_xy returns for the target: nothing, checked data, or "a teacher node was registered" *)
Inductive ycheck := YNone | YData (d : data) | YTeacher (td : option nat).

(* _check_node_io, Node caller, when the data IS a node (callable with initialize / is_initialized / output_dim):
   as input -> TypeError; as target -> register_teacher if the caller is trained online (ValueError when both
   dimensions are known and differ — raised BEFORE caller._teacher is assigned), TypeError otherwise. *)
Definition register_teacher (n : node) (td : option nat) : res ycheck :=
  if has_online (nkind n) then
    match output_dim n, td with
    | Some o, Some t => if o =? t then ROk (YTeacher td) else RErr ValueError
    | _, _ => ROk (YTeacher td)
    end
  else RErr TypeError.

(* check_xy for a Node caller: x against input_dim, then y (if given) against output_dim with allow_n_inputs=False *)
Definition check_xy (n : node) (x : data) (y : option data) (ans ani ats : bool) : res (data * ycheck) :=
  match x with
  | DTeacher _ => RErr TypeError                                   (* "Nodes can not be used as input" *)
  | _ =>
  match check_n_sequences x (input_dim n) ans ani ats with
  | RErr e => RErr e
  | ROk x' =>
      match y with
      | None => ROk (x', YNone)
      | Some (DTeacher td) =>
          match register_teacher n td with RErr e => RErr e | ROk yc => ROk (x', yc) end
      | Some yd =>
          match check_n_sequences yd (option_map (fun d => [d]) (output_dim n)) ans false ats with
          | RErr e => RErr e
          | ROk y' => ROk (x', YData y')
          end
      end
  end
  end.

Definition set_teacher (n : node) (t : option (option nat)) : node :=
  mkNode (nkind n) (initialized n) (input_dim n) (output_dim n) (state_shape n)
         (params_version n) (state_version n) (trained n) t (aliased n).

(* regular layouts *)
Definition seq2 (d : data) : option (nat * nat) :=
  match d with DArr _ [t; f] => if (1 <=? t) && (1 <=? f) then Some (t, f) else None | _ => None end.

Fixpoint seqs_list (l : list data) : option (list (nat * nat)) :=
  match l with
  | [] => Some []
  | it :: r => match seq2 it, seqs_list r with Some p, Some r' => Some (p :: r') | _, _ => None end
  end.

(* utils.model_utils.to_ragged_seq_set on checked data: a 2-D array is one sequence, a 3-D array / a list is a set *)
Definition seqs_of (d : data) : option (list (nat * nat)) :=
  match d with
  | DArr _ [n; t; f] => if (1 <=? n) && (1 <=? t) && (1 <=? f) then Some (repeat (t, f) n) else None
  | DArr _ [_; _] => match seq2 d with Some p => Some [p] | None => None end
  | DList items => match items with [] => None | _ => seqs_list items end
  | _ => None
  end.

Definition pair_eqb (a b : nat * nat) : bool := (fst a =? fst b) && (snd a =? snd b).

(* one step of input for call / the rows of a run: a single array, or (Concat only) a non-empty list of arrays with the
   same number of rows (concat_forward: np.concatenate(data, axis=1) for any non-empty list since e9d4225; before, a
   one-element list went through np.asarray and gained an axis).  Returns (rows, feature sizes). *)
Definition inputs_of (k : kind) (d : data) : option (nat * list nat) :=
  match d with
  | DArr _ _ => match seq2 d with Some (t, f) => Some (t, [f]) | None => None end
  | DList items =>
      match k, items, seqs_list items with
      | KConcat, _ :: _, Some ps =>
          if forallb (fun p => fst p =? fst (hd (0, 0) ps)) ps then Some (fst (hd (0, 0) ps), map snd ps) else None
      | _, _, _ => None
      end
  | _ => None
  end.

Definition bump_state (n : node) : node :=
  mkNode (nkind n) (initialized n) (input_dim n) (output_dim n)
         (match output_dim n with Some o => Some [1; o] | None => state_shape n end)
         (params_version n) (S (state_version n)) (trained n) (teacher n) (aliased n).
Definition bump_params (n : node) (tr : bool) : node :=
  mkNode (nkind n) (initialized n) (input_dim n) (output_dim n) (state_shape n)
         (S (params_version n)) (state_version n) (trained n || tr) (teacher n) (aliased n).

(* Node.clean_buffers (called by fit on success AND, since 2730dd5, when its partial_fit raises) *)
Definition clean_buffers (n : node) : node :=
  mkNode (nkind n) (initialized n) (input_dim n) (output_dim n) (state_shape n)
         (params_version n) (state_version n) (trained n) (teacher n) true.

Definition width (n : node) : nat := match output_dim n with Some o => o | None => 0 end.

(* forward-based operations (call, run): x' is the checked input, rows1 = a single step is required *)
Definition forward_op (n : node) (x' : data) : result :=
  match inputs_of (nkind n) x' with
  | None => Irregular
  | Some (rows, xf) =>
      match (if initialized n then ROk n else initialize n xf None) with
      | RErr e => Err PInit e n
      | ROk n1 =>
          if negb (match input_dim n1 with Some d => lnat_eqb d xf | None => false end) then Irregular
          else match nkind n1, trained n1 with
               | KSklearn, false => Err PCore ValueError n1        (* predict -> NotFittedError, a ValueError subclass *)
               | _, _ => Ok (bump_state n1) (Some (rows, width n1))
               end
      end
  end.

(* Node.train, after check_xy (n already carries the teacher that check_xy registered: _base.train prefers node._teacher
   over the Y array).  Since f5028fe everything after check_xy is inside  try: ... finally: self._unregister_teacher() :
   whatever the outcome, no teacher is left on the node. *)
(* Node.train computes y_init only `if hasattr(Y, "__iter__")` on the RAW target: a Python number passes check_xy
   (it becomes a (1, 1) array) but is not used to infer the output dimension *)
Definition y_iterable (y : option data) : bool := match y with Some DNum => false | _ => true end.

Definition train_op (n : node) (x' : data) (y' : ycheck) (yiter : bool) : result :=
  match seq2 x' with
  | None => Irregular
  | Some (t, f) =>
      (* target rows given as data: must be a regular (t, m) block when they are used *)
      let ydata := match y' with YData yd => seq2 yd | _ => None end in
      match teacher n with
      | None =>
          match ydata with
          | Some (ty, m) =>
              if negb (t =? ty) then Irregular
              else match (if initialized n then ROk n else initialize n [f] (if yiter then Some m else None)) with
                   | RErr e => Err PInit e (set_teacher n None)
                   | ROk n1 =>
                       if (match input_dim n1 with Some d => lnat_eqb d [f] | None => false end)
                          && (match output_dim n1 with Some o => o =? m | None => false end)
                       then Ok (set_teacher (bump_params (bump_state n1) false) None) (Some (t, width n1))
                       else Irregular
                   end
          | None => Irregular                                     (* no target / irregular layouts *)
          end
      | Some td =>
          match y', ydata with
          | YData _, None => Irregular
          | _, _ =>
              (* _init_vectors_placeholders: y from the data if given, else output_dim, else the teacher's output_dim *)
              let yf := match ydata with Some (_, m) => if yiter then Some m else td | None => td end in
              match (if initialized n then ROk n else initialize n [f] yf) with
              | RErr e => Err PInit e (set_teacher n None)
              | ROk n1 =>
                  if negb (match input_dim n1 with Some d => lnat_eqb d [f] | None => false end) then Irregular
                  else match td with
                       | None => Err PCore RuntimeError (set_teacher n1 None)   (* the teacher cannot be initialised: "Impossible to get teacher" *)
                       | Some tdim =>
                           if width n1 =? tdim
                           then Ok (set_teacher (bump_params (bump_state n1) false) None) (Some (t, width n1))
                           else Irregular
                       end
              end
          end
      end
  end.

(* Node.partial_fit (and IPReservoir.partial_fit, which does not look at Y) *)
Definition partial_fit_op (n : node) (x' : data) (y' : ycheck) : res node + unit :=
  match seqs_of x' with
  | None => inr tt
  | Some xs =>
      let unsup := match nkind n with KIPReservoir _ => true | _ => false end in
      match (if unsup then Some (map (fun p => (fst p, 0)) xs)
             else match y' with YData yd => seqs_of yd | _ => None end) with
      | None => inr tt
      | Some ys =>
          if negb ((length xs =? length ys) && forallb (fun p => fst (fst p) =? fst (snd p)) (combine xs ys)) then inr tt
          else
            let f := snd (hd (0, 0) xs) in
            let m := snd (hd (0, 0) ys) in
            (* _init_with_sequences (since 7fd0837): an uninitialised node takes its dimensions from the FIRST sequence; the
               others must agree with it, and a disagreement is a ValueError raised before initialize() and before any sum *)
            let ragged := negb (forallb (fun p => snd p =? f) xs && (unsup || forallb (fun p => snd p =? m) ys)) in
            if negb (initialized n) && ragged then inl (RErr ValueError) else
            match (if initialized n then ROk n else initialize n [f] (if unsup then None else Some m)) with
            | RErr e => inl (RErr e)
            | ROk n1 =>
                if forallb (fun p => match input_dim n1 with Some d => lnat_eqb d [snd p] | None => false end) xs
                   && (unsup || forallb (fun p => match output_dim n1 with Some o => o =? snd p | None => false end) ys)
                then inl (ROk n1) else inr tt
            end
      end
  end.

Definition supported (k : kind) (o : op) : bool :=
  match o with
  | OCall _ | ORun _ => true
  | OTrain _ _ => has_online k
  | OPartialFit _ _ | OFit _ _ => has_offline k
  end.

(* one public operation on a node:  support ; check_xy ; (initialize) ; core *)
Definition step (n : node) (o : op) : result :=
  if negb (supported (nkind n) o) then Err PSupport TypeError n
  else
    let unsup := match nkind n with KIPReservoir _ => true | _ => false end in
    match o with
    | OCall x =>
        match check_xy n x None false true false with
        | RErr e => Err PCheck e n
        | ROk (x', _) =>
            match inputs_of (nkind n) x' with
            | Some (1, _) => forward_op n x'
            | _ => Irregular
            end
        end
    | ORun x =>
        match check_xy n x None false true true with
        | RErr e => Err PCheck e n
        | ROk (x', _) => forward_op n x'
        end
    | OTrain x y =>
        match check_xy n x y false false true with
        | RErr e => Err PCheck e n
        | ROk (x', y') =>
            train_op (match y' with YTeacher td => set_teacher n (Some td) | _ => n end) x' y' (y_iterable y)
        end
    | OPartialFit x y =>
        match check_xy n x (if unsup then None else y) true false true with
        | RErr e => Err PCheck e n
        | ROk (x', y') =>
            match partial_fit_op n x' y' with
            | inr _ => Irregular
            | inl (RErr e) => Err PInit e n
            | inl (ROk n1) => Ok n1 None
            end
        end
    | OFit x y =>
        match check_xy n x (if unsup then None else y) true false true with
        | RErr e => Err PCheck e (clean_buffers n)
        | ROk (x', y') =>
            match partial_fit_op n x' y' with
            | inr _ => Irregular
            | inl (RErr e) => Err PInit e (clean_buffers n)
            | inl (ROk n1) =>
                (* ScikitLearnNode.backward concatenates the default buffers: once they are one list, inputs and targets are
                   mixed, and np.concatenate raises unless they have the same width *)
                match nkind n1, aliased n1 && negb (lnat_eqb (match input_dim n1 with Some d => d | None => [] end) [width n1]) with
                | KSklearn, true => Err PCore ValueError (clean_buffers n1)
                | _, _ => Ok (clean_buffers (bump_params (if unsup then bump_state n1 else n1) true)) None
                end
            end
        end
    end.

(* a history of operations; an Irregular outcome ends what the model can say about the node *)
Definition after (n : node) (r : result) : option node :=
  match r with Ok n' _ => Some n' | Err _ _ n' => Some n' | Irregular => None end.

Fixpoint run_hist (n : node) (ops : list op) : option node :=
  match ops with
  | [] => Some n
  | o :: r => match after n (step n o) with Some n' => run_hist n' r | None => None end
  end.

(* number of timesteps of an input (spec side of C12_rows): a scalar / 0-d / 1-D array is one step, otherwise the
   first axis; for a list of inputs (Concat), that of the first input *)
Definition timesteps1 (x : data) : nat :=
  match x with
  | DArr _ [] | DArr _ [_] | DNum => 1
  | DArr _ (t :: _) => t
  | _ => 0
  end.
Definition timesteps (x : data) : nat :=
  match x with DList (it :: _) => timesteps1 it | _ => timesteps1 x end.

(* feature size of an array: its last axis (1 for a 0-d array) *)
Definition feat (sh : list nat) : nat := last sh 1.

(* ops._link_1to1: two initialised nodes can be linked only if sender.output_dim == receiver.input_dim *)
Definition link_1to1 (a b : node) : res unit :=
  if initialized a && initialized b then
    match output_dim a, input_dim b with
    | Some o, Some d => if lnat_eqb [o] d then ROk tt else RErr ValueError
    | _, _ => RErr ValueError
    end
  else ROk tt.

(* the check is made for every (sender, receiver) pair of the new edges: senders = the output nodes of the left operand
   (a node, a Model that may never have run, or every node of a list), receivers = the input nodes of the right operand;
   the operands' own is_initialized flag plays no role *)
Fixpoint link_check (senders receivers : list node) : res unit :=
  match senders with
  | [] => ROk tt
  | s :: ss =>
      if forallb (fun r => match link_1to1 s r with ROk _ => true | RErr _ => false end) receivers
      then link_check ss receivers else RErr ValueError
  end.

(* Model.fit: `if not any([n for n in self.trainable_nodes if n.is_trained_offline]): raise TypeError` is the FIRST
   statement — before to_data_mapping / _initialize_on_sequence — so a model without offline learner is refused with
   every node as it was.  (What an accepted Model.fit does is the subject of other properties.) *)
Definition model_fit_guard (nodes : list node) : option (exn * list node) :=
  if existsb (fun n => has_offline (nkind n)) nodes then None else Some (TypeError, nodes).

(* ---------------------------------------------------------------------------------- history (pre-fix behaviour) *)
(* Before 164b89d, Delay.initialize filled the deque with the 1-D rows of np.zeros((delay, dim)), which forward pops
   during the first [delay] steps; before 9c754c0 a single-target scikit-learn estimator's 1-D prediction became the state. *)
Definition prefix_delay_state_shape (delay dim steps : nat) : list nat :=
  if steps <=? delay then (if steps =? 0 then [1; dim] else [dim]) else [1; dim].
Definition prefix_sklearn_state_shape (targets rows : nat) : list nat :=
  if targets =? 1 then [rows] else [rows; targets].
(* Before f5028fe Node.train unregistered the teacher only after a successful run: a train call failing after check_xy
   (teacher that cannot be initialised, failed initialisation, numpy error) left the registered teacher on the node *)
Definition prefix_after_failed_train (n : node) (td : option nat) : node := set_teacher n (Some td).
(* Before ad5a298 the last branch of check_n_sequences (arrays with more than len(dim)+2 axes) only called check_vector *)
Definition prefix_check_too_many_dims (x : data) (ats : bool) : res data :=
  match check_vector x ats with RErr e => RErr e | ROk sh' => ROk (DArr true sh') end.
