(* C09 — schedule-level model of the parallel accumulation of the ridge sufficient statistics, and of the
   re-ordering of parallel results.

   Source modelled (as in /repo now):
   * reservoirpy/nodes/readouts/ridge.py : partial_backward(readout, X, Y, lock) computes the local products xxt, yxt
     and then, [with lock:] when a lock was given, _accumulate: XXT += xxt ; YXT += yxt on the buffers shared by all
     workers (np.memmap files: `+=` is a read of the shared array followed by a write, not an atomic instruction).
   * reservoirpy/nodes/esn.py : ESN.fit creates lock = Manager().Lock() iff (workers > 1 or workers < 0) and
     backend != "sequential" (otherwise the joblib run is sequential), and runs one _run_partial_fit_fn per sequence.
   * reservoirpy/compat/regression_models.py : RidgeRegression.partial_fit(X, Y, lock) has the same shape
     ([with lock:] self._XXT += xxt ; self._YXT += yxt); RidgeRegression.fit takes a Manager lock when the backend is
     not sequential.  Before commit d160369 no lock existed: that system is [use_lock = false].
   * reservoirpy/nodes/esn.py : _sort_and_unpack sorts the (idx, states) pairs returned by the workers on idx.

   One model worker = one task (one sequence): program
       acquire? ; t1 := read XXT ; write XXT (t1 + c) ; t2 := read YXT ; write YXT (t2 + d) ; release?
   Shared state (XXT, YXT, lock : option wid).  A schedule is a list of worker ids; the step of a blocked or finished
   worker is a no-op.  Contributions live in an arbitrary type A with an addition (Z in the examples, matrices over Q
   in the runner); the theorems assume the commutative-monoid laws only. *)
From Coq Require Import List Arith Bool.
Import ListNotations.

Section Conc.
Variable A : Type.
Variable add : A -> A -> A.

Inductive pc : Type :=
| Start                    (* before acquire *)
| Held                     (* inside the section, nothing read yet *)
| ReadX (t : A)            (* holds a private copy of XXT *)
| WroteX
| ReadY (t : A)            (* holds a private copy of YXT *)
| WroteY                   (* both updates written, lock not yet released *)
| Done.

Record st : Type := { XXT : A; YXT : A; lock : option nat; pcs : nat -> pc }.

Definition upd (f : nat -> pc) (w : nat) (p : pc) : nat -> pc := fun v => if Nat.eqb v w then p else f v.

Variable use_lock : bool.
Variable c : nat -> A.      (* contribution of task w to XXT *)
Variable d : nat -> A.      (* contribution of task w to YXT *)

Definition step (s : st) (w : nat) : st :=
  match pcs s w with
  | Start =>
      if use_lock then
        match lock s with
        | None => {| XXT := XXT s; YXT := YXT s; lock := Some w; pcs := upd (pcs s) w Held |}
        | Some _ => s                                                   (* blocked: no-op *)
        end
      else {| XXT := XXT s; YXT := YXT s; lock := lock s; pcs := upd (pcs s) w Held |}
  | Held => {| XXT := XXT s; YXT := YXT s; lock := lock s; pcs := upd (pcs s) w (ReadX (XXT s)) |}
  | ReadX t => {| XXT := add t (c w); YXT := YXT s; lock := lock s; pcs := upd (pcs s) w WroteX |}
  | WroteX => {| XXT := XXT s; YXT := YXT s; lock := lock s; pcs := upd (pcs s) w (ReadY (YXT s)) |}
  | ReadY t => {| XXT := XXT s; YXT := add t (d w); lock := lock s; pcs := upd (pcs s) w WroteY |}
  | WroteY => {| XXT := XXT s; YXT := YXT s; lock := (if use_lock then None else lock s); pcs := upd (pcs s) w Done |}
  | Done => s                                                           (* finished: no-op *)
  end.

Definition run (s : st) (sched : list nat) : st := fold_left step sched s.

Definition init (X0 Y0 : A) : st := {| XXT := X0; YXT := Y0; lock := None; pcs := fun _ => Start |}.

Definition is_done (p : pc) : bool := match p with Done => true | _ => false end.
Definition all_done (n : nat) (s : st) : bool := forallb (fun w => is_done (pcs s w)) (seq 0 n).

(* the contribution of a worker in this state is already visible in the shared XXT / YXT *)
Definition countedX (p : pc) : bool :=
  match p with WroteX | ReadY _ | WroteY | Done => true | _ => false end.
Definition countedY (p : pc) : bool :=
  match p with WroteY | Done => true | _ => false end.
(* the worker is inside the critical section *)
Definition inside (p : pc) : bool :=
  match p with Held | ReadX _ | WroteX | ReadY _ | WroteY => true | _ => false end.

(* the sequential schedule: every task runs its six steps in turn *)
Definition seq_schedule (n : nat) : list nat := flat_map (fun w => repeat w 6) (seq 0 n).
End Conc.

Arguments Start {A}. Arguments Held {A}. Arguments ReadX {A}. Arguments WroteX {A}. Arguments ReadY {A}.
Arguments WroteY {A}. Arguments Done {A}.
Arguments XXT {A}. Arguments YXT {A}. Arguments lock {A}. Arguments pcs {A}.
Arguments upd {A}. Arguments step {A}. Arguments run {A}. Arguments init {A}.
Arguments is_done {A}. Arguments all_done {A}. Arguments countedX {A}. Arguments countedY {A}. Arguments inside {A}.

(* ---- _sort_and_unpack: sorted(states, key=idx) then projection ---- *)
Section SortUnpack.
Variable B : Type.
Fixpoint insert_by_idx (p : nat * B) (l : list (nat * B)) : list (nat * B) :=
  match l with
  | [] => [p]
  | q :: l' => if fst p <=? fst q then p :: l else q :: insert_by_idx p l'
  end.
(* insertion sort on the index; stable like Python's sorted: the head is inserted into the sorted tail before the
   first element whose key is >= its own, so equal keys keep their relative order *)
Fixpoint sort_by_idx (l : list (nat * B)) : list (nat * B) :=
  match l with
  | [] => []
  | p :: l' => insert_by_idx p (sort_by_idx l')
  end.
Definition sort_and_unpack (states : list (nat * B)) : list B := map snd (sort_by_idx states).
Definition enumerate (results : list B) : list (nat * B) := combine (seq 0 (length results)) results.
End SortUnpack.
Arguments insert_by_idx {B}. Arguments sort_by_idx {B}. Arguments sort_and_unpack {B}. Arguments enumerate {B}.
