(* Executable model of the SUB-MODEL feedback sender mechanism of reservoirpy, on top of model/ProxySem.v:
     Node._fb_flag, flipped by `_base.call` after every successful forward    (node.py, _base.py)   -> fl
     DistantFeedback.call_distant_node for a sender that is a Model          (_base.py)           -> cdn
     _distant_model_inputs / _remove_input_for_feedback (the reduced sender) (_base.py)           -> run_reduced
     Node.call on a single node outside any model run                        (node.py)            -> node_call
     model.forward / Model._run loop body / Model._run / Model.call          (model.py)           -> forward_s / step_s / run_s / call_s
   The per-node part (`_state`, params, `_state_proxy`, the receiver's clamp) is ProxySem's [lenv]; this file adds the flag
   bits and a per-node counter of forward-function entries, and replaces ProxySem's in-sync reading of a sub-model
   sender (`FbModel outs`: always the output nodes' proxies) by what the code does:

     def call_distant_node(self):
         if self._clamped: self._clamped = False; return self._clamped_value
         if self._reduced_sender is not None:
             if len(np.unique([n._fb_flag for n in self._sender.nodes])) > 1:
                 input_data = _distant_model_inputs(self._sender)        # state_proxy() of the sender's INPUT nodes
                 return self._reduced_sender.call(input_data)            # runs (ADVANCES) every non-input node, flips its flag
             else:
                 return [n.state_proxy() for n in self._sender.output_nodes]

   The reduced sender is the sender without its input nodes: a single remaining node is called with Node.call, two or more
   form a Model and go through Model.call, i.e. `_load_proxys(keep=True)` before and `_clean_proxys()` after on THOSE nodes
   (in the middle of the enclosing model's step).  Senders with one output node (with several the reduced call returns a
   dict, the in-sync branch a list).  Nodes of a reduced sender read their own feedback as in ProxySem (no nesting).
   No proofs here; proofs/SubSender_proofs.v. *)
From Coq Require Import List Arith Bool.
From RV Require Import base.Num base.LA model.ModelSem model.ProxySem.
Import ListNotations.

Section SubSender.
Context {F : Type} `{Num F}.
Notation vec := (list F).
Notation ndesc := (@ndesc F).
Notation model := (@model F).
Notation lenv := (@lenv F).

(* a sender that is a Model: `nodes`, `input_nodes`, `output_nodes`, the reduced sender's nodes in execution order,
   and the parents of every node INSIDE the sender (fan-in order of find_parents_and_children(sender.edges)) *)
Record subm := mkSub {
  s_nodes : list nat;
  s_ins : list nat;
  s_outs : list nat;
  s_red : list ndesc;
  s_par : nat -> list nat
}.

(* dynamic state: ProxySem's per-node record, the `_fb_flag` bits, how often each node's forward function was entered *)
Record sstate := mkSS { le : lenv; fl : nat -> bool; cn : nat -> nat }.
Definition on_le (f : lenv -> lenv) (s : sstate) : sstate := mkSS (f (le s)) (fl s) (cn s).
Definition flip (f : nat -> bool) (n : nat) : nat -> bool := fun k => if Nat.eqb k n then negb (f k) else f k.
Definition bump (c : nat -> nat) (n : nat) : nat -> nat := fun k => if Nat.eqb k n then S (c k) else c k.
Definition memb (n : nat) (l : list nat) : bool := existsb (Nat.eqb n) l.

(* a freshly built node has `_fb_flag = True` *)
Definition fresh (e : lenv) : sstate := mkSS e (fun _ => true) (fun _ => 0).

(* `_base.call(node, x)` once the input and the feedback value are known: forward, then `_state`, then the flag flip.
   A raising forward leaves everything but the entry counter as it is. *)
Definition apply_node (d : ndesc) (x : vec) (fb : option vec) (s : sstate) : sstate * bool :=
  let e := le s in
  match nfwd d (lst (e (nid d))) (lhid (e (nid d))) x fb with
  | Some (s', h') =>
      (mkSS (lupd e (nid d) (mkLN s' h' (proxy (e (nid d))) (clamp (e (nid d))))) (flip (fl s) (nid d)) (bump (cn s) (nid d)), true)
  | None => (mkSS e (fl s) (bump (cn s) (nid d)), false)
  end.

(* `len(np.unique([n._fb_flag for n in sender.nodes])) > 1` is false *)
Definition flags_equal (s : sstate) (sd : subm) : bool :=
  match s_nodes sd with
  | [] => true
  | n :: rest => forallb (fun k => Bool.eqb (fl s k) (fl s n)) rest
  end.

(* _distant_model_inputs: for every child, the state_proxy() of those of its parents that are input nodes of the sender *)
Definition distant_inputs (sd : subm) (e : lenv) (n : nat) : vec :=
  concat (map (state_proxy e) (filter (fun p => memb p (s_ins sd)) (s_par sd n))).

(* forward of the reduced sender: DataDispatcher.get = current states of the parents that remain, then the loaded data *)
Fixpoint red_from (sd : subm) (ind : nat -> vec) (ds : list ndesc) (s : sstate) : sstate * bool :=
  match ds with
  | [] => (s, true)
  | d :: rest =>
      let x := concat (map (fun p => lst (le s p)) (filter (fun p => negb (memb p (s_ins sd))) (s_par sd (nid d)))) ++ ind (nid d) in
      let '(fb, e1) := fb_read d (le s) in
      let '(s2, ok) := apply_node d x fb (mkSS e1 (fl s) (cn s)) in
      if ok then red_from sd ind rest s2 else (s2, false)
  end.

Definition red_model (sd : subm) : model := mkModel (s_red sd) (s_par sd) (s_outs sd).

(* `self._reduced_sender.call(input_data)`: Node.call for a single node, Model.call otherwise *)
Definition run_reduced (sd : subm) (s : sstate) : sstate * bool :=
  let ind := distant_inputs sd (le s) in
  match s_red sd with
  | [_] => red_from sd ind (s_red sd) s
  | _ => let '(s1, ok) := red_from sd ind (s_red sd) (on_le (load_proxys (red_model sd) true) s) in
         (on_le (clean_proxys (red_model sd)) s1, ok)
  end.

(* DistantFeedback.call_distant_node of receiver [d].  [sm] gives the sub-model sender of a receiver (None: node sender or
   no feedback, read as in ProxySem).  Result: value, state, false when the reduced sender raised. *)
Definition cdn (sm : nat -> option subm) (d : ndesc) (s : sstate) : option vec * sstate * bool :=
  match sm (nid d) with
  | None => let '(fb, e1) := fb_read d (le s) in (fb, mkSS e1 (fl s) (cn s), true)
  | Some sd =>
      match clamp (le s (nid d)) with
      | Some v => (Some v, on_le (fun e => set_clamp e (nid d) None) s, true)
      | None =>
          if flags_equal s sd then (Some (concat (map (state_proxy (le s)) (s_outs sd))), s, true)
          else let '(s1, ok) := run_reduced sd s in
               (Some (concat (map (fun o => lst (le s1 o)) (s_outs sd))), s1, ok)
      end
  end.

(* Node.call(x) / `_base.call(node, x)`: x is given (inside a model: gathered BEFORE forward runs); forward reads the feedback
   (when the reduced sender raises, the receiver's forward was entered and the exception leaves it) *)
Definition node_call (sm : nat -> option subm) (d : ndesc) (x : vec) (s : sstate) : sstate * bool :=
  let '(fb, s1, okr) := cdn sm d s in
  if okr then apply_node d x fb s1 else (mkSS (le s1) (fl s1) (bump (cn s1) (nid d)), false).

Definition call_node_s (m : model) (sm : nat -> option subm) (ext : nat -> option vec) (s : sstate) (d : ndesc) : sstate * bool :=
  node_call sm d (gather_ll m (le s) ext (nid d)) s.

Fixpoint forward_from_s (m : model) sm (ext : nat -> option vec) (ds : list ndesc) (s : sstate) : sstate * bool :=
  match ds with
  | [] => (s, true)
  | d :: rest => let '(s1, ok) := call_node_s m sm ext s d in
                 if ok then forward_from_s m sm ext rest s1 else (s1, false)
  end.
Definition forward_s (m : model) sm ext (s : sstate) : sstate * bool := forward_from_s m sm ext (order m) s.

(* Model.with_feedback, as ProxySem.with_feedback_ll *)
Fixpoint with_feedback_s (forced : nat -> option vec) (stateful_fb : bool) (ds : list ndesc)
         (body : sstate -> sstate * bool) (s : sstate) : sstate * bool :=
  match ds with
  | [] => body s
  | d :: rest =>
      let saved := proxy (le s (nid d)) in
      let '(s2, ok) := with_feedback_s forced stateful_fb rest body (on_le (fun e => fb_enter forced e d) s) in
      (on_le (fun e => fb_exit stateful_fb saved e d) s2, ok)
  end.

(* loop body of Model._run *)
Definition step_s (m : model) sm (forced ext : nat -> option vec) (s : sstate) : sstate * bool :=
  let '(s1, ok) := with_feedback_s forced false (order m) (forward_s m sm ext) s in
  if ok then (on_le (load_proxys m false) s1, true) else (s1, false).

Fixpoint run_steps_s (m : model) sm (steps : list ((nat -> option vec) * (nat -> option vec))) (s : sstate)
  : sstate * list (list vec) * bool :=
  match steps with
  | [] => (s, [], true)
  | (ext, forced) :: rest =>
      let '(s1, ok) := step_s m sm forced ext s in
      if ok then let '(s2, outs, ok2) := run_steps_s m sm rest s1 in (s2, out_states_ll m (le s1) :: outs, ok2)
      else (s1, [], false)
  end.

(* Model._run / Model.run on one sequence (stateful, no reset): load(keep) ; steps ; finally clean *)
Definition run_s (m : model) sm steps (s : sstate) : sstate * list (list vec) * bool :=
  let '(s1, outs, ok) := run_steps_s m sm steps (on_le (load_proxys m true) s) in
  (on_le (clean_proxys m) s1, outs, ok).

(* Model.call (stateful): load(keep) ; with_feedback { forward } ; finally clean - no reload *)
Definition call_s (m : model) sm (forced ext : nat -> option vec) (s : sstate) : sstate * list (list vec) * bool :=
  let '(s1, ok) := with_feedback_s forced true (order m) (forward_s m sm ext) (on_le (load_proxys m true) s) in
  (on_le (clean_proxys m) s1, (if ok then [out_states_ll m (le s1)] else []), ok).

(* ---- observation helpers for statements ---- *)
(* the feedback value receiver [d] would be handed in state [s] *)
Definition fb_seen (sm : nat -> option subm) (d : ndesc) (s : sstate) : option vec := fst (fst (cdn sm d s)).
(* all `_fb_flag`s of the sender's nodes agree *)
Definition in_sync (s : sstate) (sd : subm) : Prop := forall a b, In a (s_nodes sd) -> In b (s_nodes sd) -> fl s a = fl s b.

End SubSender.

Arguments mkSub {F} _ _ _ _ _.
Arguments mkSS {F} _ _ _.
