(* C11: which fields a training / inference operation may touch, and what survives an offline training session.
   A state machine over abstract node records, mirroring
     reservoirpy/node.py   Node.__init__ (_buffers = {}, _X, _Y = [], [], _trainable, _fitted), is_trained_offline/online,
                           is_trainable setter, initialize_buffers, clean_buffers, _partial_backward_default,
                           partial_fit, fit, train, run
     reservoirpy/model.py  Model.initialize_buffers, Model.fit (one training stage), run_and_partial_fit, Model.train,
                           train (the per-node dispatch), _check_if_only_online
     reservoirpy/nodes/readouts/ridge.py (buffers XXT/YXT, partial_backward, backward) and
     reservoirpy/nodes/readouts/sklearn_node.py (default buffers, backward concatenates them) through the abstract kernels
     [acc0 / acc_step / bk_buf / bk_def] below (instantiated at Q in model/TrainSemQ.v).
   Everything is polymorphic in the types of the fixed parameters, the learned parameters, the node state, a data row and
   the buffer contents, and in the numeric kernels: the theorems of C11 hold for every choice of them.
   No proofs here. *)
From Coq Require Import List Arith Bool.
Import ListNotations.

(* the learning machinery a node class was built with (Node.__init__ arguments):
     KPlain   no backward, no train                                (Reservoir, Input, NVAR, ...)
     KBuf     backward + own partial_backward + buffers_initializer (Ridge, tests' Offline)
     KDef     backward + _partial_backward_default, no buffers     (ScikitLearnNode, custom offline nodes)
     KOnline  train                                                 (RLS, LMS, FORCE)                      *)
Inductive kind := KPlain | KBuf | KDef | KOnline.

(* how an operation ended:
     Done            returned normally
     Rejected        raised before doing anything (TypeError: no such learning rule / nothing to fit, RuntimeError of
                     _check_if_only_online)
     FailedPartial   a sequence of the batch was rejected by partial_fit (shorter than the warm-up) after the previous
                     ones had been accumulated
     FailedBackward  the learning rule itself raised (singular system, inconsistent buffers, no buffer) *)
Inductive outcome := Done | Rejected | FailedPartial | FailedBackward.

(* which of the three clean-ups the tree has (HEAD: all; the pre-fix tree: none):
     cl_pf_node   Node.fit:  try: partial_fit(...) except: clean_buffers(); raise            (2730dd5)
     cl_pf_model  Model.fit: try: for seq: run_and_partial_fit except: clean offlines; raise (4711578)
     cl_bk        Node.fit / Model.fit: the same around _backward / the node.fit() loop      (36d5a16) *)
Record cfg := mkCfg { cl_pf_node : bool; cl_pf_model : bool; cl_bk : bool }.
Definition HEAD : cfg := mkCfg true true true.
Definition PREFIX : cfg := mkCfg false false false.

Section TrainSem.
Variables (P L St Row A : Type).
(* one sequence (or one batch) of data: a list of rows; [X[warmup:]] is [skipn warmup] *)
Notation B := (list Row).
(* one training sequence: inputs and (optional) targets *)
Notation D := (B * option B)%type.

(* kernels *)
Variable acc0 : P -> A.                                  (* buffers_initializer: fresh (zero) buffers *)
Variable acc_step : P -> A -> B -> option B -> A.        (* partial_backward of a KBuf node on one sequence *)
Variable bk_buf : P -> A -> option L.                    (* backward of a KBuf node; None = it raises *)
Variable bk_def : P -> list B -> list B -> option L.     (* backward(node, _X, _Y) of a KDef node *)
Variable train_fn : P -> L -> St -> B -> option B -> L * St.  (* the online loop over one sequence *)
Variable fwd : P -> L -> St -> B -> St.                    (* running one sequence: the new state *)

Record node := mkNode {
  n_kind : kind;
  n_fixed : P;            (* W, Win, bias, Wfb, hypers, dimensions: everything training must not touch *)
  n_learned : L;          (* Wout / bias / P of a readout, a/b of an IP reservoir, the scikit-learn instances *)
  n_state : St;
  n_trainable : bool;     (* _trainable *)
  n_fitted : bool;        (* _fitted *)
  n_buffers : option A;   (* _buffers: None = {} *)
  n_X : list B;           (* _X *)
  n_Y : list B;           (* _Y *)
  n_aliased : bool        (* _X is _Y *)
}.

(* Node.__init__ *)
Definition has_offline (k : kind) : bool := match k with KBuf | KDef => true | _ => false end.
Definition has_online (k : kind) : bool := match k with KOnline => true | _ => false end.
Definition fresh (k : kind) (p : P) (l : L) (s : St) : node :=
  mkNode k p l s (has_offline k || has_online k) (negb (has_offline k)) None [] [] false.

Definition is_trained_offline (n : node) : bool := n_trainable n && has_offline (n_kind n).
Definition is_trained_online (n : node) : bool := n_trainable n && has_online (n_kind n).

Definition set_learned (l : L) (n : node) : node :=
  mkNode (n_kind n) (n_fixed n) l (n_state n) (n_trainable n) (n_fitted n) (n_buffers n) (n_X n) (n_Y n) (n_aliased n).
Definition set_state (s : St) (n : node) : node :=
  mkNode (n_kind n) (n_fixed n) (n_learned n) s (n_trainable n) (n_fitted n) (n_buffers n) (n_X n) (n_Y n) (n_aliased n).
Definition set_fitted (b : bool) (n : node) : node :=
  mkNode (n_kind n) (n_fixed n) (n_learned n) (n_state n) (n_trainable n) b (n_buffers n) (n_X n) (n_Y n) (n_aliased n).
Definition set_buffers (a : option A) (n : node) : node :=
  mkNode (n_kind n) (n_fixed n) (n_learned n) (n_state n) (n_trainable n) (n_fitted n) a (n_X n) (n_Y n) (n_aliased n).
Definition set_xy (x y : list B) (al : bool) (n : node) : node :=
  mkNode (n_kind n) (n_fixed n) (n_learned n) (n_state n) (n_trainable n) (n_fitted n) (n_buffers n) x y al.

(* is_trainable setter:  if self.is_trained_offline or self.is_trained_online: self._trainable = value
   (so a node without a learning rule ignores it -- and a frozen node, whose two properties are then False, can never
   be unfrozen) *)
Definition set_trainable (v : bool) (n : node) : node :=
  if is_trained_offline n || is_trained_online n
  then mkNode (n_kind n) (n_fixed n) (n_learned n) (n_state n) v (n_fitted n) (n_buffers n) (n_X n) (n_Y n) (n_aliased n)
  else n.

(* clean_buffers:  if len(_buffers) > 0: _buffers = dict(); clean_tempfile(self)
                   self._X = self._Y = []          <- ONE new list under both names *)
Definition clean_buffers (n : node) : node := set_xy [] [] true (set_buffers None n).

(* initialize_buffers:  if _buffers_initializer is not None: if len(_buffers) == 0: _buffers_initializer(self) *)
Definition init_buffers (n : node) : node :=
  match n_kind n, n_buffers n with
  | KBuf, None => set_buffers (Some (acc0 (n_fixed n))) n
  | _, _ => n
  end.

(* _partial_backward on one (warm-up stripped) sequence.
   KBuf: the node's own rule adds to the buffers.
   otherwise _partial_backward_default:  node._X.append(X_batch); if Y_batch is not None: node._Y.append(Y_batch)
   -- when the two names denote one list, both appends land in it. *)
Definition opt_list {T} (o : option T) : list T := match o with Some t => [t] | None => [] end.
Definition partial_backward (n : node) (x : B) (y : option B) : node :=
  match n_kind n with
  | KBuf => set_buffers (option_map (fun a => acc_step (n_fixed n) a x y) (n_buffers n)) n
  | _ => if n_aliased n
         then let l := n_X n ++ [x] ++ opt_list y in set_xy l l true n
         else set_xy (n_X n ++ [x]) (n_Y n ++ opt_list y) false n
  end.

(* the loop of Node.partial_fit: ValueError at the first sequence with shape[0] <= warmup, AFTER the previous ones *)
Definition pstep (w : nat) (n : node) (d : D) : option node :=
  if length (fst d) <=? w then None
  else Some (partial_backward n (skipn w (fst d)) (option_map (skipn w (A:=Row)) (snd d))).
Fixpoint pf_loop (w : nat) (n : node) (seqs : list D) : node * bool :=
  match seqs with
  | [] => (n, true)
  | d :: r => match pstep w n d with
              | None => (n, false)
              | Some n' => pf_loop w n' r
              end
  end.

(* Node.partial_fit(X_batch, Y_batch, warmup) *)
Definition partial_fit (w : nat) (n : node) (seqs : list D) : node * outcome :=
  if is_trained_offline n
  then let '(n', ok) := pf_loop w (init_buffers n) seqs in (n', if ok then Done else FailedPartial)
  else (n, Rejected).

(* self._backward(self, self._X, self._Y) *)
Definition backward (n : node) : option L :=
  match n_kind n with
  | KBuf => match n_buffers n with Some a => bk_buf (n_fixed n) a | None => None end   (* get_buffer: AttributeError *)
  | KDef => bk_def (n_fixed n) (n_X n) (n_Y n)
  | _ => None
  end.

(* the tail of Node.fit:  [try:] _backward(...) [except: clean_buffers(); raise];  _fitted = True;  clean_buffers() *)
Definition finish (c : cfg) (n : node) : node * outcome :=
  match backward n with
  | Some l => (clean_buffers (set_fitted true (set_learned l n)), Done)
  | None => (if cl_bk c then clean_buffers n else n, FailedBackward)
  end.

(* Node.fit(X, Y, warmup)  /  Node.fit()  (seqs = None: use what partial_fit stored) *)
Definition fit (c : cfg) (w : nat) (n : node) (seqs : option (list D)) : node * outcome :=
  if is_trained_offline n then
    let n0 := set_fitted false n in
    match seqs with
    | Some sq =>
        let '(n1, ok) := pf_loop w (init_buffers n0) sq in
        if ok then finish c n1
        else (if cl_pf_node c then clean_buffers n1 else n1, FailedPartial)
    | None => finish c n0
    end
  else (n, Rejected).

(* Node.train(X, Y) *)
Definition train (n : node) (d : D) : node * outcome :=
  if is_trained_online n
  then let '(l, s) := train_fn (n_fixed n) (n_learned n) (n_state n) (fst d) (snd d) in
       (set_state s (set_learned l n), Done)
  else (n, Rejected).

(* Node.run / Node.call *)
Definition run (n : node) (x : B) : node := set_state (fwd (n_fixed n) (n_learned n) (n_state n) x) n.

(* ------------------------------------------------------------------ stores and operations *)
Notation store := (list node).

Fixpoint upd (i : nat) (f : node -> node) (st : store) : store :=
  match st, i with
  | [], _ => []
  | n :: r, O => f n :: r
  | n :: r, S j => n :: upd j f r
  end.
Definition put (i : nat) (n : node) (st : store) : store := upd i (fun _ => n) st.
Definition upd_all (is : list nat) (f : node -> node) (st : store) : store := fold_left (fun s i => upd i f s) is st.
Definition run_all (xs : list (nat * B)) (st : store) : store :=
  fold_left (fun s p => upd (fst p) (fun n => run n (snd p)) s) xs st.
Definition on_node (i : nat) (f : node -> node * outcome) (st : store) : store * outcome :=
  match nth_error st i with
  | Some n => let '(n', o) := f n in (put i n' st, o)
  | None => (st, Rejected)
  end.

Inductive op :=
| ORun (xs : list (nat * B))                      (* node.run(x) / model.run(x): (node, the input it receives) *)
| OPartialFit (i : nat) (w : nat) (seqs : list D)
| OFit (i : nat) (w : nat) (seqs : option (list D))
| OTrain (i : nat) (d : D)
| OFreeze (i : nat) (v : bool)                    (* node.is_trainable = v *)
(* Model.fit(X, Y, warmup) of a model with one training stage: [members] all its nodes, [runs] what its forward nodes
   receive, [seqs] for every sequence of the batch what each readout receives (features from its parents, targets) *)
| OMFit (members : list nat) (w : nat) (runs : list (nat * B)) (seqs : list (list (nat * D)))
(* Model.train(X, Y) *)
| OMTrain (members : list nat) (runs : list (nat * B)) (ds : list (nat * D)).

Definition nd (st : store) (i : nat) : option node := nth_error st i.
Definition offline_at (st : store) (i : nat) : bool :=
  match nth_error st i with Some n => is_trained_offline n | None => false end.

(* run_and_partial_fit on one sequence:  for node in offlines: node.partial_fit(seq) *)
Fixpoint mseq (w : nat) (st : store) (ds : list (nat * D)) : store * bool :=
  match ds with
  | [] => (st, true)
  | (i, d) :: r =>
      match nth_error st i with
      | Some n => if is_trained_offline n
                  then match pstep w (init_buffers n) d with
                       | Some n' => mseq w (put i n' st) r
                       | None => (st, false)
                       end
                  else mseq w st r
      | None => mseq w st r
      end
  end.
Fixpoint mloop (w : nat) (st : store) (seqs : list (list (nat * D))) : store * bool :=
  match seqs with
  | [] => (st, true)
  | s :: r => let '(st1, ok) := mseq w st s in if ok then mloop w st1 r else (st1, false)
  end.
(* for node in offlines: node.fit()   -- stops at the first one that raises *)
Fixpoint mfinish (c : cfg) (st : store) (offl : list nat) : store * bool :=
  match offl with
  | [] => (st, true)
  | i :: r => match nth_error st i with
              | Some n => let '(n', o) := fit c 0 n None in
                          match o with
                          | Done => mfinish c (put i n' st) r
                          | _ => (put i n' st, false)
                          end
              | None => mfinish c st r
              end
  end.

Definition model_fit (c : cfg) (members : list nat) (w : nat) (runs : list (nat * B))
           (seqs : list (list (nat * D))) (st : store) : store * outcome :=
  let offl := filter (offline_at st) members in
  match offl with
  | [] => (st, Rejected)                                 (* TypeError: no offline nodes found in model *)
  | _ =>
      (* Model.initialize_buffers: every member that has a buffers_initializer, trainable or not *)
      let st1 := run_all runs (upd_all members init_buffers st) in
      let '(st2, ok) := mloop w st1 seqs in
      if ok then
        let '(st3, ok3) := mfinish c st2 offl in
        if ok3 then (st3, Done)
        else (if cl_bk c then upd_all offl clean_buffers st3 else st3, FailedBackward)
      else (if cl_pf_model c then upd_all offl clean_buffers st2 else st2, FailedPartial)
  end.

(* Model.train: _check_if_only_online, then every online-trainable node trains on what it receives *)
Definition blocks_online (n : node) : bool := is_trained_offline n && negb (n_fitted n).
Definition mtrain1 (st : store) (p : nat * D) : store :=
  match nth_error st (fst p) with
  | Some n => if is_trained_online n then put (fst p) (fst (train n (snd p))) st else st
  | None => st
  end.
Definition model_train (members : list nat) (runs : list (nat * B)) (ds : list (nat * D)) (st : store) : store * outcome :=
  if existsb (fun i => match nth_error st i with Some n => blocks_online n | None => false end) members
  then (st, Rejected)
  else (fold_left mtrain1 ds (run_all runs st), Done).

Definition step (c : cfg) (st : store) (o : op) : store * outcome :=
  match o with
  | ORun xs => (run_all xs st, Done)
  | OPartialFit i w seqs => on_node i (fun n => partial_fit w n seqs) st
  | OFit i w seqs => on_node i (fun n => fit c w n seqs) st
  | OTrain i d => on_node i (fun n => train n d) st
  | OFreeze i v => (upd i (set_trainable v) st, Done)
  | OMFit ms w runs seqs => model_fit c ms w runs seqs st
  | OMTrain ms runs ds => model_train ms runs ds st
  end.

(* a history: the operations are attempted one after the other, whether or not the previous one raised *)
Definition run_ops (c : cfg) (st : store) (ops : list op) : store := fold_left (fun s o => fst (step c s o)) ops st.
(* ... with the outcome of every operation *)
Fixpoint trace (c : cfg) (st : store) (ops : list op) : list (store * outcome) :=
  match ops with
  | [] => []
  | o :: r => let so := step c st o in so :: trace c (fst so) r
  end.

(* ------------------------------------------------------------------ vocabulary of the statements *)
(* no session data: no buffers, nothing stored under _X / _Y *)
Definition session_clean (n : node) : Prop := n_buffers n = None /\ n_X n = [] /\ n_Y n = [].
(* the nodes an operation is entitled to train, given the store it starts from *)
Definition targets (st : store) (o : op) (i : nat) : bool :=
  match o with
  | ORun _ | OFreeze _ _ => false
  | OPartialFit _ _ _ => false
  | OFit j _ _ => (i =? j) && offline_at st i
  | OTrain j _ => (i =? j) && match nth_error st i with Some n => is_trained_online n | None => false end
  | OMFit ms _ _ _ => existsb (Nat.eqb i) ms && offline_at st i
  | OMTrain ms _ ds => existsb (fun p => i =? fst p) ds && match nth_error st i with Some n => is_trained_online n | None => false end
  end.
End TrainSem.

Arguments mkNode {P L St Row A}.
Arguments n_kind {P L St Row A}. Arguments n_fixed {P L St Row A}. Arguments n_learned {P L St Row A}.
Arguments n_state {P L St Row A}. Arguments n_trainable {P L St Row A}. Arguments n_fitted {P L St Row A}.
Arguments n_buffers {P L St Row A}. Arguments n_X {P L St Row A}. Arguments n_Y {P L St Row A}. Arguments n_aliased {P L St Row A}.
Arguments fresh {P L St Row A}.
Arguments is_trained_offline {P L St Row A}. Arguments is_trained_online {P L St Row A}.
Arguments clean_buffers {P L St Row A}. Arguments session_clean {P L St Row A}.
Arguments set_trainable {P L St Row A}.
Arguments ORun {Row}. Arguments OPartialFit {Row}. Arguments OFit {Row}. Arguments OTrain {Row}.
Arguments OFreeze {Row}. Arguments OMFit {Row}. Arguments OMTrain {Row}.
Arguments set_learned {P L St Row A}. Arguments set_state {P L St Row A}. Arguments set_fitted {P L St Row A}.
Arguments set_buffers {P L St Row A}. Arguments set_xy {P L St Row A}.
Arguments init_buffers {P L St Row A}. Arguments partial_backward {P L St Row A}. Arguments pstep {P L St Row A}.
Arguments pf_loop {P L St Row A}. Arguments partial_fit {P L St Row A}. Arguments backward {P L St Row A}.
Arguments finish {P L St Row A}. Arguments fit {P L St Row A}. Arguments train {P L St Row A}. Arguments run {P L St Row A}.
Arguments upd {P L St Row A}. Arguments put {P L St Row A}. Arguments upd_all {P L St Row A}. Arguments run_all {P L St Row A}.
Arguments on_node {P L St Row A}. Arguments offline_at {P L St Row A}. Arguments mseq {P L St Row A}.
Arguments mloop {P L St Row A}. Arguments mfinish {P L St Row A}. Arguments model_fit {P L St Row A}.
Arguments blocks_online {P L St Row A}. Arguments mtrain1 {P L St Row A}. Arguments model_train {P L St Row A}.
Arguments step {P L St Row A}. Arguments run_ops {P L St Row A}. Arguments trace {P L St Row A}.
Arguments targets {P L St Row A}. Arguments opt_list {T}.

(* ------------------------------------------------------------------ more vocabulary (statements of C11) *)
Section Vocabulary.
Context {P L St Row A : Type}.
Variable acc0 : P -> A.
Variable acc_step : P -> A -> list Row -> option (list Row) -> A.
Variable bk_buf : P -> A -> option L.
Variable bk_def : P -> list (list Row) -> list (list Row) -> option L.
Variable train_fn : P -> L -> St -> list Row -> option (list Row) -> L * St.
Variable fwd : P -> L -> St -> list Row -> St.
Notation node := (node P L St Row A).

(* everything but the state is the same *)
Definition same_but_state (n n' : node) : Prop :=
  n_kind n' = n_kind n /\ n_fixed n' = n_fixed n /\ n_learned n' = n_learned n /\ n_trainable n' = n_trainable n /\
  n_fitted n' = n_fitted n /\ n_buffers n' = n_buffers n /\ n_X n' = n_X n /\ n_Y n' = n_Y n /\ n_aliased n' = n_aliased n.
(* node i is never a training target along the history *)
Fixpoint never_targeted (c : cfg) (st : list node) (ops : list (op Row)) (i : nat) : Prop :=
  match ops with
  | [] => True
  | o :: r => targets st o i = false /\
              never_targeted c (fst (step acc0 acc_step bk_buf bk_def train_fn fwd c st o)) r i
  end.
(* the operation is an offline fit that involves node i *)
Definition fit_on (i : nat) (o : op Row) : Prop :=
  match o with
  | OFit j _ _ => i = j
  | OMFit ms _ _ _ => In i ms
  | _ => False
  end.
(* the two names _X and _Y denote one list exactly when the flag says so *)
Definition alias_wf (n : node) : Prop := n_aliased n = true -> n_X n = n_Y n.
End Vocabulary.
