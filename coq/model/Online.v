(* C10: executable models of the iterative learning rules of reservoirpy.
     nodes/readouts/rls.py  (_rls, train, initialize)        nodes/readouts/lms.py (_lms, train, the alpha generator)
     nodes/readouts/force.py (same functions through aliases) nodes/readouts/base.py (readout_forward, _compute_error,
     _assemble_wout, _split_and_save_wout)                   _base.py (train: the online loop)
     nodes/reservoirs/intrinsic_plasticity.py (gaussian_gradients, exp_gradients, apply_gradients, ip, backward)
     nodes/reservoirs/base.py (forward_external, reservoir_kernel; noise gains 0)
   No proofs here. *)
From Coq Require Import List Arith Bool.
From RV Require Import base.Num base.LA.
Import ListNotations.

Section Online.
Context {F : Type} `{Num F}.
Notation vec := (list F).
Notation mat := (list (list F)).

(* ------------------------------------------------------------------ readout (base.py) *)
(* learned parameters of a readout: Wout (input_dim x output_dim), bias (1 x output_dim), P (RLS only),
   and the position in the learning-rate stream (LMS only: how many times next(alpha) was called) *)
Record rdo := { Wout : mat; bias : vec; Pm : mat; cursor : nat }.

(* readout_forward: (Wout.T @ x + bias.T).T  =  x @ Wout + bias *)
Definition readout_forward (odim : nat) (s : rdo) (x : vec) : vec := vadd (vm x (Wout s) odim) (bias s).
(* _prepare_inputs_for_learning -> add_bias: the constant 1 comes FIRST *)
Definition augment (has_bias : bool) (x : vec) : vec := if has_bias then n1 :: x else x.
(* _assemble_wout: np.r_[bias, Wout] when input_bias, Wout otherwise *)
Definition assemble (has_bias : bool) (s : rdo) : mat := if has_bias then bias s :: Wout s else Wout s.
(* _split_and_save_wout: wo[1:], wo[0] when input_bias; only Wout is written otherwise *)
Definition split_save (has_bias : bool) (s : rdo) (wo : mat) (P : mat) (cur : nat) : rdo :=
  if has_bias then {| Wout := tl wo; bias := hd [] wo; Pm := P; cursor := cur |}
  else {| Wout := wo; bias := bias s; Pm := P; cursor := cur |}.
(* _compute_error: prediction - y, where prediction = node.state() = the output of this step's call *)
Definition rerror (pred y : vec) : vec := vsub pred y.

(* ------------------------------------------------------------------ RLS (rls.py) *)
(* _rls(P, r, e): k = P r; rPr = r.k; c = 1/(1+rPr); P <- P - c k k^T; dw = -c e k^T; caller does wo <- wo + dw.T *)
Definition rls_gain (P : mat) (r : vec) : F := ndiv n1 (nadd n1 (dot r (mv P r))).
Definition rls_P (P : mat) (r : vec) : mat :=
  let k := mv P r in msub P (mscale (rls_gain P r) (outer k k)).
Definition rls_wo (P : mat) (wo : mat) (r e : vec) : mat :=
  let k := mv P r in madd wo (mscale (nopp (rls_gain P r)) (outer k e)).
(* rls.train *)
Definition rls_update (has_bias : bool) (s : rdo) (x y pred : vec) : rdo :=
  let r := augment has_bias x in
  let e := rerror pred y in
  split_save has_bias s (rls_wo (Pm s) (assemble has_bias s) r e) (rls_P (Pm s) r) (cursor s).
(* rls.initialize with the default initialisers (zeros): P = eye(input_dim [+1]) / alpha *)
Definition rls_init (has_bias : bool) (idim odim : nat) (alpha : F) : rdo :=
  let n := if has_bias then S idim else idim in
  {| Wout := mzeros idim odim; bias := vzeros odim;
     Pm := map (map (fun v => ndiv v alpha)) (eye n); cursor := 0 |}.

(* ------------------------------------------------------------------ LMS (lms.py) *)
(* the learning-rate generator: a finite prefix of explicit values followed by a constant
   (a scalar alpha is ([], alpha); an iterable is (its values, _) and must not be exhausted) *)
Definition sched := (list F * F)%type.
Definition sched_at (sc : sched) (k : nat) : F := nth k (fst sc) (snd sc).
(* _lms: dw = -next(alpha) * e r^T ; caller does wo <- wo + dw.T *)
Definition lms_wo (a : F) (wo : mat) (r e : vec) : mat := madd wo (mscale (nopp a) (outer r e)).
Definition lms_update (sc : sched) (has_bias : bool) (s : rdo) (x y pred : vec) : rdo :=
  let r := augment has_bias x in
  let e := rerror pred y in
  split_save has_bias s (lms_wo (sched_at sc (cursor s)) (assemble has_bias s) r e) (Pm s) (S (cursor s)).
Definition lms_init (idim odim : nat) : rdo :=
  {| Wout := mzeros idim odim; bias := vzeros odim; Pm := []; cursor := 0 |}.

(* ------------------------------------------------------------------ the online loop (_base.train) *)
(* per step i: s = call(node, x)  (prediction with the CURRENT weights); set_state_proxy(y) does not touch the weights;
   node._train when  i % learn_every == 0 or seq_len == 1 ; states[i] = s.   Generic in the learner. *)
Section Loop.
Context {St : Type}.
Variable fwd : St -> vec -> vec.
Variable upd : St -> vec -> vec -> vec -> St.          (* state, x, y, prediction *)
Definition gate (k : nat) (single : bool) (i : nat) : bool := (i mod k =? 0) || single.
Fixpoint train_loop (k : nat) (single : bool) (i : nat) (s : St) (xy : list (vec * vec)) : St * list vec :=
  match xy with
  | [] => (s, [])
  | (x, y) :: rest =>
      let p := fwd s x in
      let s' := if gate k single i then upd s x y p else s in
      let '(s2, outs) := train_loop k single (S i) s' rest in (s2, p :: outs)
  end.
Definition train (k : nat) (s : St) (xy : list (vec * vec)) : St * list vec :=
  train_loop k (length xy =? 1) 0 s xy.
(* several successive train calls on the same node *)
Fixpoint train_calls (k : nat) (s : St) (calls : list (list (vec * vec))) : St * list (list vec) :=
  match calls with
  | [] => (s, [])
  | c :: cs => let '(s1, o) := train k s c in let '(s2, os) := train_calls k s1 cs in (s2, o :: os)
  end.
(* one learning step on a sample, as the loop performs it *)
Definition learn1 (s : St) (p : vec * vec) : St := upd s (fst p) (snd p) (fwd s (fst p)).
(* the samples of a call that are selected by learn_every *)
Definition selected (k : nat) (xy : list (vec * vec)) : list (vec * vec) :=
  map snd (filter (fun p => fst p mod k =? 0) (combine (seq 0 (length xy)) xy)).
End Loop.

Definition rls_train (has_bias : bool) (odim k : nat) := train (readout_forward odim) (rls_update has_bias) k.
Definition lms_train (sc : sched) (has_bias : bool) (odim k : nat) := train (readout_forward odim) (lms_update sc has_bias) k.

(* ------------------------------------------------------------------ intrinsic plasticity *)
Definition n2 : F := nadd n1 n1.
(* gaussian_gradients: delta_b = -eta * (-(mu/sig2) + (y/sig2) * (2*sig2 + 1 - y**2 + mu*y)) ; delta_a = eta/a + delta_b*x *)
Definition gauss_db (y mu sigma eta : F) : F :=
  let sig2 := nmul sigma sigma in
  nmul (nopp eta)
       (nadd (nopp (ndiv mu sig2))
             (nmul (ndiv y sig2) (nadd (nsub (nadd (nmul n2 sig2) n1) (nmul y y)) (nmul mu y)))).
(* exp_gradients: delta_b = eta * (1 - (2 + 1/mu)*y + y**2/mu) *)
Definition exp_db (y mu eta : F) : F :=
  nmul eta (nadd (nsub n1 (nmul (nadd n2 (ndiv n1 mu)) y)) (ndiv (nmul y y) mu)).
Definition ip_da (x a eta db : F) : F := nadd (ndiv eta a) (nmul db x).
(* ip + apply_gradients for one unit; [tanh_rule] = (activation_type == "tanh"), anything else is the sigmoid rule *)
Definition ip_unit (tanh_rule : bool) (mu sigma eta : F) (x y a b : F) : F * F :=
  let db := if tanh_rule then gauss_db y mu sigma eta else exp_db y mu eta in
  (nadd a (ip_da x a eta db), nadd b db).
Fixpoint ip_units (tanh_rule : bool) (mu sigma eta : F) (xs ys a b : vec) : vec * vec :=
  match xs, ys, a, b with
  | x :: xs', y :: ys', a0 :: a', b0 :: b' =>
      let '(a1, b1) := ip_unit tanh_rule mu sigma eta x y a0 b0 in
      let '(ar, br) := ip_units tanh_rule mu sigma eta xs' ys' a' b' in (a1 :: ar, b1 :: br)
  | _, _, _, _ => ([], [])
  end.

(* the reservoir: forward_external with noise gains 0:
     s' = (1-lr)*s + lr*(W r + Win u + bias) ; output = f(a*s' + b)   (ip_activation) *)
Record ipcfg := { cW : mat; cWin : mat; cbias : vec; clr : F; ctanh : bool; cmu : F; csigma : F; ceta : F }.
Record ipst := { ia : vec; ib : vec; iout : vec; iint : vec }.
Definition res_pre (c : ipcfg) (st : ipst) (u : vec) : vec :=
  vadd (vscale (nsub n1 (clr c)) (iint st))
       (vscale (clr c) (vadd (vadd (mv (cW c) (iout st)) (mv (cWin c) u)) (cbias c))).
Definition ip_arg (st : ipst) (x : vec) : vec := vadd (vmul (ia st) x) (ib st).
(* one timestep of [backward] when the activation returned [y] *)
Definition ip_step_y (c : ipcfg) (st : ipst) (u y : vec) : ipst :=
  let x := res_pre c st u in
  let '(a1, b1) := ip_units (ctanh c) (cmu c) (csigma c) (ceta c) x y (ia st) (ib st) in
  {| ia := a1; ib := b1; iout := y; iint := x |}.
(* ... with an activation function f (element-wise) *)
Definition ip_step (f : F -> F) (c : ipcfg) (st : ipst) (u : vec) : ipst :=
  ip_step_y c st u (map f (ip_arg st (res_pre c st u))).
(* a plain call (no learning): IPReservoir.run on the warm-up part *)
Definition ip_call (f : F -> F) (c : ipcfg) (st : ipst) (u : vec) : ipst :=
  let x := res_pre c st u in {| ia := ia st; ib := ib st; iout := map f (ip_arg st x); iint := x |}.
(* backward: for e in range(epochs): for seq in X: for u in seq: call; ip; set a, b *)
Definition ip_seq (f : F -> F) (c : ipcfg) (st : ipst) (seq : list vec) : ipst := fold_left (ip_step f c) seq st.
Definition ip_epoch (f : F -> F) (c : ipcfg) (st : ipst) (seqs : list (list vec)) : ipst := fold_left (ip_seq f c) seqs st.
Fixpoint ip_backward (f : F -> F) (c : ipcfg) (epochs : nat) (st : ipst) (seqs : list (list vec)) : ipst :=
  match epochs with
  | O => st
  | S e => ip_backward f c e (ip_epoch f c st seqs) seqs
  end.
(* IPReservoir.fit(X, warmup=w): partial_fit runs the first w steps of every sequence (no learning) and stores the
   rest; then backward runs on the stored parts *)
Definition ip_fit (f : F -> F) (c : ipcfg) (epochs warmup : nat) (st : ipst) (seqs : list (list vec)) : ipst :=
  let st1 := fold_left (fun s seq => fold_left (ip_call f c) (firstn warmup seq) s) seqs st in
  ip_backward f c epochs st1 (map (skipn warmup) seqs).
Definition ip_init (units : nat) : ipst :=
  {| ia := vones units; ib := vzeros units; iout := vzeros units; iint := vzeros units |}.

End Online.
