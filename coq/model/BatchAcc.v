(* C09 — data-level model of offline ridge accumulation: which numbers end up in the XXT / YXT buffers for a given
   presentation of the data set.

   Source modelled (as in /repo now):
   * reservoirpy/node.py : Node.partial_fit(X_batch, Y_batch, warmup) turns its argument into a list of sequences and
     calls, for every sequence, _partial_backward(node, X_seq[warmup:], Y_seq[warmup:]); Node.fit(X, Y, warmup) is
     partial_fit followed by _backward on the buffers; buffers are created (zero-filled memmaps) only when absent, so
     successive partial_fit calls keep accumulating.
   * reservoirpy/nodes/readouts/ridge.py : partial_backward prepends the bias column (add_bias: a leading 1) when
     input_bias, computes xxt = X.T.dot(X), yxt = Y.T.dot(X) and _accumulate adds them to the buffers; backward solves
     (XXT + ridge.I) W = YXT^T and splits off the first row as the bias.
   * reservoirpy/compat/regression_models.py : RidgeRegression.partial_fit / fit do the same on _XXT, _YXT (bias
     always added); the legacy Wout is the transpose (dim_out x (1+N)).

   A row is a pair (x, y) of an input vector and a target vector.  Entry (i, j) of X^T X is the sum over the rows of
   x_i x_j: the model is written entry-wise so that the very same scalar sums are the subject of the theorems (at R)
   and are evaluated by the runner (at Q). *)
From Coq Require Import List Arith Bool.
From RV Require Import base.Num base.LA.
Import ListNotations.

Section BatchAcc.
Context {F : Type} `{Num F}.
Notation vec := (list F).
Notation mat := (list (list F)).
Notation row := (list F * list F)%type.

Definition xb (bias : bool) (x : vec) : vec := if bias then n1 :: x else x.
(* contribution of one retained row to XXT[i][j] and to YXT[i][j] *)
Definition row_xx (bias : bool) (i j : nat) (r : row) : F := nmul (vget (xb bias (fst r)) i) (vget (xb bias (fst r)) j).
Definition row_yx (bias : bool) (i j : nat) (r : row) : F := nmul (vget (snd r) i) (vget (xb bias (fst r)) j).

Definition rows_sum (g : row -> F) (rows : list row) : F := fold_right (fun r a => nadd (g r) a) n0 rows.
(* rows of a sequence that take part in training *)
Definition retained (warmup : nat) (s : list row) : list row := skipn warmup s.
(* one partial_fit / fit call on a list of sequences: per-sequence product, then accumulation *)
Definition seqs_sum (g : row -> F) (warmup : nat) (seqs : list (list row)) : F :=
  fold_right (fun s a => nadd (rows_sum g (retained warmup s)) a) n0 seqs.
(* successive partial_fit calls, one per batch, on a buffer that starts at a0 *)
Definition batches_sum (g : row -> F) (warmup : nat) (batches : list (list (list row))) (a0 : F) : F :=
  fold_left (fun a b => nadd a (seqs_sum g warmup b)) batches a0.

Definition tabulate (r c : nat) (f : nat -> nat -> F) : mat := map (fun i => map (fun j => f i j) (seq 0 c)) (seq 0 r).
(* the buffers after the calls; din = input dimension, dout = output dimension *)
Definition XXT_of (bias : bool) (din warmup : nat) (batches : list (list (list row))) : mat :=
  let n := if bias then S din else din in
  tabulate n n (fun i j => batches_sum (row_xx bias i j) warmup batches n0).
Definition YXT_of (bias : bool) (din dout warmup : nat) (batches : list (list (list row))) : mat :=
  let n := if bias then S din else din in
  tabulate dout n (fun i j => batches_sum (row_yx bias i j) warmup batches n0).
End BatchAcc.
