(* Hand-written executable model of the node / model execution layer of reservoirpy:
   _base.call, Node.call/run/reset/with_state, Model._call/_run/call/run (forward over the execution order,
   DataDispatcher.get/load, state proxies, feedback, forced feedback through with_feedback, dispatch).
   Generic over the nodes' forward functions, so that theorems hold "for all node types".
   No proofs here.  See DESIGN.md Appendix A for the source facts this file mirrors. *)
From Coq Require Import List Arith Bool.
From Coq Require String.
From RV Require Import base.Num base.LA.
Import ListNotations.

Section Sem.
Context {F : Type} `{Num F}.
Notation vec := (list F).

(* hidden memory kept in node params (Reservoir 'external' internal_state, NVAR store, Delay buffer, call counters):
   touched by forward only; reset / with_state / stateful=False do not see it *)
Definition hidden := list vec.

Record nstate := mkNS { st : vec; hid : hidden }.
Definition env := nat -> nstate.
Definition upd (e : env) (n : nat) (s : nstate) : env := fun m => if Nat.eqb m n then s else e m.
Definition set_st (e : env) (n : nat) (v : vec) : env := upd e n (mkNS v (hid (e n))).

(* feedback sender of a node: another node, or a sub-model (given by its output nodes; modelled when all its
   nodes have been called equally often, i.e. the `_fb_flag`s agree) *)
Inductive fbsrc := FbNode (s : nat) | FbModel (outs : list nat).

(* forward function: own state -> hidden memory -> input -> feedback value (None: no feedback connection)
   -> None when it raises, else (new state, new hidden memory) *)
Record ndesc := mkND {
  nid : nat;
  nfwd : vec -> hidden -> vec -> option vec -> option (vec * hidden);
  nfb : option fbsrc;
  odim : nat
}.

(* a model: nodes in execution order, fan-in order of each node's parents, entry nodes *)
Record model := mkModel {
  order : list ndesc;
  parents : nat -> list nat;
  outputs : list nat
}.

(* DataDispatcher.get: parents' CURRENT states (fan-in order) followed by the external data loaded for that node *)
Definition gather (m : model) (e : env) (ext : nat -> option vec) (n : nat) : vec :=
  concat (map (fun p => st (e p)) (parents m n)) ++ match ext n with Some x => x | None => [] end.

(* value delivered by DistantFeedback.call_distant_node: a clamped (forced) value once, else the sender's frozen proxy.
   [prev] is the environment the proxies were loaded from (state at the end of the previous step). *)
Definition fbvalue (d : ndesc) (prev : env) (clamp : nat -> option vec) : option vec :=
  match nfb d with
  | None => None
  | Some src =>
    match clamp (nid d) with
    | Some v => Some v
    | None => Some (match src with
                    | FbNode s => st (prev s)
                    | FbModel outs => concat (map (fun o => st (prev o)) outs)
                    end)
    end
  end.

(* _base.call on one node inside a model step.  Result: environment, and false when the forward function raised
   (the environment is then the one at the raise point). *)
Definition call_node (m : model) (prev : env) (clamp : nat -> option vec) (ext : nat -> option vec)
           (e : env) (d : ndesc) : env * bool :=
  match nfwd d (st (e (nid d))) (hid (e (nid d))) (gather m e ext (nid d)) (fbvalue d prev clamp) with
  | Some (s', h') => (upd e (nid d) (mkNS s' h'), true)
  | None => (e, false)
  end.

(* model.forward: call every node once, in execution order *)
Fixpoint forward_from (m : model) (prev : env) (clamp : nat -> option vec) (ext : nat -> option vec)
         (ds : list ndesc) (e : env) : env * bool :=
  match ds with
  | [] => (e, true)
  | d :: rest => let '(e1, ok) := call_node m prev clamp ext e d in
                 if ok then forward_from m prev clamp ext rest e1 else (e1, false)
  end.
Definition forward (m : model) (prev : env) clamp ext (e : env) : env * bool :=
  forward_from m prev clamp ext (order m) e.

(* Model.with_feedback(mapping) for one step.  [forced n] is the mapping looked up by node id.
   A node with a feedback connection is clamped with the value found under its own name, else under its sender's
   name (node senders only); any other named node gets the value as a temporary state proxy. *)
Definition forced_value (forced : nat -> option vec) (d : ndesc) : option vec :=
  match forced (nid d) with
  | Some v => Some v
  | None => match nfb d with
            | Some (FbNode s) => forced s
            | _ => None
            end
  end.
Definition clamps (m : model) (forced : nat -> option vec) : nat -> option vec :=
  fun n => match find (fun d => Nat.eqb (nid d) n) (order m) with
           | Some d => match nfb d with Some _ => forced_value forced d | None => None end
           | None => None
           end.
Definition proxies (m : model) (forced : nat -> option vec) (prev : env) : env :=
  fun n => match find (fun d => Nat.eqb (nid d) n) (order m) with
           | Some d => match nfb d, forced n with
                       | None, Some v => mkNS v (hid (prev n))
                       | _, _ => prev n
                       end
           | None => prev n
           end.

(* one timestep of Model._run / Model.call: proxies = states at the end of the previous step *)
Definition step (m : model) (forced : nat -> option vec) (ext : nat -> option vec) (e : env) : env * bool :=
  forward m (proxies m forced e) (clamps m forced) ext e.

Definition out_states (m : model) (e : env) : list vec := map (fun o => st (e o)) (outputs m).

(* Model._run over a sequence: inputs and forced feedback are given per step *)
Fixpoint run_steps (m : model) (steps : list ((nat -> option vec) * (nat -> option vec))) (e : env)
  : env * list (list vec) * bool :=
  match steps with
  | [] => (e, [], true)
  | (ext, forced) :: rest =>
    let '(e1, ok) := step m forced ext e in
    if ok then let '(e2, outs, ok2) := run_steps m rest e1 in (e2, out_states m e1 :: outs, ok2)
    else (e1, [], false)
  end.

(* graphflow.dispatch: forced feedback seen at step i of one sequence *)
Definition shift_with (z : vec) (ys : list vec) : list vec :=   (* zeros first, then Y[0..T-2] *)
  match ys with
  | [] => []
  | y :: ys' => z :: removelast (y :: ys')
  end.
Definition dispatch_fb (shift_fb : bool) (zeros : vec) (ys : list vec) : list vec :=
  if shift_fb then shift_with zeros ys else ys.

(* ---- state contexts (Node.with_state / Model.with_state) ---- *)
(* restore the [st] of every listed node from a snapshot; hidden memory is left as it is *)
Definition restore_st (ids : list nat) (snap : env) (e : env) : env :=
  fold_left (fun acc n => set_st acc n (st (snap n))) ids e.
Definition ids_of (m : model) : list nat := map nid (order m).

(* from_state / reset: the states the operation starts from *)
Definition start_env (m : model) (reset : bool) (from_state : nat -> option vec) (e : env) : env :=
  fold_left (fun acc d =>
               match from_state (nid d) with
               | Some v => set_st acc (nid d) v
               | None => if reset then set_st acc (nid d) (vzeros (odim d)) else acc
               end) (order m) e.

(* Model.run on one sequence (also Node.run: a one-node model), with every combination of the flags.
   On failure the exception propagates; after the repair of with_state the states are restored too. *)
Definition run_op (m : model) (stateful reset : bool) (from_state : nat -> option vec)
           (steps : list ((nat -> option vec) * (nat -> option vec))) (e : env)
  : env * list (list vec) * bool :=
  let e0 := start_env m reset from_state e in
  let '(e1, outs, ok) := run_steps m steps e0 in
  ((if stateful then e1 else restore_st (ids_of m) e e1), outs, ok).

(* Model.reset / Node.reset: zero states, hidden memory untouched *)
Definition reset_op (m : model) (e : env) : env :=
  fold_left (fun acc d => set_st acc (nid d) (vzeros (odim d))) (order m) e.

End Sem.

Arguments mkNS {F} _ _.
Arguments mkND {F} _ _ _ _.
Arguments mkModel {F} _ _ _.
