(* Correspondence runner for model/Mapping.v (C02, family "mapping"): the real to_data_mapping / unfold_mapping /
   fold_mapping / allocate_returned_states / Model.run are compared with the model at F := Q.  Keys (and their
   order), nesting form (bare array / list / dict / dict of lists / exception), numbers and lengths of sequences are
   compared exactly; values with the usual tolerance (mclose). *)
From Coq Require Import List Arith Bool QArith.
From RV Require Import base.Num base.LA model.ModelSem model.Kinds model.Mapping run.RunModel.
Import ListNotations.
Close Scope Q_scope.

Notation qsq := (list qv).            (* one sequence: rows of rationals *)

Fixpoint list_eqb {A} (f : A -> A -> bool) (a b : list A) : bool :=
  match a, b with
  | [], [] => true
  | x :: a', y :: b' => f x y && list_eqb f a' b'
  | _, _ => false
  end.
Definition dict_eqb {A} (f : A -> A -> bool) (a b : dict A) : bool :=
  list_eqb (fun p q => Nat.eqb (fst p) (fst q) && f (snd p) (snd q)) a b.
Definition opt_eqb {A} (f : A -> A -> bool) (a b : option A) : bool :=
  match a, b with
  | None, None => true
  | Some x, Some y => f x y
  | _, _ => false
  end.

(* to_data_mapping(model, X, Y): observed = None when it raised, else (X_sequences, Y_sequences) *)
Definition chk_to_data_mapping (mm : mmodel) (X : data qv) (Y : option (data qv))
           (obs : option (list (dict qsq) * list (option (dict qsq)))) : bool :=
  opt_eqb (fun a b => list_eqb (dict_eqb mclose) (fst a) (fst b)
                      && list_eqb (opt_eqb (dict_eqb mclose)) (snd a) (snd b))
          (to_data_mapping mm X Y) obs.

(* build_mapping(nodes, data, io_type) on its own (nodes: any list of nodes of the model) *)
Definition chk_build_mapping (nodes : list mnode) (d : data qv) (target : bool) (obs : dict (list qsq)) : bool :=
  dict_eqb (list_eqb mclose) (build_mapping nodes d (if target then IoTarget else IoInput)) obs.

Definition chk_unfold (dm : dict (list qsq)) (obs : option (list (dict qsq))) : bool :=
  opt_eqb (list_eqb (dict_eqb mclose)) (unfold_mapping dm) obs.

Definition result_eqb (a b : result qsq) : bool :=
  match a, b with
  | RBare x, RBare y => mclose x y
  | RBareList x, RBareList y => list_eqb mclose x y
  | RDict x, RDict y => dict_eqb mclose x y
  | RDictList x, RDictList y => dict_eqb (list_eqb mclose) x y
  | RErr, RErr => true
  | _, _ => false
  end.

Definition chk_fold (mm : mmodel) (states : list (dict qsq)) (rs : rstates) (obs : result qsq) : bool :=
  result_eqb (fold_mapping mm states rs) obs.

Definition chk_alloc (mm : mmodel) (rs : rstates) (obs : option (list nat)) : bool :=
  opt_eqb (list_eqb Nat.eqb) (allocate_returned_states mm rs) obs.

(* Model.run(X, from_state, stateful, reset, return_states) on a scenario model: returned object and the states of
   all nodes afterwards *)
Definition chk_model_run (nodes : list snode) (sm : smodel) (mm : mmodel) (stateful reset : bool)
           (from : list (nat * qv)) (X : data qv) (rs : rstates)
           (ook : bool) (ores : result qsq) (ostates : list (nat * qv)) : bool :=
  let '(e1, res, ok) := model_run mm (to_model nodes sm) stateful reset (assoc from) X rs (init_env nodes) in
  is_topo (assoc_list (mparents sm)) [] (morder sm)
  && Bool.eqb ok ook && (if ok then result_eqb res ores else true) && states_ok e1 ostates.

(* two runs in a row on the same objects (the second starts from what the first left) *)
Definition chk_model_run2 (nodes : list snode) (sm : smodel) (mm : mmodel)
           (st1 rst1 : bool) (X1 : data qv) (rs1 : rstates) (ores1 : result qsq)
           (st2 rst2 : bool) (X2 : data qv) (rs2 : rstates) (ores2 : result qsq) (ostates : list (nat * qv)) : bool :=
  let m := to_model nodes sm in
  let '(e1, res1, ok1) := model_run mm m st1 rst1 (fun _ => None) X1 rs1 (init_env nodes) in
  let '(e2, res2, ok2) := model_run mm m st2 rst2 (fun _ => None) X2 rs2 e1 in
  is_topo (assoc_list (mparents sm)) [] (morder sm)
  && ok1 && ok2 && result_eqb res1 ores1 && result_eqb res2 ores2 && states_ok e2 ostates.
