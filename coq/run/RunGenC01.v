(* C01 / C15: the GENERATED kernels (coq/gen/Gen_reservoir.v, translated from the current source on this run) executed at
   F := Q on the same scenarios as run/RunC01.v and compared with what reservoirpy returned -- the dynamic validation of the
   translator (tools/vlib/py2coq_la.py): kind inference, orientation handling and the numpy-to-LA mapping.
   Kept apart from RunC01.v so that a rejected translation does not take the hand-model correspondence down with it. *)
From Coq Require Import List Arith Bool QArith Qabs.
From RV Require Import base.Num base.LA base.GenPrelude gen.Gen_reservoir model.Reservoir run.RunC01.
Import ListNotations.
Close Scope Q_scope.

Definition gen_step (e : equation) (c : rcfg Q) (st : rstate Q) (x : rin Q) : rstate Q :=
  let '(s, r) := st in
  let hf := match rWfb c with Some _ => true | None => false end in
  let Wfb := match rWfb c with Some w => w | None => [] end in
  match e, rlr c with
  | Internal, LrS a =>
      (s, GenReservoir_LrS.forward_internal (rW c) (rWin c) (rbias c) hf Wfb a (ract c) (rfbact c) (g_in c) (g_fb c) (g_rc c)
                                            r (i_fb x) (xi_in x) (xi_fb x) (xi_rc x) (i_u x))
  | Internal, LrV v =>
      (s, GenReservoir_LrV.forward_internal (rW c) (rWin c) (rbias c) hf Wfb v (ract c) (rfbact c) (g_in c) (g_fb c) (g_rc c)
                                            r (i_fb x) (xi_in x) (xi_fb x) (xi_rc x) (i_u x))
  | External, LrS a =>
      let '(r', s') := GenReservoir_LrS.forward_external (rW c) (rWin c) (rbias c) hf Wfb a (ract c) (rfbact c) (g_in c) (g_fb c)
                                            (g_rc c) r (i_fb x) s (xi_in x) (xi_fb x) (xi_rc x) (i_u x) in (s', r')
  | External, LrV v =>
      let '(r', s') := GenReservoir_LrV.forward_external (rW c) (rWin c) (rbias c) hf Wfb v (ract c) (rfbact c) (g_in c) (g_fb c)
                                            (g_rc c) r (i_fb x) s (xi_in x) (xi_fb x) (xi_rc x) (i_u x) in (s', r')
  end.
Fixpoint gen_run_states (e : equation) (c : rcfg Q) (st : rstate Q) (xs : list (rin Q)) : list (rstate Q) :=
  match xs with
  | [] => []
  | x :: xs' => let st' := gen_step e c st x in st' :: gen_run_states e c st' xs'
  end.

(* same arguments as chk_res: every returned row and the final (internal_state, state) of the real node against the generated code *)
Definition chk_gen_res (e : equation) (W : list (list Q)) (input_bias : bool) (Win_arg : list (list Q)) (bias_arg : list Q)
    (in_dim : nat) (Wfb : option (list (list Q))) (lr : leak Q) (act fbact : actc)
    (s0 r0 : list Q) (us fbs : list (list Q))
    (outs : list (list Q)) (sfin rfin : list Q) (obsWin : list (list Q)) (obsbias : list Q) : bool :=
  let c := mkcfg W obsWin obsbias Wfb lr act fbact in
  let xs := map mkin (combine us fbs) in
  let sts := gen_run_states e c (s0, r0) xs in
  let fin := last sts (s0, r0) in
  mclose (map snd sts) outs && vclose (fst fin) sfin && vclose (snd fin) rfin.
