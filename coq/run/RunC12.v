(* C12 correspondence runner: the shape/validation model is executed on the same history of operations as the real node
   and compared, inside Coq, with what was observed (exception class and phase, output shape, node dimensions, state
   shape, "nothing changed" flag).  No numbers are involved: everything is nat / bool. *)
From Coq Require Import List Arith Bool.
From RV Require Import model.Shapes.
Import ListNotations.

(* what the harness observed for one operation.
   o_phase: 0 = rejected for lack of a learning rule, 1 = exception raised inside check_xy, 2 = exception raised later,
            3 = no exception.  o_out: shape of the returned array (None when the node itself is returned).
   o_same: dims, initialised flag, registered-teacher flag, state() bytes and the fingerprint of every param are identical
   before and after. *)
Record obs := mkObs {
  o_exc : option exn; o_phase : nat; o_out : option (list nat);
  o_init : bool; o_ind : option (list nat); o_outd : option nat; o_state : option (list nat); o_same : bool;
  o_teacher : bool   (* node._teacher is not None *) }.

Definition olist_eqb (a b : option (list nat)) : bool :=
  match a, b with Some x, Some y => lnat_eqb x y | None, None => true | _, _ => false end.
Definition onat_eqb (a b : option nat) : bool :=
  match a, b with Some x, Some y => x =? y | None, None => true | _, _ => false end.

Definition node_matches (n : node) (o : obs) : bool :=
  Bool.eqb (initialized n) (o_init o) && olist_eqb (input_dim n) (o_ind o) && onat_eqb (output_dim n) (o_outd o)
  && olist_eqb (state_shape n) (o_state o)
  && Bool.eqb (match teacher n with Some _ => true | None => false end) (o_teacher o).

(* the model says nothing was touched  =>  the observation must say so too *)
Definition same_ok (n n' : node) (o : obs) : bool :=
  if (params_version n =? params_version n') && (state_version n =? state_version n')
     && Bool.eqb (match teacher n with Some _ => true | None => false end) (match teacher n' with Some _ => true | None => false end)
  then o_same o else true.

Definition phase_code (p : phase) : nat := match p with PSupport => 0 | PCheck => 1 | _ => 2 end.

Definition chk_step (n : node) (op : op) (o : obs) : bool * option node :=
  match step n op with
  | Ok n' out =>
      ((match o_exc o with None => true | Some _ => false end)
       && olist_eqb (option_map (fun p => [fst p; snd p]) out) (o_out o)
       && node_matches n' o && same_ok n n' o, Some n')
  | Err p e n' =>
      ((match o_exc o with Some e' => exn_eqb e e' | None => false end)
       && (phase_code p =? o_phase o) && node_matches n' o && same_ok n n' o, Some n')
  | Irregular => (2 <=? o_phase o, None)      (* accepted by the validation: not rejected in phases 0/1 *)
  end.

Fixpoint chk_hist (n : node) (l : list (op * obs)) : bool :=
  match l with
  | [] => true
  | (op, o) :: r =>
      let '(b, n') := chk_step n op o in
      b && match n' with Some n1 => chk_hist n1 r | None => true end
  end.

(* number of operations of the history on which the model made a full prediction (for the distribution report) *)
Fixpoint predicted (n : node) (l : list op) : nat :=
  match l with
  | [] => 0
  | op :: r => match after n (step n op) with Some n1 => S (predicted n1 r) | None => 0 end
  end.

(* ops._link_1to1 between two nodes: observed = a ValueError was raised *)
Definition chk_link (a b : node) (raised : bool) : bool :=
  match link_1to1 a b with ROk _ => negb raised | RErr _ => raised end.

(* debugging aids: index of the first disagreeing operation and the model's outcome there *)
Fixpoint first_bad (n : node) (l : list (op * obs)) (i : nat) : option (nat * result) :=
  match l with
  | [] => None
  | (op, o) :: r =>
      let '(b, n') := chk_step n op o in
      if b then match n' with Some n1 => first_bad n1 r (S i) | None => None end
      else Some (i, step n op)
  end.

(* link between operands that are nodes, never-run Models or lists: observed = a ValueError was raised at link time *)
Definition chk_links (senders receivers : list node) (raised : bool) : bool :=
  match link_check senders receivers with ROk _ => negb raised | RErr _ => raised end.

(* Model.fit on a model whose node kinds are ks (all fresh): observed = (a TypeError was raised, every node untouched and
   uninitialised).  The model only predicts the refusal; an accepted fit is not compared here. *)
Definition chk_model_fit (ks : list kind) (typeerror untouched : bool) : bool :=
  match model_fit_guard (map (fun k => fresh k None None) ks) with
  | Some _ => typeerror && untouched
  | None => true
  end.
