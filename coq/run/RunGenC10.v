(* C10: the GENERATED readout kernels (coq/gen/Gen_online.v, translated from the current source on this run) executed at F := Q
   inside the same train loop and on the same scenarios as run/RunC10.v, against what reservoirpy returned.  Kept apart from
   RunC10.v so that a rejected translation does not take the hand-model correspondence down with it. *)
From Coq Require Import List Arith Bool QArith.
From RV Require Import base.Num base.LA base.GenPrelude gen.Gen_online model.Online run.RunC10.
Import ListNotations.
Close Scope Q_scope.

Definition gen_fwd (s : rdo (F:=Q)) (x : qv) : qv := GenOnline.readout_forward (Wout s) (bias s) x.
Definition gen_rls_upd (hb : bool) (s : rdo (F:=Q)) (x y pred : qv) : rdo (F:=Q) :=
  let '(W, b, P) := GenOnline.rls_train (Wout s) (bias s) hb pred (Pm s) x y in
  {| Wout := W; bias := b; Pm := P; cursor := cursor s |}.
Definition gen_lms_upd (sc : list Q * Q) (hb : bool) (s : rdo (F:=Q)) (x y pred : qv) : rdo (F:=Q) :=
  let '(W, b) := GenOnline.lms_train (Wout s) (bias s) hb pred (sched_at sc (cursor s)) x y in
  {| Wout := W; bias := b; Pm := Pm s; cursor := S (cursor s) |}.

Definition chk_gen_rls (has_bias : bool) (idim odim : nat) (alpha : Q) (k : nat)
           (calls : list (bool * list (qv * qv))) (os : list obs) : bool :=
  chk_calls gen_fwd (gen_rls_upd has_bias) k (rls_init has_bias idim odim alpha) calls os.
Definition chk_gen_lms (sc : list Q * Q) (has_bias : bool) (idim odim : nat) (k : nat)
           (calls : list (bool * list (qv * qv))) (os : list obs) : bool :=
  chk_calls gen_fwd (gen_lms_upd sc has_bias) k (lms_init idim odim) calls os.

(* ---- intrinsic plasticity: the (a, b) update GENERATED from intrinsic_plasticity.py (coq/gen/Gen_ip.v) on the same recorded traces ---- *)
From RV Require Import gen.Gen_ip.
Fixpoint chk_gen_ip_trace (c : ipcfg (F:=Q)) (st : ipst (F:=Q)) (recs : list iprec) : bool :=
  match recs with
  | [] => true
  | (learn, u, x, y, a, b) :: rest =>
      let pre := res_pre c st u in
      let '(a1, b1) := if learn then GenIP.ip (ia st) (ib st) (cmu c) (csigma c) (ceta c) (ctanh c) pre y else (ia st, ib st) in
      vclose pre x && vclose a1 a && vclose b1 b &&
      chk_gen_ip_trace c {| ia := a; ib := b; iout := y; iint := x |} rest
  end.
Definition chk_gen_ip (W Win : qm) (bias : qv) (lr : Q) (tanh_rule : bool) (mu sigma eta : Q)
           (epochs warmup : nat) (seqs : list (list qv)) (recs : list iprec) (a_fin b_fin : qv) : bool :=
  let c := {| cW := W; cWin := Win; cbias := bias; clr := lr; ctanh := tanh_rule; cmu := mu; csigma := sigma; ceta := eta |} in
  chk_gen_ip_trace c (ip_init (length W)) recs.
