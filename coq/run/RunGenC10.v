(* C10: the GENERATED readout kernels (coq/gen/Gen_online.v, translated from the current source on this run) executed at F := Q
   inside the same train loop and on the same scenarios as run/RunC10.v, against what reservoirpy returned.  Kept apart from
   RunC10.v so that a rejected translation does not take the hand-model correspondence down with it. *)
From Coq Require Import List Arith Bool QArith.
From RV Require Import base.Num base.LA base.GenPrelude gen.Gen_online model.Online run.RunC10.
Import ListNotations.
Close Scope Q_scope.

Definition gen_fwd (s : rdo (F:=Q)) (x : qv) : qv := GenOnline.readout_forward (Wout s) (bias s) x.
Definition gen_rls_upd (hb : bool) (s : rdo (F:=Q)) (x y pred : qv) : rdo (F:=Q) :=
  let '(W, b, P) := GenOnline.rls_train (Wout s) (bias s) hb pred (Pm s) x y in
  {| Wout := W; bias := b; Pm := P; cursor := cursor s |}.
Definition gen_lms_upd (sc : list Q * Q) (hb : bool) (s : rdo (F:=Q)) (x y pred : qv) : rdo (F:=Q) :=
  let '(W, b) := GenOnline.lms_train (Wout s) (bias s) hb pred (sched_at sc (cursor s)) x y in
  {| Wout := W; bias := b; Pm := Pm s; cursor := S (cursor s) |}.

Definition chk_gen_rls (has_bias : bool) (idim odim : nat) (alpha : Q) (k : nat)
           (calls : list (bool * list (qv * qv))) (os : list obs) : bool :=
  chk_calls gen_fwd (gen_rls_upd has_bias) k (rls_init has_bias idim odim alpha) calls os.
Definition chk_gen_lms (sc : list Q * Q) (has_bias : bool) (idim odim : nat) (k : nat)
           (calls : list (bool * list (qv * qv))) (os : list obs) : bool :=
  chk_calls gen_fwd (gen_lms_upd sc has_bias) k (lms_init idim odim) calls os.
