(* C11 correspondence runner: model/TrainSem.v with the Q kernels of model/TrainSemQ.v (cfg HEAD) is run on a history of
   operations and compared, after every operation and for every node, with what the real objects showed. *)
From Coq Require Import List Arith Bool QArith.
From RV Require Import base.Num base.LA model.Online model.TrainSem model.TrainSemQ.
Import ListNotations.
Close Scope Q_scope.

(* what the harness records for one node after one operation *)
Record nobs := mkObs {
  ob_fixed_changed : bool;      (* sha256 of some fixed array / hyper differs from before the operation *)
  ob_learned_changed : bool;    (* sha256 of some learned parameter differs from before the operation *)
  ob_nbuf : nat;                (* len(node._buffers) *)
  ob_alias : bool;              (* node._X is node._Y *)
  ob_lx : nat; ob_ly : nat;     (* len(node._X), len(node._Y) *)
  ob_fitted : bool;             (* node.fitted *)
  ob_trainable : bool;          (* node.is_trainable *)
  ob_W : option (qm * qv)       (* Wout and bias (one row) when they are numeric and initialised *)
}.

Definition outcome_code (o : outcome) : nat :=
  match o with Done => 0 | Rejected => 1 | FailedPartial => 2 | FailedBackward => 3 end.
Definition is_none {T} (o : option T) : bool := match o with None => true | Some _ => false end.

Definition chk_node (tgt : bool) (n' : nodeQ) (o : nobs) : bool :=
  negb (ob_fixed_changed o)
  && implb (ob_learned_changed o) tgt
  && Bool.eqb (ob_nbuf o =? 0) (is_none (n_buffers n'))
  && Bool.eqb (ob_alias o) (n_aliased n')
  && (ob_lx o =? length (n_X n')) && (ob_ly o =? length (n_Y n'))
  && Bool.eqb (ob_fitted o) (n_fitted n') && Bool.eqb (ob_trainable o) (n_trainable n')
  && match ob_W o with
     | Some (W, b) => mclose (Wout (n_learned n')) W && vclose (bias (n_learned n')) b
     | None => true
     end.

Fixpoint chk_nodes (st : list nodeQ) (o : opQ) (i : nat) (st' : list nodeQ) (obs : list nobs) : bool :=
  match st', obs with
  | [], [] => true
  | n' :: r, ob :: robs => chk_node (targets st o i) n' ob && chk_nodes st o (S i) r robs
  | _, _ => false
  end.

(* history: (operation, (observed outcome code, observations of every node in store order)) *)
Fixpoint chk_hist (st : list nodeQ) (h : list (opQ * (nat * list nobs))) : bool :=
  match h with
  | [] => true
  | (o, (code, obs)) :: r =>
      let '(st', oc) := stepQ HEAD st o in
      (outcome_code oc =? code) && chk_nodes st o 0 st' obs && chk_hist st' r
  end.

(* node constructors used by the harness *)
Definition mk_hyp (b : bool) (lam : Q) (din dout : nat) (rls : bool) (alpha : Q) : hyp := mkHyp b lam din dout rls alpha.
Definition nd_plain (din dout : nat) : nodeQ := freshQ KPlain (mkHyp false 0 din dout false 0).
Definition nd_ridge (b : bool) (lam : Q) (din dout : nat) : nodeQ := freshQ KBuf (mkHyp b lam din dout false 0).
Definition nd_def (din dout : nat) : nodeQ := freshQ KDef (mkHyp false 0 din dout false 0).
Definition nd_rls (b : bool) (alpha : Q) (din dout : nat) : nodeQ := freshQ KOnline (mkHyp b 0 din dout true alpha).
Definition nd_lms (b : bool) (alpha : Q) (din dout : nat) : nodeQ := freshQ KOnline (mkHyp b 0 din dout false alpha).
