(* C19, tie (T) exercised dynamically: the definitions GENERATED from the current source of reservoirpy/observables.py
   (coq/gen/Gen_metrics.v) executed at F := Q on the correspondence scenarios, against what the real functions returned.
   Separate from run/RunC19.v so that a rejected translation does not take the hand-model correspondence down.
   Python dispatches on len(shape) at run time; here the rank is the constructor of [arr].  When the two ranks differ only
   the generated _check_arrays applies (every metric starts with it): it must answer None. *)
From Coq Require Import List Arith Bool QArith.
From RV Require Import base.Num base.LA base.NDPrelude gen.Gen_metrics model.Metrics run.RunC19.
Import ListNotations.
Close Scope Q_scope.

Notation qv := (list Q).
Notation qm := (list (list Q)).
Notation qt := (list (list (list Q))).

Definition gshp (a : arr Q) : list nat := match a with A1 v => shape1 v | A2 m => shape2 m | A3 t => shape3 t end.
Definition gk (k : normk) : GenMetrics.norm_name :=
  match k with Minmax => GenMetrics.Nm_minmax | Var => GenMetrics.Nm_var | Mean => GenMetrics.Nm_mean | Q1Q3 => GenMetrics.Nm_q1q3 end.

Definition disp {T} (dw : bool) (y p : arr Q)
    (f1g f1d : qv -> qv -> option T) (f2g : qm -> qm -> option T) (f2d : qm -> qm -> option (list T))
    (f3g : qt -> qt -> option T) (f3d : qt -> qt -> option (list T)) : option (T + list T) :=
  match y, p with
  | A1 a, A1 b => option_map inl (if dw then f1d a b else f1g a b)
  | A2 a, A2 b => if dw then option_map inr (f2d a b) else option_map inl (f2g a b)
  | A3 a, A3 b => if dw then option_map inr (f3d a b) else option_map inl (f3g a b)
  | _, _ => match GenMetrics.check_arrays gshp gshp y p with None => None | Some _ => Some (inr []) end
  end.

Definition g_mse (dw : bool) (y p : arr Q) : option (Q + list Q) :=
  disp dw y p GenMetrics.mse_r1_g GenMetrics.mse_r1_dw GenMetrics.mse_r2_g GenMetrics.mse_r2_dw GenMetrics.mse_r3_g GenMetrics.mse_r3_dw.
Definition g_rmse_sq (dw : bool) (y p : arr Q) : option (Q + list Q) :=
  disp dw y p GenMetrics.rmse_sq_r1_g GenMetrics.rmse_sq_r1_dw GenMetrics.rmse_sq_r2_g GenMetrics.rmse_sq_r2_dw
       GenMetrics.rmse_sq_r3_g GenMetrics.rmse_sq_r3_dw.
Definition g_rsquare (dw : bool) (y p : arr Q) : option (Q + list Q) :=
  disp dw y p GenMetrics.rsquare_r1_g GenMetrics.rsquare_r1_dw GenMetrics.rsquare_r2_g GenMetrics.rsquare_r2_dw
       GenMetrics.rsquare_r3_g GenMetrics.rsquare_r3_dw.
Definition g_rsquare_parts (dw : bool) (y p : arr Q) : option ((Q * Q) + list (Q * Q)) :=
  disp dw y p GenMetrics.rsquare_parts_r1_g GenMetrics.rsquare_parts_r1_dw GenMetrics.rsquare_parts_r2_g GenMetrics.rsquare_parts_r2_dw
       GenMetrics.rsquare_parts_r3_g GenMetrics.rsquare_parts_r3_dw.
Definition g_nrmse_parts (dw : bool) (k : normk) (y p : arr Q) : option ((Q * Q) + list (Q * Q)) :=
  disp dw y p (fun a b => GenMetrics.nrmse_parts_r1_g a b (gk k)) (fun a b => GenMetrics.nrmse_parts_r1_dw a b (gk k))
       (fun a b => GenMetrics.nrmse_parts_r2_g a b (gk k)) (fun a b => GenMetrics.nrmse_parts_r2_dw a b (gk k))
       (fun a b => GenMetrics.nrmse_parts_r3_g a b (gk k)) (fun a b => GenMetrics.nrmse_parts_r3_dw a b (gk k)).
Definition g_nrmse_parts_nv (dw : bool) (nv : Q) (y p : arr Q) : option ((Q * Q) + list (Q * Q)) :=
  disp dw y p (fun a b => GenMetrics.nrmse_parts_nv_r1_g a b nv) (fun a b => GenMetrics.nrmse_parts_nv_r1_dw a b nv)
       (fun a b => GenMetrics.nrmse_parts_nv_r2_g a b nv) (fun a b => GenMetrics.nrmse_parts_nv_r2_dw a b nv)
       (fun a b => GenMetrics.nrmse_parts_nv_r3_g a b nv) (fun a b => GenMetrics.nrmse_parts_nv_r3_dw a b nv).

(* the same comparisons as run/RunC19.v *)
Definition chk_gen_mse (dw : bool) (y p : arr Q) (o : obs) : bool := cmp oclose (g_mse dw y p) o.
Definition chk_gen_rmse (dw : bool) (y p : arr Q) (o : obs) : bool :=
  cmp (fun m ox => match ox with Some x => Qle_bool 0 x && qclose m (Qred (x * x)) | None => false end) (g_rmse_sq dw y p) o.
Definition chk_gen_nrmse (dw : bool) (k : normk) (y p : arr Q) (o : obs) : bool := cmp nrmse_ok (g_nrmse_parts dw k y p) o.
Definition chk_gen_nrmse_nv (dw : bool) (nv : Q) (y p : arr Q) (o : obs) : bool := cmp nrmse_ok (g_nrmse_parts_nv dw nv y p) o.
Definition chk_gen_rsquare (dw : bool) (y p : arr Q) (o : obs) : bool :=
  cmp rsq_ok (g_rsquare_parts dw y p) o && cmp oclose_fin (g_rsquare dw y p) o.
Definition chk_gen_effmat (lr : Q) (W M : list (list Q)) : bool := mclose (GenMetrics.effective_matrix W lr) M.
