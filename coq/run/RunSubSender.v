(* Correspondence runner for model/SubSender.v (C05, family `subsender` of tools/props/c05.py): histories of Model.run /
   Model.call / stand-alone Node.call / stand-alone `with node.with_feedback(v): node(x) ...` on real reservoirpy nodes,
   with a receiver whose feedback sender is a SUB-MODEL, are executed on the model at F := Q.  After every operation the
   success flag, the per-step states of the model's nodes, the states of ALL nodes, their `_fb_flag` bits, the number of
   times each forward function was entered, and "all `_state_proxy` None and nothing clamped" are compared. *)
From Coq Require Import List Arith Bool QArith.
From RV Require Import base.Num base.LA model.ModelSem model.ProxySem model.Kinds model.SubSender run.RunModel.
Import ListNotations.
Close Scope Q_scope.

(* the sub-model sender of receiver [srecv], by node ids; [sredo]: the reduced sender's nodes in execution order *)
Record ssub := mkSSub { srecv : nat; sall : list nat; sinp : list nat; sout : list nat; sredo : list nat; sparents : list (nat * list nat) }.

(* a node whose forward raises during this operation (the harness switches the real node's forward to `raise`) *)
Definition raising (d : ndesc (F:=Q)) : ndesc (F:=Q) := mkND (nid d) (fun _ _ _ _ => None) (nfb d) (odim d).
Definition ndesc_of (nodes : list snode) (fail : list nat) (i : nat) : list (ndesc (F:=Q)) :=
  match find (fun s => Nat.eqb (sid s) i) nodes with
  | Some s => [if memb i fail then raising (to_ndesc s) else to_ndesc s]
  | None => []
  end.
Definition model_of (nodes : list snode) (fail : list nat) (m : smodel) : model (F:=Q) :=
  mkModel (flat_map (ndesc_of nodes fail) (morder m)) (assoc_list (mparents m)) (mouts m).
Definition sub_of (nodes : list snode) (fail : list nat) (s : ssub) : subm (F:=Q) :=
  mkSub (sall s) (sinp s) (sout s) (flat_map (ndesc_of nodes fail) (sredo s)) (assoc_list (sparents s)).
Definition subs_of (nodes : list snode) (fail : list nat) (subs : list ssub) : nat -> option (subm (F:=Q)) :=
  fun n => match find (fun s => Nat.eqb (srecv s) n) subs with Some s => Some (sub_of nodes fail s) | None => None end.

Inductive sop :=
| SRun (mi : nat) (X : list (list (nat * qv))) (shift_fb : bool) (FB : list (nat * list qv)) (fail : list nat)   (* Model.run, one sequence *)
| SCallM (mi : nat) (x : list (nat * qv)) (fb : list (nat * qv)) (fail : list nat)                               (* Model.call *)
| SCallN (n : nat) (x : qv) (fail : list nat)                                                                    (* Node.call, stand-alone *)
| SWithFb (n : nat) (v : qv) (xs : list qv).                            (* with node.with_feedback(v): node(x) for x in xs, stand-alone *)

Record sobs := mkSObs { so_ok : bool; so_outs : list (list qv); so_states : list (nat * qv); so_flags : list (nat * bool);
                        so_calls : list (nat * nat); so_rest : bool }.

Fixpoint calls_from (sm : nat -> option (subm (F:=Q))) (d : ndesc (F:=Q)) (xs : list qv) (s : sstate (F:=Q)) : sstate (F:=Q) * bool :=
  match xs with
  | [] => (s, true)
  | x :: rest => let '(s1, ok) := node_call sm d x s in if ok then calls_from sm d rest s1 else (s1, false)
  end.

Definition srun_one (nodes : list snode) (models : list smodel) (subs : list ssub) (o : sop) (s : sstate (F:=Q))
  : sstate (F:=Q) * list (list qv) * bool :=
  match o with
  | SRun mi X shift FB fail =>
      match nth_error models mi with
      | Some sm =>
          let fbs := fb_steps shift FB (length X) in
          let steps := map (fun p => (assoc (fst p), assoc (snd p))) (combine X (fbs ++ repeat [] (length X))) in
          run_s (model_of nodes fail sm) (subs_of nodes fail subs) steps s
      | None => (s, [], false)
      end
  | SCallM mi x fb fail =>
      match nth_error models mi with
      | Some sm => call_s (model_of nodes fail sm) (subs_of nodes fail subs) (assoc fb) (assoc x) s
      | None => (s, [], false)
      end
  | SCallN n x fail =>
      match ndesc_of nodes fail n with
      | d :: _ => let '(s1, ok) := node_call (subs_of nodes fail subs) d x s in (s1, [], ok)
      | [] => (s, [], false)
      end
  | SWithFb n v xs =>
      match ndesc_of nodes [] n with
      | d :: _ =>
          let saved := proxy (le s n) in
          let '(s1, ok) := calls_from (subs_of nodes [] subs) d xs
                             (on_le (fun e => fb_enter (fun k => if Nat.eqb k n then Some v else None) e d) s) in
          (on_le (fun e => fb_exit false saved e d) s1, [], ok)
      | [] => (s, [], false)
      end
  end.

Definition init_sstate (nodes : list snode) : sstate (F:=Q) := fresh (init_env_ll nodes).

Definition chk_sop (nodes : list snode) (models : list smodel) (subs : list ssub) (o : sop) (ob : sobs) (s : sstate (F:=Q))
  : sstate (F:=Q) * bool :=
  let '(s1, outs, ok) := srun_one nodes models subs o s in
  (s1, Bool.eqb ok (so_ok ob) && (if ok then mmclose outs (so_outs ob) else true) && states_ok_ll (le s1) (so_states ob)
       && forallb (fun p => Bool.eqb (fl s1 (fst p)) (snd p)) (so_flags ob)
       && forallb (fun p => Nat.eqb (cn s1 (fst p)) (snd p)) (so_calls ob)
       && Bool.eqb (so_rest ob) (at_restb nodes (le s1))).

Fixpoint chk_sops (nodes : list snode) (models : list smodel) (subs : list ssub) (l : list (sop * sobs)) (s : sstate (F:=Q)) : bool :=
  match l with
  | [] => true
  | (o, ob) :: rest => let '(s1, b) := chk_sop nodes models subs o ob s in b && chk_sops nodes models subs rest s1
  end.

Definition chk_subsender (nodes : list snode) (models : list smodel) (subs : list ssub) (l : list (sop * sobs)) : bool :=
  topo_ok models && chk_sops nodes models subs l (init_sstate nodes).

(* debugging aid: what the model predicts after each operation *)
Fixpoint dbg_sops (nodes : list snode) (models : list smodel) (subs : list ssub) (l : list sop) (s : sstate (F:=Q))
  : list (bool * list (list qv) * list (nat * qv) * list bool * list nat * bool) :=
  match l with
  | [] => []
  | o :: rest => let '(s1, outs, ok) := srun_one nodes models subs o s in
                 (ok, outs, map (fun n => (sid n, lst (le s1 (sid n)))) nodes, map (fun n => fl s1 (sid n)) nodes,
                  map (fun n => cn s1 (sid n)) nodes, at_restb nodes (le s1)) :: dbg_sops nodes models subs rest s1
  end.
