(* C20 correspondence runner: the model is executed at F := Q and compared with what reservoirpy returned. *)
From Coq Require Import List Arith Bool ZArith QArith.
From Coq Require String.
From RV Require Import base.Num base.LA model.Datasets.
Import ListNotations.
Close Scope Q_scope.

Fixpoint tclose (m o : list (list (list Q))) : bool :=
  match m, o with
  | [], [] => true
  | a :: m', b :: o' => mclose a b && tclose m' o'
  | _, _ => false
  end.
Definition oclose {T} (cl : T -> T -> bool) (m : option T) (o : T) : bool :=
  match m with Some v => cl v o | None => false end.

Fixpoint list_eqb {T} (eqb : T -> T -> bool) (a b : list T) : bool :=
  match a, b with
  | [], [] => true
  | x :: a', y :: b' => eqb x y && list_eqb eqb a' b'
  | _, _ => false
  end.

(* to_forecasting on a 1-D series: obs = the returned arrays, in order *)
Definition chk_fc1 (forecast : nat) (ts : test_size) (series : list Q) (obs : list (list Q)) : bool :=
  oclose mclose (to_forecasting_rows forecast ts series) obs.
(* 2-D series, time axis 0 or 1 *)
Definition chk_fc2 (axis forecast : nat) (ts : test_size) (series : list (list Q)) (obs : list (list (list Q))) : bool :=
  oclose tclose (to_forecasting_2d (F:=Q) axis forecast ts series) obs.
(* an invalid test_size is rejected (ValueError observed) *)
Definition chk_fc_rejects (time_len : nat) (ts : test_size) : bool :=
  match test_len_of time_len ts with None => true | Some _ => false end.

(* one_hot_encode, integer labels / string labels; single sequence and list of sequences *)
Definition chk_onehot_z (labels : list Z) (enc : list (list Q)) (cls : list Z) : bool :=
  let '(e, c) := one_hot (F:=Q) Z.leb labels in mclose e enc && list_eqb Z.eqb c cls.
Definition chk_onehot_s (labels : list String.string) (enc : list (list Q)) (cls : list String.string) : bool :=
  let '(e, c) := one_hot (F:=Q) String.leb labels in mclose e enc && list_eqb String.eqb c cls.
Definition chk_onehot_multi_z (seqs : list (list Z)) (enc : list (list (list Q))) (cls : list Z) : bool :=
  let '(e, c) := one_hot_multi (F:=Q) Z.leb seqs in tclose e enc && list_eqb Z.eqb c cls.
Definition chk_onehot_multi_s (seqs : list (list String.string)) (enc : list (list (list Q))) (cls : list String.string) : bool :=
  let '(e, c) := one_hot_multi (F:=Q) String.leb seqs in tclose e enc && list_eqb String.eqb c cls.

(* (n,1) column of labels -> (n,k);  (n,m) grid of labels -> (n,m,k) *)
Definition chk_onehot_col_z (rows : list (list Z)) (enc : list (list Q)) (cls : list Z) : bool :=
  match one_hot_2d (F:=Q) Z.leb rows with (inl e, c) => mclose e enc && list_eqb Z.eqb c cls | _ => false end.
Definition chk_onehot_col_s (rows : list (list String.string)) (enc : list (list Q)) (cls : list String.string) : bool :=
  match one_hot_2d (F:=Q) String.leb rows with (inl e, c) => mclose e enc && list_eqb String.eqb c cls | _ => false end.
Definition chk_onehot_grid_z (rows : list (list Z)) (enc : list (list (list Q))) (cls : list Z) : bool :=
  match one_hot_2d (F:=Q) Z.leb rows with (inr e, c) => tclose e enc && list_eqb Z.eqb c cls | _ => false end.
Definition chk_onehot_grid_s (rows : list (list String.string)) (enc : list (list (list Q))) (cls : list String.string) : bool :=
  match one_hot_2d (F:=Q) String.leb rows with (inr e, c) => tclose e enc && list_eqb String.eqb c cls | _ => false end.

(* map generators *)
Definition chk_logistic (n : nat) (r x0 : Q) (obs : list (list Q)) : bool :=
  oclose mclose (logistic_map (F:=Q) n r x0) obs.
Definition chk_logistic_rejects (n : nat) (r x0 : Q) : bool :=
  match logistic_map (F:=Q) n r x0 with None => true | Some _ => false end.
Definition chk_henon (n : nat) (a b x0 y0 : Q) (obs : list (list Q)) : bool :=
  oclose mclose (henon_map (F:=Q) n a b x0 y0) obs.
Definition chk_narma (n order : nat) (a1 a2 b c : Q) (x0 u : list Q) (obs : list (list Q)) : bool :=
  mclose (narma (F:=Q) n order a1 a2 b c x0 u) obs.
