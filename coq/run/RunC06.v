(* C06 correspondence runner: model/FitSem.v instantiated at Q (forward nodes from model/Kinds.v, ridge readouts from
   model/Ridge.v with Gauss-Jordan in place of LAPACK, online readouts from model/Online.v) and compared with what
   reservoirpy's Model.fit / Model.train produced. *)
From Coq Require Import List Arith Bool QArith.
From RV Require Import base.Num base.LA model.Windows model.ModelSem model.Kinds model.Ridge model.Online model.FitSem model.FitFb.
Import ListNotations.
Close Scope Q_scope.

Notation qv := (list Q).
Notation qm := (list (list Q)).
Notation qd := (list (list (list Q))).          (* a dataset: sequences x timesteps x features *)

Definition qsolve_tot (A B : qm) : qm := match qsolve A B with Some X => X | None => [] end.

(* ---------------------------------------------------------------------------------------------- offline fit *)
Inductive nkind :=
| NFwd (k : kind (F:=Q)) (odim : nat)              (* a forward node: Reservoir / Input / Concat / custom function *)
| NFwdFb (k : kind (F:=Q)) (odim fbdim : nat)      (* a reservoir with a feedback connection from an UNFITTED offline readout,
                                                      trained with force_teachers=False: what it receives at every step is the
                                                      sender's own state, zeros((1, fbdim)) *)
| NRidge (bias : bool) (lam : Q) (dout : nat).     (* Ridge(ridge=lam, input_bias=bias) *)

(* np.hstack per timestep of several datasets *)
Definition hcat2 (a b : qd) : qd :=
  map (fun p => map (fun r => fst r ++ snd r) (combine (fst p) (snd p))) (combine a b).
Definition hcats (l : list qd) : qd := match l with [] => [] | d :: r => fold_left hcat2 r d end.

(* Node.run row by row from state s *)
Fixpoint run_seq (k : kind (F:=Q)) (fb : option qv) (s : qv) (h : hidden) (rows : qm) : qm * (qv * hidden) :=
  match rows with
  | [] => ([], (s, h))
  | x :: r => match kfwd k s h x fb with
              | Some (s', h') => let '(o, f) := run_seq k fb s' h' r in (s' :: o, f)
              | None => ([], (s, h))
              end
  end.
(* one node over the sequences of the dataset, in order: the state is carried from one sequence to the next
   (Model.fit default stateful=True, reset=False) or zeroed at the start of each (reset=True) *)
Fixpoint run_data (k : kind (F:=Q)) (fb : option qv) (reset : bool) (z : qv) (sh : qv * hidden) (seqs : qd) : qd :=
  match seqs with
  | [] => []
  | sq :: r => let '(o, f) := run_seq k fb (if reset then z else fst sh) (snd sh) sq in o :: run_data k fb reset z f r
  end.

Section Alg.
Variable nodes : list (nat * nkind).
Variable w : nat.
Variable reset : bool.
(* states held by the nodes when fit() is called (zero for a fresh model; after an earlier run / fit: whatever they
   were left at).  Model.fit with default flags starts the first sequence from them; reset=True ignores them. *)
Variable init : list (nat * qv).
Definition kind_of (v : nat) : nkind := match lookup nodes v with Some k => k | None => NFwd KId 0 end.
Definition din_of (d : qd) : nat := length (hd [] (hd [] d)).

Definition q_run (v : nat) (ins : list qd) : qd :=
  match kind_of v with
  | NFwd k od => run_data k None reset (vzeros od) (match lookup init v with Some s => s | None => vzeros od end, []) (hcats ins)
  | NFwdFb k od fd => run_data k (Some (vzeros fd)) reset (vzeros od)
                               (match lookup init v with Some s => s | None => vzeros od end, []) (hcats ins)
  | NRidge _ _ _ => []
  end.
Definition q_fit (v : nat) (ins : list qd) (y : qd) : option (qm * qv) :=
  match kind_of v with
  | NRidge b lam dout => let X := hcats ins in Ridge.fit qsolve_tot b lam w (din_of X) dout X y
  | _ => None
  end.
Definition q_pred (v : nat) (p : option (qm * qv)) (ins : list qd) : qd :=
  match kind_of v, p with
  | NRidge _ _ dout, Some (W, b) => map (Ridge.run dout W b) (hcats ins)
  | _, _ => []
  end.
End Alg.

Definition pair_eqb (a b : nat * nat) : bool := (fst a =? fst b) && (snd a =? snd b).
Definition edges_sub (a b : list (nat * nat)) : bool := forallb (fun e => existsb (pair_eqb e) b) a.
Definition lnat_eqb (a b : list nat) : bool := (length a =? length b) && forallb (fun p => fst p =? snd p) (combine a b).
Definition rel_sub (a b : list (nat * list nat)) : bool :=
  forallb (fun r => match lookup b (fst r) with Some l => lnat_eqb (snd r) l | None => false end) a.
(* same stage, up to the order of the edge list and of the relations dict *)
Definition stage_eqb (s t : stage) : bool :=
  lnat_eqb (s_nodes s) (s_nodes t) && edges_sub (s_edges s) (s_edges t) && edges_sub (s_edges t) (s_edges s)
  && rel_sub (s_rel s) (s_rel t) && rel_sub (s_rel t) (s_rel s).
Fixpoint stages_eqb (a b : list stage) : bool :=
  match a, b with
  | [], [] => true
  | s :: a', t :: b' => stage_eqb s t && stages_eqb a' b'
  | _, _ => false
  end.

Definition param_close (p : option (option (qm * qv))) (W : qm) (b : qv) : bool :=
  match p with
  | Some (Some (Wm, bm)) => mclose Wm W && vclose bm b
  | _ => false
  end.

(* Model.fit(X, Y, warmup=w, reset=reset) on the real model:
   [obs_stg]  = what get_offline_subgraphs returned for the real model (ids for names),
   [obs]      = Wout / bias of every readout afterwards,
   [expect_valid] = whether the topology is one for which the staging is expected to be valid.
   1. the model's get_offline_subgraphs gives the observed staging;
   2. valid_stagingb on that staging is as expected;
   3. fit_with_staging (Model.fit as written) with that staging reproduces every readout;
   4. when valid: so does the explicit node-by-node procedure. *)
Definition chk_fit (nodes : list (nat * nkind)) (g : graph) (X0 Y0 : list (nat * qd)) (w : nat) (reset : bool)
           (init : list (nat * qv)) (obs_stg : list stage) (expect_valid : bool) (obs : list (nat * (qm * qv))) : bool :=
  match get_offline_subgraphs g with Some stg => stages_eqb stg obs_stg | None => false end
  && Bool.eqb (valid_stagingb g (map fst X0) (map fst Y0) obs_stg) expect_valid
  && match fit_with_staging qd (option (qm * qv)) (q_run nodes reset init) (q_fit nodes w) (q_pred nodes) g X0 Y0 obs_stg with
     | Some ps => forallb (fun o => param_close (lookup ps (fst o)) (fst (snd o)) (snd (snd o))) obs
     | None => false
     end
  && (negb expect_valid ||
      let ex := explicit_fit qd (option (qm * qv)) (q_run nodes reset init) (q_fit nodes w) (q_pred nodes) g X0 Y0 in
      forallb (fun o => param_close (lookup ex (fst o)) (fst (snd o)) (snd (snd o))) obs).

(* Model.fit raised on the real model: the model of Model.fit fails too (and the staging is not valid) *)
Definition chk_fit_raises (g : graph) (xkeys ykeys : list nat) (obs_stg : list stage) : bool :=
  match get_offline_subgraphs g with Some stg => stages_eqb stg obs_stg | None => false end
  && negb (valid_stagingb g xkeys ykeys obs_stg)
  && match fit_with_staging tm tm s_run s_fit s_pred g (sym_X xkeys) (sym_Y ykeys) obs_stg with
     | None => true
     | Some _ => false
     end.

(* ---------------------------------------------------------------------------------------------- online train *)
Inductive tkind :=
| TFwd (k : kind (F:=Q)) (odim : nat)
| TRls (bias : bool) (idim odim : nat) (alpha : Q)
| TLms (sc : list Q * Q) (bias : bool) (idim odim : nat).

Record qns := mkQNS { ns_st : qv; ns_rdo : rdo (F:=Q) }.
Definition rdo0 : rdo (F:=Q) := {| Wout := []; bias := []; Pm := []; cursor := 0 |}.

Section TAlg.
Variable tnodes : list (nat * tkind).
Definition tkind_of (v : nat) : tkind := match lookup tnodes v with Some k => k | None => TFwd KId 0 end.
Definition q_ncall (v : nat) (s : qns) (x : qv) : qns :=
  match tkind_of v with
  | TFwd k _ => match kfwd k (ns_st s) [] x None with Some (s', _) => mkQNS s' (ns_rdo s) | None => s end
  | TRls _ _ od _ => mkQNS (readout_forward od (ns_rdo s) x) (ns_rdo s)
  | TLms _ _ _ od => mkQNS (readout_forward od (ns_rdo s) x) (ns_rdo s)
  end.
Definition q_nlearn (v : nat) (s : qns) (x y : qv) : qns :=
  match tkind_of v with
  | TFwd _ _ => s
  | TRls b _ _ _ => mkQNS (ns_st s) (rls_update b (ns_rdo s) x y (ns_st s))
  | TLms sc b _ _ => mkQNS (ns_st s) (lms_update sc b (ns_rdo s) x y (ns_st s))
  end.
Definition q_env0 : nat -> qns :=
  fun v => match tkind_of v with
           | TFwd _ od => mkQNS (vzeros od) rdo0
           | TRls b idim od a => mkQNS (vzeros od) (rls_init b idim od a)
           | TLms _ _ idim od => mkQNS (vzeros od) (lms_init idim od)
           end.
End TAlg.

Definition assoc_fun {A} (l : list (nat * A)) : nat -> option A := lookup l.
Definition to_tmodel (order : list nat) (es : list (nat * nat)) (online outs : list nat) : tmodel :=
  mkTM order (parents_in es) (fun v => mem v online) outs.

Fixpoint mmclose (a b : list (list qv)) : bool :=
  match a, b with
  | [], [] => true
  | x :: a', y :: b' => mclose x y && mmclose a' b'
  | _, _ => false
  end.
(* what is observed of an online readout after train: Wout, bias, P ([] for LMS) *)
Definition rdo_close (s : qns) (o : qm * qv * qm) : bool :=
  let '(W, b, P) := o in mclose (Wout (ns_rdo s)) W && vclose (bias (ns_rdo s)) b && mclose (Pm (ns_rdo s)) P.

(* Model.train(X, Y, learn_every=k) on a fresh model.  steps: per timestep (external inputs by node id, targets by id).
   outs: per step, the returned state of every output node (ids in [outs] order). *)
Definition chk_train (tnodes : list (nat * tkind)) (order : list nat) (es : list (nat * nat)) (online outs : list nat)
           (k : nat) (steps : list (list (nat * qv) * list (nat * qv)))
           (obs_outs : list (list qv)) (obs_par : list (nat * (qm * qv * qm))) : bool :=
  let m := to_tmodel order es online outs in
  let st := map (fun p => (assoc_fun (fst p), assoc_fun (snd p))) steps in
  let '(e, o) := model_train qv qns (@concat Q) (q_ncall tnodes) (fun _ s => ns_st s) (q_nlearn tnodes) m k (q_env0 tnodes) st in
  mmclose o obs_outs && forallb (fun p => rdo_close (e (fst p)) (snd p)) obs_par.

(* the same through the explicit "upstream then readout" loop (single online readout r placed last) *)
Definition chk_train_explicit (tnodes : list (nat * tkind)) (ups : list nat) (r : nat) (es : list (nat * nat))
           (k : nat) (steps : list (list (nat * qv) * list (nat * qv)))
           (obs_outs : list qv) (obs_par : qm * qv * qm) : bool :=
  let m := to_tmodel (ups ++ [r]) es [r] [r] in
  let st := map (fun p => (assoc_fun (fst p), assoc_fun (snd p))) steps in
  let '(e, o) := explicit_train qv qns (@concat Q) (q_ncall tnodes) (fun _ s => ns_st s) (q_nlearn tnodes) ups r m k (q_env0 tnodes) st in
  mclose o obs_outs && rdo_close (e r) obs_par.

(* 2-3 successive Model.train calls on the same model: every call is Model.train from the state / parameters the
   previous one left, with the learn_every gate restarting at i = 0 of the call (and `single` decided per call).
   [expl] = Some (ups, r) when the model is "upstream nodes then the single online readout r": each call is then also
   compared with the explicit per-timestep loop started from the same environment. *)
Fixpoint chk_calls (tnodes : list (nat * tkind)) (m : tmodel) (k : nat) (expl : option (list nat * nat)) (e : nat -> qns)
         (calls : list (list (list (nat * qv) * list (nat * qv)) * list (list qv) * list (nat * (qm * qv * qm)))) : bool :=
  match calls with
  | [] => true
  | (steps, obs_outs, obs_par) :: rest =>
      let st := map (fun p => (assoc_fun (fst p), assoc_fun (snd p))) steps in
      let '(e1, o) := model_train qv qns (@concat Q) (q_ncall tnodes) (fun _ s => ns_st s) (q_nlearn tnodes) m k e st in
      mmclose o obs_outs && forallb (fun p => rdo_close (e1 (fst p)) (snd p)) obs_par
      && match expl with
         | Some (ups, r) =>
             let '(e2, o2) := explicit_train qv qns (@concat Q) (q_ncall tnodes) (fun _ s => ns_st s) (q_nlearn tnodes) ups r m k e st in
             mclose o2 (map (fun l => hd [] l) obs_outs) && forallb (fun p => rdo_close (e2 (fst p)) (snd p)) obs_par
         | None => true
         end
      && chk_calls tnodes m k expl e1 rest
  end.
Definition chk_train_calls (tnodes : list (nat * tkind)) (order : list nat) (es : list (nat * nat)) (online outs : list nat)
           (k : nat) (expl : option (list nat * nat))
           (calls : list (list (list (nat * qv) * list (nat * qv)) * list (list qv) * list (nat * (qm * qv * qm)))) : bool :=
  chk_calls tnodes (to_tmodel order es online outs) k expl (q_env0 tnodes) calls.

(* ---------------------------------------------------------------------------------------------- offline fit with feedback *)
(* model/FitFb.v at Q: the forward nodes of every stage are executed step by step by ModelSem.forward on Kinds.kfwd *)
Record fbnode := mkFN { fn_id : nat; fn_kind : option (kind (F:=Q)); fn_fb : option fbsrc; fn_odim : nat }.  (* kind None: a ridge readout *)
Definition fn_nd (n : fbnode) : ndesc (F:=Q) :=
  mkND (fn_id n) (match fn_kind n with Some k => kfwd k | None => fun _ _ _ _ => None end) (fn_fb n) (fn_odim n).
Definition fb_env0 (nodes : list fbnode) : env (F:=Q) :=
  fun v => match find (fun n => fn_id n =? v) nodes with
           | Some n => mkNS (vzeros (fn_odim n)) []
           | None => mkNS [] []
           end.
(* every output of node v during the fit, in call order: stages, then sequences, then timesteps *)
Definition flat_traj (log : list (list (nat * qd))) (v : nat) : qm :=
  concat (map (fun tr => match lookup tr v with Some d => concat d | None => [] end) log).

(* Model.fit(X, Y, warmup=w, force_teachers=force, reset=reset) on a fresh model with feedback connections:
   the staging; every recorded output of every forward node (hence every feedback value it received); Wout / bias *)
Definition chk_fit_fb (nodes : list fbnode) (rds : list (rdesc (F:=Q))) (g : graph) (X Y : list (nat * qd)) (w : nat)
           (force reset : bool) (lens : list nat) (obs_stg : list stage) (obs_traj : list (nat * qm))
           (obs : list (nat * (qm * qv))) : bool :=
  match get_offline_subgraphs g with Some stg => stages_eqb stg obs_stg | None => false end
  && match fit_fb qsolve_tot (mkFM (map fn_nd nodes) g rds) obs_stg X Y w force reset lens (fb_env0 nodes) with
     | Some (_, _, ps, _, log) =>
         forallb (fun o => param_close (lookup ps (fst o)) (fst (snd o)) (snd (snd o))) obs
         && forallb (fun o => mclose (flat_traj log (fst o)) (snd o)) obs_traj
     | None => false
     end.

(* ESN(reservoir, readout).fit(X, Y, warmup=w) on a fresh ESN: reservoir node [res], readout [rd] (ids), against
   1. esn_fit (the ESN code path) and 2. Model.fit of the same two nodes with force_teachers=True, reset=True *)
Definition chk_esn_fit (res rdn : fbnode) (r : rdesc (F:=Q)) (X Y : list (nat * qd)) (w : nat) (lens : list nat)
           (obs_traj : qm) (W : qm) (b : qv) : bool :=
  let g := mkG [fn_id res; fn_id rdn] [(fn_id res, fn_id rdn)] [fn_id rdn] in
  match esn_fit qsolve_tot (fn_nd res) (fn_nd rdn) r X Y w lens (fb_env0 [res; rdn]) with
  | Some (p, x) => param_close (Some p) W b && mclose (concat x) obs_traj
  | None => false
  end
  && match get_offline_subgraphs g with
     | Some stg =>
         match fit_fb qsolve_tot (mkFM [fn_nd res; fn_nd rdn] g [r]) stg X Y w true true lens (fb_env0 [res; rdn]) with
         | Some (_, _, ps, _, log) => param_close (lookup ps (fn_id rdn)) W b && mclose (flat_traj log (fn_id res)) obs_traj
         | None => false
         end
     | None => false
     end.
