(* C03, tie (T), dynamic validation of the translator: the functions GENERATED from reservoirpy/utils/graphflow.py
   (coq/gen/Gen_graphflow.v) are executed by vm_compute on digraphs on which the harness has just called the REAL
   find_entries_and_exits / find_parents_and_children / topological_sort directly (cyclic graphs included), and compared with
   what the real functions returned -- topological orders are compared EXACTLY (same list), which exercises the stack
   discipline of the deque and the order of the children lists.  Separate from run/RunC03.v so that a rejected translation
   does not take the hand-model correspondence down.
   Parameters of the generated code are instantiated with what was observed: [sortedE] = the name-sorted edge list
   (computed by the harness with Python's own `sorted`), [ents] = the list returned by the real find_entries_and_exits
   (Python's set order); the runner checks that both are permutations of what they should be. *)
From Coq Require Import List Arith Bool.
From RV Require Import base.PyColl gen.Gen_graphflow model.Graph.
Import ListNotations.

Definition idn : nat -> list node -> list node := fun _ s => s.
Fixpoint nlist_eqb (a b : list node) : bool :=
  match a, b with
  | [], [] => true
  | x :: a', y :: b' => Nat.eqb x y && nlist_eqb a' b'
  | _, _ => false
  end.
Fixpoint enodupb (l : list edge) : bool :=
  match l with [] => true | x :: l' => negb (emem x l') && enodupb l' end.
Definition eperm_b (a b : list edge) : bool := eset_eqb a b && Nat.eqb (length a) (length b) && enodupb a && enodupb b.

(* find_entries_and_exits(V, E) returned (ents, exs) *)
Definition chk_gen_ee (V : list node) (E : list edge) (ents exs : list node) : bool :=
  let '(en, ex) := GenGraphflow.find_entries_and_exits idn V E in
  set_eqb en ents && nodupb ents && nodupb en && set_eqb ex exs && nodupb exs && nodupb ex.

(* find_parents_and_children(E) returned dictionaries whose .get(v, ()) are listed in [par] / [chi] for every v of V *)
Definition chk_gen_pc (V : list node) (E sortedE : list edge) (par chi : list (list node)) : bool :=
  let '(P, C) := GenGraphflow.find_parents_and_children (fun _ => sortedE) E in
  eset_eqb sortedE E && Nat.eqb (length sortedE) (length E)
  && forallb (fun vp => nlist_eqb (dd_get P (fst vp) []) (snd vp)) (combine V par)
  && forallb (fun vc => nlist_eqb (dd_get C (fst vc) []) (snd vc)) (combine V chi)
  && Nat.eqb (length par) (length V) && Nat.eqb (length chi) (length V).

(* topological_sort(V, E, inputs) returned / raised [res] (Exc RuntimeError: "Model has a cycle"; KeyError / ValueError /
   IndexError: scenarios outside the contract -- duplicated edges, an `inputs` list that is not the entry set -- where the real
   code fails in `edges.remove` / `parents[m].remove`; the generated code must fail the same way).  inputs = None: [ents] is the
   list the real find_entries_and_exits returns on (V, E) (site 0 of the generated code); otherwise [ents] is ignored *)
Definition exc_eqb (a b : pyexc) : bool :=
  match a, b with
  | RuntimeError, RuntimeError | KeyError, KeyError | ValueError, ValueError | IndexError, IndexError => true
  | _, _ => false
  end.
Definition chk_gen_topo (V : list node) (E sortedE : list edge) (ents : list node) (inputs : option (list node))
    (res : py (list node)) : bool :=
  let ord := fun (k : nat) (s : list node) => if Nat.eqb k 0 then (if set_eqb s ents && nodupb ents then ents else s) else s in
  let fuel := S (length V + length E + length E + match inputs with Some l => length l | None => 0 end) in
  eset_eqb sortedE E && Nat.eqb (length sortedE) (length E) &&
  match inputs with None => set_eqb ents (fst (GenGraphflow.find_entries_and_exits idn V E)) && nodupb ents | Some _ => true end &&
  match GenGraphflow.topological_sort ord (fun _ => sortedE) fuel V E inputs, res with
  | Val l, Val o => nlist_eqb l o
  | Exc a, Exc b => exc_eqb a b
  | _, _ => false
  end.
