(* Scenario interpreter shared by the framework properties (C02, C05, C07, C08, C12 ...):
   a history of operations on nodes / models is executed on model/ModelSem.v at F := Q and compared, operation by
   operation, with what reservoirpy returned (outputs, success flag, states of all nodes afterwards). *)
From Coq Require Import List Arith Bool QArith.
From RV Require Import base.Num base.LA model.Windows model.ModelSem model.ProxySem model.Kinds.
Import ListNotations.
Close Scope Q_scope.

Notation qv := (list Q).

(* static description of one node of the scenario *)
Record snode := mkSN { sid : nat; skind : kind (F:=Q); sfb : option fbsrc; sodim : nat; shid : list qv }.
(* a model (or a single node seen as a one-node model): node ids in the OBSERVED execution order,
   fan-in order of every node, output node ids *)
Record smodel := mkSM { morder : list nat; mparents : list (nat * list nat); mouts : list nat }.

Definition assoc {A} (l : list (nat * A)) (n : nat) : option A :=
  match find (fun p => Nat.eqb (fst p) n) l with Some p => Some (snd p) | None => None end.
Definition assoc_list {A} (l : list (nat * list A)) (n : nat) : list A :=
  match assoc l n with Some x => x | None => [] end.

Definition to_ndesc (s : snode) : ndesc (F:=Q) := mkND (sid s) (kfwd (skind s)) (sfb s) (sodim s).
Definition to_model (nodes : list snode) (m : smodel) : model (F:=Q) :=
  mkModel (flat_map (fun i => match find (fun s => Nat.eqb (sid s) i) nodes with
                              | Some s => [to_ndesc s] | None => [] end) (morder m))
          (assoc_list (mparents m)) (mouts m).
Definition init_env (nodes : list snode) : env (F:=Q) :=
  fun n => match find (fun s => Nat.eqb (sid s) n) nodes with
           | Some s => mkNS (vzeros (sodim s)) (shid s)
           | None => mkNS [] []
           end.

(* is the observed execution order a topological order of the observed graph? (every parent earlier, no repeat) *)
Fixpoint is_topo (parents : nat -> list nat) (seen : list nat) (ord : list nat) : bool :=
  match ord with
  | [] => true
  | n :: rest => negb (existsb (Nat.eqb n) seen) && forallb (fun p => existsb (Nat.eqb p) seen) (parents n)
                 && is_topo parents (n :: seen) rest
  end.

Inductive op :=
| OpRun (mi : nat) (stateful reset : bool) (from_state : list (nat * qv))
        (X : list (list (nat * qv)))                 (* per step: external input per node id *)
        (shift_fb : bool) (FB : list (nat * list qv)) (* forced feedback sequences per node id *)
| OpCall (mi : nat) (stateful reset : bool) (from_state : list (nat * qv)) (x : list (nat * qv)) (fb : list (nat * qv))
| OpReset (mi : nat).

(* what reservoirpy did: success flag, per-step outputs (output nodes in [mouts] order), states of all nodes after,
   and (when the harness looked: Some) whether afterwards every node's `_state_proxy` was None and no receiver's
   DistantFeedback was `_clamped` *)
Record obs := mkObs { ook : bool; oouts : list (list qv); ostates : list (nat * qv); orest : option bool }.

Definition fb_steps (shift_fb : bool) (FB : list (nat * list qv)) (T : nat) : list (list (nat * qv)) :=
  let disp := map (fun p => (fst p, dispatch_fb shift_fb (vzeros (length (hd [] (snd p)))) (snd p))) FB in
  map (fun t => flat_map (fun p => match nth_error (snd p) t with Some v => [(fst p, v)] | None => [] end) disp) (seq 0 T).

Definition run_one (nodes : list snode) (models : list smodel) (o : op) (e : env (F:=Q))
  : env (F:=Q) * list (list qv) * bool :=
  match o with
  | OpRun mi stateful reset from X shift FB =>
      match nth_error models mi with
      | Some sm =>
          let m := to_model nodes sm in
          let fbs := fb_steps shift FB (length X) in
          let steps := map (fun p => (assoc (fst p), assoc (snd p))) (combine X (fbs ++ repeat [] (length X))) in
          run_op m stateful reset (assoc from) steps e
      | None => (e, [], false)
      end
  | OpCall mi stateful reset from x fb =>
      match nth_error models mi with
      | Some sm => run_op (to_model nodes sm) stateful reset (assoc from) [(assoc x, assoc fb)] e
      | None => (e, [], false)
      end
  | OpReset mi =>
      match nth_error models mi with
      | Some sm => (reset_op (to_model nodes sm) e, [], true)
      | None => (e, [], false)
      end
  end.

Fixpoint mmclose (a b : list (list qv)) : bool :=
  match a, b with
  | [], [] => true
  | x :: a', y :: b' => mclose x y && mmclose a' b'
  | _, _ => false
  end.

Definition states_ok (e : env (F:=Q)) (l : list (nat * qv)) : bool :=
  forallb (fun p => vclose (st (e (fst p))) (snd p)) l.

(* compare one operation.  On failure only the success flag and the states afterwards are compared. *)
Definition chk_op (nodes : list snode) (models : list smodel) (o : op) (ob : obs) (e : env (F:=Q)) : env (F:=Q) * bool :=
  let '(e1, outs, ok) := run_one nodes models o e in
  (e1, Bool.eqb ok (ook ob) && (if ok then mmclose outs (oouts ob) else true) && states_ok e1 (ostates ob)).

Fixpoint chk_ops (nodes : list snode) (models : list smodel) (l : list (op * obs)) (e : env (F:=Q)) : bool :=
  match l with
  | [] => true
  | (o, ob) :: rest => let '(e1, b) := chk_op nodes models o ob e in b && chk_ops nodes models rest e1
  end.

Definition topo_ok (models : list smodel) : bool :=
  forallb (fun sm => is_topo (assoc_list (mparents sm)) [] (morder sm)) models.

Definition chk_hist (nodes : list snode) (models : list smodel) (l : list (op * obs)) : bool :=
  topo_ok models && chk_ops nodes models l (init_env nodes).

(* debugging aid: the model's own outputs and states for a history *)
Fixpoint dbg_ops (nodes : list snode) (models : list smodel) (l : list op) (e : env (F:=Q))
  : list (bool * list (list qv) * list (nat * qv)) :=
  match l with
  | [] => []
  | o :: rest => let '(e1, outs, ok) := run_one nodes models o e in
                 (ok, outs, map (fun s => (sid s, st (e1 (sid s)))) nodes) :: dbg_ops nodes models rest e1
  end.

(* ------------------------------------------------------------------------------------------------------------------
   The same interpreter on the LOW-LEVEL model (model/ProxySem.v: explicit `_state_proxy` / clamp management):
   OpRun -> run_op_ll (Model.run / Model._run), OpCall -> call_op_ll (Model.call), OpReset -> reset_op_ll.
   Besides outputs / success / states it compares the model's prediction "at rest afterwards" with the observed
   proxies and clamps.  proofs/Refine_proofs.v proves that both interpreters agree from at-rest states; running both
   ties each of the two models to the code independently. *)
Definition init_env_ll (nodes : list snode) : lenv (F:=Q) := inject (init_env nodes).

Definition run_one_ll (nodes : list snode) (models : list smodel) (o : op) (e : lenv (F:=Q))
  : lenv (F:=Q) * list (list qv) * bool :=
  match o with
  | OpRun mi stateful reset from X shift FB =>
      match nth_error models mi with
      | Some sm =>
          let m := to_model nodes sm in
          let fbs := fb_steps shift FB (length X) in
          let steps := map (fun p => (assoc (fst p), assoc (snd p))) (combine X (fbs ++ repeat [] (length X))) in
          run_op_ll m stateful reset (assoc from) steps e
      | None => (e, [], false)
      end
  | OpCall mi stateful reset from x fb =>
      match nth_error models mi with
      | Some sm => call_op_ll (to_model nodes sm) stateful reset (assoc from) (assoc x) (assoc fb) e
      | None => (e, [], false)
      end
  | OpReset mi =>
      match nth_error models mi with
      | Some sm => (reset_op_ll (to_model nodes sm) e, [], true)
      | None => (e, [], false)
      end
  end.

Definition states_ok_ll (e : lenv (F:=Q)) (l : list (nat * qv)) : bool :=
  forallb (fun p => vclose (lst (e (fst p))) (snd p)) l.
(* decidable at_rest over the scenario's nodes *)
Definition at_restb (nodes : list snode) (e : lenv (F:=Q)) : bool :=
  forallb (fun s => match proxy (e (sid s)), clamp (e (sid s)) with None, None => true | _, _ => false end) nodes.

Definition chk_op_ll (nodes : list snode) (models : list smodel) (o : op) (ob : obs) (e : lenv (F:=Q)) : lenv (F:=Q) * bool :=
  let '(e1, outs, ok) := run_one_ll nodes models o e in
  (e1, Bool.eqb ok (ook ob) && (if ok then mmclose outs (oouts ob) else true) && states_ok_ll e1 (ostates ob)
       && match orest ob with Some b => Bool.eqb b (at_restb nodes e1) | None => true end).

Fixpoint chk_ops_ll (nodes : list snode) (models : list smodel) (l : list (op * obs)) (e : lenv (F:=Q)) : bool :=
  match l with
  | [] => true
  | (o, ob) :: rest => let '(e1, b) := chk_op_ll nodes models o ob e in b && chk_ops_ll nodes models rest e1
  end.

Definition chk_hist_ll (nodes : list snode) (models : list smodel) (l : list (op * obs)) : bool :=
  topo_ok models && chk_ops_ll nodes models l (init_env_ll nodes).

(* what the harness emits: the history checked against both models *)
Definition chk_hist_both (nodes : list snode) (models : list smodel) (l : list (op * obs)) : bool :=
  chk_hist nodes models l && chk_hist_ll nodes models l.

(* debugging aid for the low-level interpreter: success, outputs, states and at-rest flag after each op *)
Fixpoint dbg_ops_ll (nodes : list snode) (models : list smodel) (l : list op) (e : lenv (F:=Q))
  : list (bool * list (list qv) * list (nat * qv) * bool) :=
  match l with
  | [] => []
  | o :: rest => let '(e1, outs, ok) := run_one_ll nodes models o e in
                 (ok, outs, map (fun s => (sid s, lst (e1 (sid s)))) nodes, at_restb nodes e1) :: dbg_ops_ll nodes models rest e1
  end.
