(* C19 correspondence runner: model/Metrics.v executed at F := Q against what reservoirpy.observables returned.
   Square roots do not exist over Q: rmse / nrmse are compared through their squares (plus their sign). *)
From Coq Require Import List Arith Bool QArith.
From RV Require Import base.Num base.LA model.Metrics.
Import ListNotations.
Close Scope Q_scope.

(* an observed float: None = nan / +-inf *)
Notation oq := (option Q).
(* what the real function did: raised ValueError, returned a scalar, returned a 1-D array *)
Inductive obs := OErr | OS (x : oq) | OV (v : list oq).

Fixpoint all2 {A B} (f : A -> B -> bool) (la : list A) (lb : list B) : bool :=
  match la, lb with
  | [], [] => true
  | a :: la', b :: lb' => f a b && all2 f la' lb'
  | _, _ => false
  end.
Definition cmp {T} (f : T -> oq -> bool) (m : option (T + list T)) (o : obs) : bool :=
  match m, o with
  | None, OErr => true
  | Some (inl x), OS y => f x y
  | Some (inr v), OV w => all2 f v w
  | _, _ => false
  end.
Definition ofres (r : option (res Q)) : option (Q + list Q) :=
  match r with None => None | Some (RS x) => Some (inl x) | Some (RV v) => Some (inr v) end.

Definition oclose (m : Q) (o : oq) : bool := match o with Some x => qclose m x | None => false end.
Definition oclose_fin (m : Q) (o : oq) : bool := match o with Some x => qclose m x | None => true end.
Definition qzero (a : Q) : bool := Qeq_bool a 0.

Definition chk_mse (dw : bool) (y p : arr Q) (o : obs) : bool := cmp oclose (ofres (mse dw y p)) o.
(* observed rmse r:  r >= 0 and r^2 = model mse *)
Definition chk_rmse (dw : bool) (y p : arr Q) (o : obs) : bool :=
  cmp (fun m ox => match ox with Some x => Qle_bool 0 x && qclose m (Qred (x * x)) | None => false end)
      (ofres (rmse_sq dw y p)) o.
(* observed nrmse e against the model's (mse, norm):  norm = 0 <-> e not finite;  else e^2 = mse/norm^2, e*norm >= 0 *)
Definition nrmse_ok (mn : Q * Q) (ox : oq) : bool :=
  let '(m, n) := mn in
  if qzero n then match ox with None => true | Some _ => false end
  else match ox with
       | None => false
       | Some x => qclose (Qred (m / (n * n))) (Qred (x * x)) && Qle_bool 0 (x * n)
       end.
Definition chk_nrmse (dw : bool) (k : normk) (y p : arr Q) (o : obs) : bool := cmp nrmse_ok (nrmse_parts dw k y p) o.
Definition chk_nrmse_nv (dw : bool) (nv : Q) (y p : arr Q) (o : obs) : bool := cmp nrmse_ok (nrmse_parts_nv dw nv y p) o.
(* R^2: SS_tot = 0 <-> not finite; otherwise the model value *)
Definition rsq_ok (dD : Q * Q) (ox : oq) : bool :=
  let '(d, D) := dD in
  if qzero D then match ox with None => true | Some _ => false end
  else oclose (Qred (1 - d / D)) ox.
Definition chk_rsquare (dw : bool) (y p : arr Q) (o : obs) : bool :=
  cmp rsq_ok (rsquare_parts dw y p) o && cmp oclose_fin (ofres (rsquare dw y p)) o.
(* the matrix effective_spectral_radius hands to spectral_radius *)
Definition chk_effmat (lr : Q) (W M : list (list Q)) : bool := mclose (eff_matrix lr W) M.
(* np.quantile on a 1-D array (used by the q1q3 norm) *)
Definition chk_quantile (a b : nat) (v : list Q) (o : Q) : bool := qclose (quantile a b v) o.
