(* C13 correspondence runner: model/MatGen.v executed at F := Q (numbers) and V := option Z (kwargs values)
   and compared with what reservoirpy.mat_gen returned. *)
From Coq Require Import List Arith Bool ZArith QArith.
From Coq Require String.
From RV Require Import base.Num base.LA model.MatGen.
Import ListNotations.
Close Scope Q_scope.

(* ---------------- Part 1: Initializer.__call__ ---------------- *)
Definition pyv := option Z.                       (* None = Python None, Some z = the int z *)
Definition pyv_none (v : pyv) : bool := match v with None => true | Some _ => false end.
Definition pyv_eqb (a b : pyv) : bool :=
  match a, b with
  | None, None => true
  | Some x, Some y => Z.eqb x y
  | _, _ => false
  end.
Fixpoint list_eqb {A} (e : A -> A -> bool) (a b : list A) : bool :=
  match a, b with
  | [], [] => true
  | x :: a', y :: b' => e x y && list_eqb e a' b'
  | _, _ => false
  end.
Definition kwargs_eqb (a b : kwargs pyv) : bool :=
  list_eqb (fun p q => String.eqb (fst p) (fst q) && pyv_eqb (snd p) (snd q)) a b.
Definition init_eqb (a b : initializer pyv) : bool :=
  (i_func a =? i_func b) && kwargs_eqb (i_kwargs a) (i_kwargs b) && Bool.eqb (i_autorize_sr a) (i_autorize_sr b)
  && Bool.eqb (i_autorize_is a) (i_autorize_is b) && Bool.eqb (i_autorize_rescaling a) (i_autorize_rescaling b).
Definition post_eqb (a b : post pyv) : bool :=
  match a, b with
  | PNone, PNone => true
  | PSr x, PSr y => pyv_eqb x y
  | PInputScaling x, PInputScaling y => pyv_eqb x y
  | _, _ => false
  end.
Definition desc_eqb (a b : descriptor pyv) : bool :=
  (d_func a =? d_func b) && list_eqb pyv_eqb (d_shape a) (d_shape b) && post_eqb (d_post a) (d_post b)
  && kwargs_eqb (d_kwargs a) (d_kwargs b).
Definition err_eqb (a b : error) : bool :=
  match a, b with
  | ESrNotAuthorized, ESrNotAuthorized | EInputScalingNotAuthorized, EInputScalingNotAuthorized
  | EBothScalings, EBothScalings => true
  | _, _ => false
  end.
Definition result_eqb (a b : result pyv) : bool :=
  match a, b with
  | RErr x, RErr y => err_eqb x y
  | RInit x, RInit y => init_eqb x y
  | RMat x, RMat y => desc_eqb x y
  | _, _ => false
  end.
Definition ores_eqb (a b : option (result pyv)) : bool :=
  match a, b with
  | Some x, Some y => result_eqb x y
  | None, None => true
  | _, _ => false
  end.

(* a history of calls on a heap that initially holds the single initializer [i0]:
   observed = what every call returned, and the _kwargs/flags of every initializer object at the end *)
Definition chk_calls (i0 : initializer pyv) (ops : list (nat * list pyv * kwargs pyv))
                     (obs_results : list (option (result pyv))) (obs_heap : list (initializer pyv)) : bool :=
  let '(h, rs) := hrun pyv_none [i0] ops in
  list_eqb ores_eqb rs obs_results && list_eqb init_eqb h obs_heap.

(* a history of calls / derived partials on a partial that stores a Generator: observed = the stream position every call
   drew from (None for a partial application), the final position of the caller's Generator and of the generators stored
   in every partial *)
Definition onat_eqb (a b : option nat) : bool :=
  match a, b with Some x, Some y => x =? y | None, None => true | _, _ => false end.
Definition chk_gen (ops : list gop) (obs : list (option nat)) (obs_user : nat) (obs_stored : list nat) : bool :=
  let '(g, rs) := grun true g0 ops in
  list_eqb onat_eqb rs obs && (nth 0 (g_store g) 0 =? obs_user)
  && list_eqb Nat.eqb (map (fun a => nth a (g_store g) 0) (g_partials g)) obs_stored.

(* ---------------- Part 2: rescaling ---------------- *)
Definition eps8 : Q := (1 # 100000000)%Q.       (* mat_gen._epsilon *)
Definition chk_sr (W0 : list (list Q)) (rho sr : Q) (obs : list (list Q)) : bool :=
  mclose (scale_sr (F:=Q) eps8 W0 rho sr) obs.
Definition chk_is_scalar (W0 : list (list Q)) (s : Q) (obs : list (list Q)) : bool :=
  mclose (scale_inputs_scalar (F:=Q) s W0) obs.
Definition chk_is_cols (W0 : list (list Q)) (s : list Q) (obs : list (list Q)) : bool :=
  mclose (scale_inputs_cols (F:=Q) s W0) obs.

(* ---------------- Part 3: structured matrices ---------------- *)
Definition chk_ring (n : nat) (w : list Q) (obs : list (list Q)) : bool := mclose (ring (F:=Q) n w) obs.
Definition chk_line (n : nat) (w : list Q) (obs : list (list Q)) : bool := mclose (line (F:=Q) n w) obs.

Fixpoint nodupb (l : list nat) : bool :=
  match l with
  | [] => true
  | x :: l' => negb (existsb (Nat.eqb x) l') && nodupb l'
  end.
Definition choice_okb (bound d : nat) (l : list nat) : bool :=
  nodupb l && forallb (fun x => x <? bound) l && (length l =? d).
Definition lnat_eqb (a b : list nat) : bool := list_eqb Nat.eqb a b.

(* _random_degree: [choices] = the successive answers of Generator.choice replayed from the same seed, [vals] = the data
   vector in assembly order; observed: the COO index arrays of the returned matrix and its dense form *)
Definition chk_degree (out : bool) (m n d : nat) (choices : list (list nat)) (vals : list Q)
                      (obs_rows obs_cols : list nat) (obs : list (list Q)) : bool :=
  let ch := fun k => nth k choices [] in
  let es := if out then degree_coo_out (F:=Q) ch n d vals else degree_coo_in (F:=Q) ch m d vals in
  forallb (choice_okb (if out then m else n) d) choices
  && (length choices =? (if out then n else m))
  && lnat_eqb (map (fun e => fst (fst e)) es) obs_rows
  && lnat_eqb (map (fun e => snd (fst e)) es) obs_cols
  && mclose (coo_dense m n es) obs.
