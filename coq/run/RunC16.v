(* C16 correspondence runner: the object-store model and the legacy/converted ESN model executed (at Q) and compared with
   what reservoirpy did.  Numeric behaviour of copies is checked with run/RunModel.v's chk_hist (same term, ops replayed). *)
From Coq Require Import List Arith Bool QArith.
From Coq Require String.
From RV Require Import base.Num base.LA model.Store.
Import ListNotations.
Close Scope Q_scope.

Notation qv := (list Q).
Notation qm := (list (list Q)).

(* ---- (a) structure of copies.  Cell contents are tokens: the id of the original object, so that "same contents"
        and "copy of which object" can be read off the copied cell. ---- *)
Definition c16_cell := (nat * nat * str * list nat)%type.      (* id, class, name, feedback senders *)
Definition c16_store (cells : list c16_cell) (regd : list (nat * str)) : store nat nat :=
  mkStore (fun j => match find (fun c => Nat.eqb (fst (fst (fst c))) j) cells with
                    | Some (i, k, nm, fb) => Some (mkCell k nm i i fb)
                    | None => None
                    end)
          (S (fold_right (fun c acc => Nat.max (fst (fst (fst c))) acc) 0 cells)) regd.

Definition str_list_eqb (a b : list str) : bool :=
  (length a =? length b) && forallb (fun p => String.eqb (fst p) (snd p)) (combine a b).
Definition kv_eqb (a b : str * nat) : bool := String.eqb (fst a) (fst b) && Nat.eqb (snd a) (snd b).
Definition kv_same (a b : list (str * nat)) : bool :=
  (length a =? length b) && forallb (fun x => existsb (kv_eqb x) b) a && forallb (fun x => existsb (kv_eqb x) a) b.
Definition bn_eqb (a b : bool * nat) : bool := Bool.eqb (fst a) (fst b) && Nat.eqb (snd a) (snd b).
Definition bn_list_eqb (a b : list (bool * nat)) : bool :=
  (length a =? length b) && forallb (fun p => bn_eqb (fst p) (snd p)) (combine a b).
Fixpoint all2 {A B} (f : A -> B -> bool) (a : list A) (b : list B) : bool :=
  match a, b with [] , [] => true | x :: a', y :: b' => f x y && all2 f a' b' | _, _ => false end.
(* a sender seen from a copied node: (is it a fresh object?, which original object is it / is it a copy of) *)
Definition sender_desc (base : nat) (h : heap nat nat) (p : nat) : bool * nat :=
  (base <=? p, match h p with Some c => cdata c | None => 0 end).
Definition pos_of (l : list nat) (n : nat) : nat := match index_of n l with Some k => k | None => length l end.
Fixpoint nodupb (l : list str) : bool :=
  match l with [] => true | x :: l' => negb (existsb (String.eqb x) l') && nodupb l' end.

(* copy.deepcopy(model) / pickle round trip.  Observed: the original's registry (key, node id); the copy's model name, node
   names (in node order), registry (key, position of the node it maps to), senders of each copied node, per node "some array is
   shared with the original" and "all arrays equal the original's", and whether every node is found by get_node under its name *)
Definition chk_copy_model (cells : list c16_cell) (regd : list (nat * str)) (mcls : nat) (mname : str) (mnodes : list nat)
    (edges : list (nat * nat)) (oreg : list (str * nat))
    (o_mname : str) (o_names : list str) (o_reg : list (str * nat)) (o_fb : list (list (bool * nat)))
    (o_shared o_equal : list bool) (o_named : bool) : bool :=
  let s := c16_store cells regd in
  let m := mkMdl mcls mname mnodes oreg edges in
  let ids := reach s mnodes in
  let '(s', m', ren) := deepcopy_model s m in
  closedb (hp s) ids && forallb (fun n => existsb (Nat.eqb n) ids) mnodes
  && kv_same oreg (init_registry (hp s) mnodes)
  && String.eqb (Store.mname m') o_mname
  && str_list_eqb (map (name_of (hp s')) (Store.mnodes m')) o_names
  && kv_same (map (fun p => (fst p, pos_of (Store.mnodes m') (snd p))) (mreg m')) o_reg
  && all2 (fun n obs => match hp s' n with Some c => bn_list_eqb (map (sender_desc (next s) (hp s')) (cfb c)) obs | None => false end)
          (Store.mnodes m') o_fb
  && all2 (fun n sh => Bool.eqb (negb (next s <=? n)) sh) (Store.mnodes m') o_shared
  && all2 (fun p eq => Bool.eqb (match hp s' (snd p) with Some c => cdata c =? fst p | None => false end) eq)
          (combine mnodes (Store.mnodes m')) o_equal
  && Bool.eqb (nodupb (map (name_of (hp s')) (Store.mnodes m')) && named_ops_defined (hp s') m') o_named.

(* node.copy(name, copy_feedback).  Observed: success (False = NameError), senders of the copy, whether the new name is
   registered afterwards, array sharing / equality with the original *)
Definition chk_node_copy (cells : list c16_cell) (regd : list (nat * str)) (i : nat) (nm : str) (copy_fb : bool)
    (o_ok : bool) (o_fb : list (bool * nat)) (o_registered o_shared o_equal : bool) : bool :=
  let s := c16_store cells regd in
  match node_copy s i nm copy_fb with
  | None => negb o_ok
  | Some (s', n) =>
      o_ok && (next s <=? n) && negb o_shared
      && match hp s' n with
         | Some c => bn_list_eqb (map (sender_desc (next s) (hp s')) (cfb c)) o_fb && Bool.eqb (cdata c =? i) o_equal
                     && Bool.eqb (registered (reg s') (ccls c) nm) o_registered && String.eqb (cname c) nm
         | None => false
         end
  end.

(* ---- (b) legacy ESN: saved, loaded, converted ---- *)
Definition act_tab (t : list (qv * qv)) (v : qv) : qv :=
  match find (fun p => vclose v (fst p)) t with Some p => snd p | None => [] end.
Inductive gkind := GId | GHalf | GRelu.
Definition gfun (g : gkind) (v : qv) : qv :=
  match g with
  | GId => v
  | GHalf => map (fun a => Qred (a / 2)%Q) v
  | GRelu => map (fun a => if Qle_bool a 0 then 0%Q else a) v
  end.
Fixpoint pairs_close (m o : list (qv * qv)) : bool :=
  match m, o with
  | [], [] => true
  | a :: m', b :: o' => vclose (fst a) (fst b) && vclose (snd a) (snd b) && pairs_close m' o'
  | _, _ => false
  end.
Definition shapedb (L : legacy (F:=Q)) : bool :=
  forallb (fun row => length row =? lN L) (lW L) && (length (lWin L) =? lN L) && (length (lW L) =? lN L)
  && match lWout L with Some Wo => forallb (fun row => length row =? S (lN L)) Wo | None => true end.
Definition omclose (a b : option qm) : bool :=
  match a, b with Some x, Some y => mclose x y | None, None => true | _, _ => false end.

(* L: the arrays of the legacy ESN that was saved; tab: (argument, result) pairs of its activation (np.tanh) recorded along the
   run; observed (state, output) rows of the saved ESN, of compat.load(dir) and of compat.load_compat(dir) on the same inputs
   from the null state; the arrays of the converted nodes *)
Definition chk_legacy (L : legacy (F:=Q)) (tab : list (qv * qv)) (g : gkind) (dout : nat) (us : list qv)
    (o_saved o_loaded o_conv : list (qv * qv))
    (cW cWin : qm) (cbias : qv) (cWfb : option qm) (cWout : option (qm * qv)) : bool :=
  let E := convert L in
  let x0 := vzeros (lN L) in let fb0 := vzeros dout in
  shapedb L
  && mclose (vW E) cW && mclose (vWin E) cWin && vclose (vbias E) cbias && omclose (vWfb E) cWfb
  && match vWout E, cWout with
     | Some (W, b), Some (W', b') => mclose W W' && vclose b b'
     | None, None => true
     | _, _ => false
     end
  && pairs_close (legacy_run L (act_tab tab) (gfun g) x0 fb0 us) o_saved
  && pairs_close (legacy_run L (act_tab tab) (gfun g) x0 fb0 us) o_loaded
  && pairs_close (v3_run E (act_tab tab) (gfun g) x0 fb0 us) o_conv.
