(* C04 correspondence runner: model/Ridge.v executed at F := Q (Gauss-Jordan in place of LAPACK) and compared with
   what reservoirpy's Ridge returned. *)
From Coq Require Import List Arith Bool QArith.
From RV Require Import base.Num base.LA model.Ridge.
Import ListNotations.
Close Scope Q_scope.

Definition qsolve_tot (A B : list (list Q)) : list (list Q) :=
  match qsolve A B with Some X => X | None => [] end.

(* the observed parameters put back together as the raw solution of the linear system (bias row first) *)
Definition assemble (bias : bool) (Wout : list (list Q)) (b : list Q) : list (list Q) :=
  if bias then b :: Wout else Wout.

(* Ridge(ridge=lam, input_bias=bias).fit(Xs, Ys, warmup=w), then .run(Xtest):
   1. the model's own (exact) solution is close to the observed Wout / bias,
   2. the OBSERVED parameters satisfy the regularised normal equations (XXT + lam I) Wo = YXT^T built by the model,
   3. the observed predictions are the model's forward pass with the model parameters and with the observed parameters. *)
Definition chk_fit (bias : bool) (lam : Q) (w din dout : nat) (Xs Ys : list (list (list Q)))
           (Wout_obs : list (list Q)) (b_obs : list Q) (Xtest pred_obs : list (list Q)) : bool :=
  match partial_fit (F:=Q) bias din dout w (buffers0 bias din dout) Xs Ys with
  | None => false
  | Some acc =>
      let '(Wm, bm) := split_wo bias dout (backward_raw qsolve_tot bias lam din acc) in
      let d := aug_dim bias din in
      mclose Wm Wout_obs && vclose bm b_obs
      && mclose (transpose (snd acc) d) (mm (ridge_system bias lam din (fst acc)) (assemble bias Wout_obs b_obs) dout)
      && mclose (run dout Wm bm Xtest) pred_obs
      && mclose (run dout Wout_obs b_obs Xtest) pred_obs
  end.
