(* C20: the GENERATED helpers (coq/gen/Gen_datasets.v: to_forecasting and one_hot_encode translated from the current source on this
   run by tools/vlib/py2coq_ds.py) executed at Q on the same scenarios as run/RunC20.v and compared with what reservoirpy returned --
   the dynamic validation of the translator and of the vocabulary base/DSPrelude.v (Python slices, round, np.moveaxis, np.unique...).
   Same argument lists as the chk_* of RunC20.v (the harness only renames the head of each term).
   Kept apart from RunC20.v so that a rejected translation does not take the hand-model correspondence down with it. *)
From Coq Require Import List Arith Bool ZArith QArith.
From Coq Require String.
From RV Require Import base.Num base.LA base.DSPrelude model.Datasets gen.Gen_datasets run.RunC20.
Import ListNotations.
Close Scope Q_scope.

(* the Python argument the scenario's test_size stands for *)
Definition ts_py (t : test_size) : py_arg :=
  match t with TsNone => PyNone | TsInt k => PyInt k | TsRatio r => PyFloat r end.

Definition chk_gen_fc1 (forecast : nat) (ts : test_size) (series : list Q) (obs : list (list Q)) : bool :=
  oclose mclose (GenDatasets.to_forecasting series forecast (axis0_view Q) (ts_py ts)) obs.
Definition chk_gen_fc2 (axis forecast : nat) (ts : test_size) (series : list (list Q)) (obs : list (list (list Q))) : bool :=
  oclose tclose (match axis with
                 | O => GenDatasets.to_forecasting series forecast (axis0_view (list Q)) (ts_py ts)
                 | _ => GenDatasets.to_forecasting series forecast (axis1_view Q) (ts_py ts)
                 end) obs.
Definition chk_gen_fc_rejects (time_len : nat) (ts : test_size) : bool :=
  match GenDatasets.to_forecasting (repeat 0%Q time_len) 1 (axis0_view Q) (ts_py ts) with None => true | Some _ => false end.

Section Lab.
Context {A : Type} (leb : A -> A -> bool) (eqb : A -> A -> bool).
Definition gen_onehot_1d (y : ndarr A) (enc : list (list Q)) (cls : list A) : bool :=
  match GenDatasets.one_hot_encode_arr (F:=Q) leb y with
  | Some (A1 e, c) => mclose e enc && list_eqb eqb c cls
  | _ => false
  end.
Definition gen_onehot_grid (rows : list (list A)) (enc : list (list (list Q))) (cls : list A) : bool :=
  match GenDatasets.one_hot_encode_arr (F:=Q) leb (A2 rows) with
  | Some (A2 e, c) => tclose e enc && list_eqb eqb c cls
  | _ => false
  end.
Fixpoint pieces_close (p : list (ndarr (list Q))) (o : list (list (list Q))) : bool :=
  match p, o with
  | [], [] => true
  | A1 a :: p', b :: o' => mclose a b && pieces_close p' o'
  | _, _ => false
  end.
Definition gen_onehot_multi (seqs : list (list A)) (enc : list (list (list Q))) (cls : list A) : bool :=
  match GenDatasets.one_hot_encode_seqs (F:=Q) leb seqs with
  | Some (p, c) => pieces_close p enc && list_eqb eqb c cls
  | None => false
  end.
End Lab.

Definition chk_gen_onehot_z (labels : list Z) := gen_onehot_1d Z.leb Z.eqb (A1 labels).
Definition chk_gen_onehot_s (labels : list String.string) := gen_onehot_1d String.leb String.eqb (A1 labels).
Definition chk_gen_onehot_col_z (rows : list (list Z)) := gen_onehot_1d Z.leb Z.eqb (A2 rows).
Definition chk_gen_onehot_col_s (rows : list (list String.string)) := gen_onehot_1d String.leb String.eqb (A2 rows).
Definition chk_gen_onehot_grid_z := gen_onehot_grid Z.leb Z.eqb.
Definition chk_gen_onehot_grid_s := gen_onehot_grid String.leb String.eqb.
Definition chk_gen_onehot_multi_z := gen_onehot_multi Z.leb Z.eqb.
Definition chk_gen_onehot_multi_s := gen_onehot_multi String.leb String.eqb.
