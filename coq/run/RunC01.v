(* C01 / C15 correspondence runner: model/Reservoir.v executed at F := Q and compared with what reservoirpy returned. *)
From Coq Require Import List Arith Bool QArith Qabs.
From RV Require Import base.Num base.LA model.Reservoir.
Import ListNotations.
Close Scope Q_scope.

(* ---- activations.  Exact ones are the model's; named ones ("tanh", "sigmoid", ...) are replayed as uninterpreted
   functions through a table of (argument, result) pairs recorded from the implementation's own function. ---- *)
Inductive actc := AId | ARelu | AHard | AHalf | ATab (t : list (list Q * list Q)).

(* table keyed by the whole argument column (activations are applied to the (units,1) array: softmax is not element-wise);
   a miss yields [] (and is reported by [args_ok]) *)
Definition tab_find (t : list (list Q * list Q)) (v : list Q) : option (list Q * list Q) :=
  find (fun p => vclose v (fst p)) t.
Definition act_fun (a : actc) (v : list Q) : list Q :=
  match a with
  | AId => map a_id v | ARelu => map a_relu v | AHard => map a_hardtanh v | AHalf => map a_half v
  | ATab t => match tab_find t v with Some p => snd p | None => [] end
  end.
Definition args_ok (a : actc) (args : list (list Q)) : bool :=
  match a with
  | ATab t => forallb (fun v => match tab_find t v with Some _ => true | None => false end) args
  | _ => true
  end.

Definition mkcfg (W Win : list (list Q)) (bias : list Q) (Wfb : option (list (list Q))) (lr : leak Q) (act fbact : actc) : rcfg Q :=
  {| rW := W; rWin := Win; rbias := bias; rWfb := Wfb; rlr := lr; ract := act_fun act; rfbact := act_fun fbact;
     g_in := 0%Q; g_fb := 0%Q; g_rc := 0%Q |}.
Definition mkin (p : list Q * list Q) : rin Q := {| i_u := fst p; i_fb := snd p; xi_in := []; xi_fb := []; xi_rc := [] |}.

(* the arguments the model gives to the activation at every step (for the table check) *)
Fixpoint act_args (e : equation) (c : rcfg Q) (st : rstate Q) (xs : list (rin Q)) : list (list Q) :=
  match xs with
  | [] => []
  | x :: xs' => let st' := step e c st x in
                (match e with Internal => kernel c (snd st) x | External => fst st' end) :: act_args e c st' xs'
  end.

(* One scenario: the arrays given to Reservoir(...) (or read back from it for seeded initialisers), the start pair
   (internal_state, state), the inputs, the feedback vector seen at every step, and the observations:
   every returned row, the final internal_state / state, and the node's Win / bias after initialisation. *)
Definition chk_res (e : equation) (W : list (list Q)) (input_bias : bool) (Win_arg : list (list Q)) (bias_arg : list Q)
    (in_dim : nat) (Wfb : option (list (list Q))) (lr : leak Q) (act fbact : actc)
    (s0 r0 : list Q) (us fbs : list (list Q))
    (outs : list (list Q)) (sfin rfin : list Q) (obsWin : list (list Q)) (obsbias : list Q) : bool :=
  match init_win_bias input_bias Win_arg bias_arg in_dim with
  | None => false
  | Some (Win, bias) =>
      let c := mkcfg W Win bias Wfb lr act fbact in
      let xs := map mkin (combine us fbs) in
      let fin := run_final e c (s0, r0) xs in
      (length us =? length fbs) && mclose Win obsWin && vclose bias obsbias
      && mclose (run_outputs e c (s0, r0) xs) outs
      && vclose (fst fin) sfin && vclose (snd fin) rfin
      && args_ok act (act_args e c (s0, r0) xs)
      && match Wfb with Some _ => args_ok fbact fbs | None => true end
  end.

(* initialisation conventions alone (also the rejected shapes: expect None) *)
Definition chk_init (input_bias : bool) (Win_arg : list (list Q)) (bias_arg : list Q) (in_dim : nat)
    (obs : option (list (list Q) * list Q)) : bool :=
  match init_win_bias input_bias Win_arg bias_arg in_dim, obs with
  | Some (Win, bias), Some (oW, ob) => mclose Win oW && vclose bias ob
  | None, None => true
  | _, _ => false
  end.

(* C15: two trajectories of the same reservoir on the same input from two start states.  The model must reproduce both,
   and on the model's own numbers  |x1[t]-x2[t]|^2 <= rho^2 |x1[t-1]-x2[t-1]|^2  at every step, rho = (1-lr) + lr*sigma,
   and (when [box]) every component stays in [-1,1].
   [sigma] is certified inside Coq: sigma >= 0 and sigma^2 >= the squared Frobenius norm of W. *)
Definition dist2 (a b : list Q) : Q := vnorm2 (vsub a b).
Definition frob2 (W : list (list Q)) : Q := fold_right (fun row acc => Qred (vnorm2 row + acc)) 0%Q W.
Fixpoint contracting (rho2 : Q) (prev : Q) (ds : list Q) : bool :=
  match ds with
  | [] => true
  | d :: ds' => Qle_bool d (Qred (rho2 * prev)) && contracting rho2 d ds'
  end.
Definition in_box (v : list Q) : bool := forallb (fun x => Qle_bool (-(1)) x && Qle_bool x 1) v.
Definition chk_pair (W Win : list (list Q)) (bias : list Q) (lr sigma : Q) (act : actc) (box : bool)
    (ra rb : list Q) (us : list (list Q)) (outsa outsb : list (list Q)) : bool :=
  let c := mkcfg W Win bias None (LrS lr) act AId in
  let xs := map mkin (combine us (map (fun _ => []) us)) in
  let oa := run_outputs Internal c ([], ra) xs in
  let ob := run_outputs Internal c ([], rb) xs in
  let rho := Qred ((1 - lr) + lr * sigma) in
  mclose oa outsa && mclose ob outsb
  && Qle_bool 0 sigma && Qle_bool (frob2 W) (Qred (sigma * sigma))      (* sigma bounds the operator norm (C15_frobenius_bound) *)
  && Qle_bool 0 lr && Qle_bool lr 1
  && contracting (Qred (rho * rho)) (dist2 ra rb) (map (fun p => dist2 (fst p) (snd p)) (combine oa ob))
  && (negb box || (forallb in_box oa && forallb in_box ob)).
