(* C10 correspondence runner: model/Online.v executed at F := Q and compared with what reservoirpy returned. *)
From Coq Require Import List Arith Bool QArith.
From RV Require Import base.Num base.LA model.Online.
Import ListNotations.
Close Scope Q_scope.

Notation qv := (list Q).
Notation qm := (list (list Q)).

(* what is observed after one train call: returned outputs, Wout, bias (one row), P ([] for LMS),
   number of learning rates drawn so far from the schedule when it is observable (LMS with an explicit iterator) *)
Record obs := { o_out : qm; o_W : qm; o_b : qv; o_P : qm; o_cur : option nat }.

Definition same_rdo (s : rdo (F:=Q)) (o : obs) : bool :=
  mclose (Wout s) (o_W o) && vclose (bias s) (o_b o) && mclose (Pm s) (o_P o) && match o_cur o with Some n => cursor s =? n | None => true end.

(* a call is (fails?, samples).  A train call that raises (targets forgotten, wrong target / input width) performs
   no update: the model state, the schedule cursor included, is carried over unchanged and must still agree with
   what is observed on the node after the exception. *)
Fixpoint chk_calls (fwd : rdo (F:=Q) -> qv -> qv) (upd : rdo (F:=Q) -> qv -> qv -> qv -> rdo (F:=Q))
         (k : nat) (s : rdo (F:=Q)) (calls : list (bool * list (qv * qv))) (os : list obs) : bool :=
  match calls, os with
  | [], [] => true
  | (true, _) :: cs, o :: os' => same_rdo s o && chk_calls fwd upd k s cs os'
  | (false, c) :: cs, o :: os' =>
      let '(s1, outs) := train fwd upd k s c in
      mclose outs (o_out o) && same_rdo s1 o && chk_calls fwd upd k s1 cs os'
  | _, _ => false
  end.

(* RLS / FORCE(rule="rls"): fresh node, successive node.train(X_j, Y_j, learn_every=k) *)
Definition chk_rls (has_bias : bool) (idim odim : nat) (alpha : Q) (k : nat)
           (calls : list (bool * list (qv * qv))) (os : list obs) : bool :=
  chk_calls (readout_forward odim) (rls_update has_bias) k (rls_init has_bias idim odim alpha) calls os.

(* LMS / FORCE(rule="lms") *)
Definition chk_lms (sc : list Q * Q) (has_bias : bool) (idim odim : nat) (k : nat)
           (calls : list (bool * list (qv * qv))) (os : list obs) : bool :=
  chk_calls (readout_forward odim) (lms_update sc has_bias) k (lms_init idim odim) calls os.

(* IPReservoir.fit: one record per reservoir call, in the order the model prescribes
   (warm-up calls of every sequence, then epochs x sequences x timesteps).
   (learn?, u, observed pre-activation state, observed output, observed a and b AFTER the step).
   The model state is re-synchronised on the observed values after each step (they were just checked to agree),
   so that tanh / sigmoid never have to be evaluated: the activation value is an input of the gradient. *)
Definition iprec := (bool * qv * qv * qv * qv * qv)%type.
Fixpoint chk_ip_trace (c : ipcfg (F:=Q)) (st : ipst (F:=Q)) (recs : list iprec) : bool :=
  match recs with
  | [] => true
  | (learn, u, x, y, a, b) :: rest =>
      let st1 := if learn then ip_step_y c st u y
                 else {| ia := ia st; ib := ib st; iout := y; iint := res_pre c st u |} in
      vclose (iint st1) x && vclose (ia st1) a && vclose (ib st1) b &&
      chk_ip_trace c {| ia := a; ib := b; iout := y; iint := x |} rest
  end.
(* the order of the reservoir calls of fit(X, warmup=w) with [epochs]: list of (learn?, u) *)
Definition ip_schedule (epochs warmup : nat) (seqs : list (list qv)) : list (bool * qv) :=
  concat (map (fun s => map (fun u => (false, u)) (firstn warmup s)) seqs) ++
  concat (repeat (concat (map (fun s => map (fun u => (true, u)) (skipn warmup s)) seqs)) epochs).
Definition qv_eqb (a b : qv) : bool := (length a =? length b) && forallb (fun p => Qeq_bool (fst p) (snd p)) (combine a b).
Fixpoint sched_ok (sch : list (bool * qv)) (recs : list iprec) : bool :=
  match sch, recs with
  | [], [] => true
  | (l, u) :: sch', (l', u', _, _, _, _) :: recs' => Bool.eqb l l' && qv_eqb u u' && sched_ok sch' recs'
  | _, _ => false
  end.
Definition chk_ip (W Win : qm) (bias : qv) (lr : Q) (tanh_rule : bool) (mu sigma eta : Q)
           (epochs warmup : nat) (seqs : list (list qv)) (recs : list iprec) (a_fin b_fin : qv) : bool :=
  let c := {| cW := W; cWin := Win; cbias := bias; clr := lr; ctanh := tanh_rule; cmu := mu; csigma := sigma; ceta := eta |} in
  sched_ok (ip_schedule epochs warmup seqs) recs &&
  chk_ip_trace c (ip_init (length W)) recs &&
  match rev recs with
  | [] => vclose (vones (length W)) a_fin && vclose (vzeros (length W)) b_fin
  | (_, _, _, _, a, b) :: _ => qv_eqb a a_fin && qv_eqb b b_fin
  end.
