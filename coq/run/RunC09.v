(* C09 correspondence runner: model/BatchAcc.v and model/Conc.v executed at F := Q and compared with what reservoirpy
   produced (buffers read with get_buffer, learned Wout/bias, traces of the accumulation section, ESN.run outputs). *)
From Coq Require Import List Arith Bool QArith.
From RV Require Import base.Num base.LA model.Conc model.BatchAcc.
Import ListNotations.
Close Scope Q_scope.

Notation qrow := (list Q * list Q)%type.

(* buffers after the given partial_fit calls (batches = list of calls, each a list of sequences of rows) *)
Definition chk_buffers (bias : bool) (din dout warmup : nat) (batches : list (list (list qrow)))
           (obsXXT obsYXT : list (list Q)) : bool :=
  mclose (XXT_of bias din warmup batches) obsXXT && mclose (YXT_of bias din dout warmup batches) obsYXT.

(* ridge solution from the model buffers: (XXT + ridge I) W = YXT^T solved exactly over Q (LA.qsolve), first row = bias.
   obsW is (din x dout), obsB is (1 x dout) (ignored when bias = false). *)
Definition model_solution (bias : bool) (din dout warmup : nat) (batches : list (list (list qrow))) (ridge : Q)
  : option (list (list Q)) :=
  let n := if bias then S din else din in
  let XX := XXT_of bias din warmup batches in
  let YX := YXT_of bias din dout warmup batches in
  qsolve (madd XX (mscale ridge (eye n))) (transpose YX n).
Definition chk_solution (bias : bool) (din dout warmup : nat) (batches : list (list (list qrow))) (ridge : Q)
           (obsW obsB : list (list Q)) : bool :=
  match model_solution bias din dout warmup batches ridge with
  | Some W => if bias then mclose (tl W) obsW && mclose (firstn 1 W) obsB else mclose W obsW
  | None => false
  end.
(* several observed solutions (different presentations / worker counts / backends) of the same data set *)
Definition chk_solutions (bias : bool) (din dout warmup : nat) (batches : list (list (list qrow))) (ridge : Q)
           (obs : list (list (list Q) * list (list Q))) : bool :=
  match model_solution bias din dout warmup batches ridge with
  | Some W => forallb (fun o => if bias then mclose (tl W) (fst o) && mclose (firstn 1 W) (snd o) else mclose W (fst o)) obs
  | None => false
  end.

(* replay of an observed schedule of the accumulation section through model/Conc.v with matrix contributions:
   task w adds the Gram matrices of its (already warm-up-stripped) rows; all tasks must end Done and the final
   buffers must be the observed ones. *)
Definition chk_sched (use_lock bias : bool) (din dout : nat) (tasks : list (list qrow)) (sched : list nat)
           (obsXXT obsYXT : list (list Q)) : bool :=
  let n := if bias then S din else din in
  let c := fun w => XXT_of bias din 0 [[nth w tasks []]] in
  let d := fun w => YXT_of bias din dout 0 [[nth w tasks []]] in
  let s := run (@madd Q _) use_lock c d (init (mzeros n n) (mzeros dout n)) sched in
  forallb (fun w => w <? length tasks) sched && all_done (length tasks) s
  && mclose (XXT s) obsXXT && mclose (YXT s) obsYXT.

(* ESN.run on a list: the (idx, output) pairs in some arrival order, sorted and unpacked, are the observed outputs *)
Fixpoint lmclose (a b : list (list (list Q))) : bool :=
  match a, b with
  | [], [] => true
  | x :: a', y :: b' => mclose x y && lmclose a' b'
  | _, _ => false
  end.
Definition chk_order (arrived : list (nat * list (list Q))) (obs : list (list (list Q))) : bool :=
  lmclose (sort_and_unpack arrived) obs.
