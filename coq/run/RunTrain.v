(* Correspondence runner for model/TrainModel.v: a history of Model.train calls on one model is executed at F := Q and
   compared with what reservoirpy returned: per-step states of every node (return_states="all"), the states of all nodes
   after each call, and Wout / bias / P of every online readout after each call. *)
From Coq Require Import List Arith Bool QArith.
From RV Require Import base.Num base.LA model.ModelSem model.Kinds model.Online model.TrainModel run.RunModel.
Import ListNotations.
Close Scope Q_scope.

Notation qm := (list (list Q)).

(* an online readout: node id, rule, input / output dimension, target source, and P's alpha for RLS (unused for LMS) *)
Record srdo := mkSR { srid : nat; srule : rule (F:=Q); sridim : nat; srodim : nat; srtgt : tsrc; sralpha : Q }.

Definition to_rspec (r : srdo) : rspec (F:=Q) := mkRS (srid r) (srule r) (srodim r) (srtgt r).
Definition init_rdo (r : srdo) : rdo (F:=Q) :=
  match srule r with
  | RuleRLS hb => rls_init hb (sridim r) (srodim r) (sralpha r)
  | RuleLMS _ _ => lms_init (sridim r) (srodim r)
  end.
Definition init_params (rds : list srdo) : params (F:=Q) :=
  fun n => match find (fun r => Nat.eqb (srid r) n) rds with
           | Some r => init_rdo r
           | None => lms_init 0 0
           end.

(* one train call: learn_every, force_teachers, reset, per step (external inputs per node id, array targets per readout id) *)
Record tcall := mkTC { ck : nat; cforce : bool; creset : bool; csteps : list (list (nat * qv) * list (nat * qv)) }.
(* observed: per step the states of the nodes (id, value); after the call the states of the nodes and (id, Wout, bias, P) *)
Record tobs := mkTO { to_steps : list (list (nat * qv)); to_states : list (nat * qv); to_params : list (nat * qm * qv * qm) }.

Definition to_tstep (p : list (nat * qv) * list (nat * qv)) : tstep (F:=Q) := mkTS (assoc (fst p)) (assoc (snd p)).

Definition row_ok (ids : list nat) (row : list qv) (o : list (nat * qv)) : bool :=
  (length o =? length ids) &&
  forallb (fun p => match assoc o (fst p) with Some v => vclose (snd p) v | None => false end) (combine ids row).
Fixpoint rows_ok (ids : list nat) (rows : list (list qv)) (os : list (list (nat * qv))) : bool :=
  match rows, os with
  | [], [] => true
  | r :: rows', o :: os' => row_ok ids r o && rows_ok ids rows' os'
  | _, _ => false
  end.
Definition params_ok (P : params (F:=Q)) (l : list (nat * qm * qv * qm)) : bool :=
  forallb (fun p => let '(n, W, b, Pm_) := p in
                    mclose (Wout (P n)) W && vclose (bias (P n)) b && mclose (Pm (P n)) Pm_) l.

Fixpoint chk_tcalls (tm : tmodel (F:=Q)) (l : list (tcall * tobs)) (eP : env (F:=Q) * params (F:=Q)) : bool :=
  match l with
  | [] => true
  | (c, o) :: rest =>
      let '(e1, P1, outs, ok) := train_call tm (ck c) (cforce c) (creset c) (map to_tstep (csteps c)) eP in
      ok && rows_ok (map nid (order (base tm))) outs (to_steps o) && states_ok e1 (to_states o) && params_ok P1 (to_params o)
         && chk_tcalls tm rest (e1, P1)
  end.

Definition chk_train (nodes : list snode) (sm : smodel) (rds : list srdo) (l : list (tcall * tobs)) : bool :=
  is_topo (assoc_list (mparents sm)) [] (morder sm) &&
  (length (order (to_model nodes sm)) =? length (morder sm)) &&
  chk_tcalls (mkTM (to_model nodes sm) (map to_rspec rds)) l (init_env nodes, init_params rds).

(* debugging aid: what the model computes *)
Fixpoint dbg_tcalls (tm : tmodel (F:=Q)) (l : list tcall) (eP : env (F:=Q) * params (F:=Q))
  : list (bool * list (list qv) * list (nat * qm * qv)) :=
  match l with
  | [] => []
  | c :: rest =>
      let '(e1, P1, outs, ok) := train_call tm (ck c) (cforce c) (creset c) (map to_tstep (csteps c)) eP in
      (ok, outs, map (fun r => (rid r, Wout (P1 (rid r)), bias (P1 (rid r)))) (readouts tm)) :: dbg_tcalls tm rest (e1, P1)
  end.
Definition dbg_train (nodes : list snode) (sm : smodel) (rds : list srdo) (l : list tcall) :=
  dbg_tcalls (mkTM (to_model nodes sm) (map to_rspec rds)) l (init_env nodes, init_params rds).
