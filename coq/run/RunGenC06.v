(* C06, tie (T), dynamic validation of the translator: get_offline_subgraphs (with _get_required_nodes, _get_links,
   find_entries_and_exits, find_parents_and_children) GENERATED from reservoirpy/utils/graphflow.py (coq/gen/Gen_staging.v) is
   executed by vm_compute on graphs on which the harness has just called the REAL get_offline_subgraphs -- the models of the
   correspondence scenarios and random DAGs of Node / Ridge / RLS objects given to the function directly (no offline node:
   IndexError) -- and compared with what the real function returned: for every stage the node LIST and the edge LIST exactly,
   the relations dictionary as a set of (name, [names]) entries (its order is the iteration order of a Python set).
   Separate from run/RunC06.v so that a rejected translation does not take the hand-model correspondence down.
   Parameters of the generated code: [sortedE] = the name-sorted edge list computed by the harness with Python's own `sorted`
   (checked to be a permutation of E), set iteration = representation order, attributes = membership in [offl] / [onl]. *)
From Coq Require Import List Arith Bool.
From RV Require Import base.PyColl base.PyColl2 gen.Gen_staging model.FitSem.
Import ListNotations.

Definition idn : nat -> list nat -> list nat := fun _ s => s.
Fixpoint nl_eqb (a b : list nat) : bool :=
  match a, b with
  | [], [] => true
  | x :: a', y :: b' => Nat.eqb x y && nl_eqb a' b'
  | _, _ => false
  end.
Definition e_eqb (a b : nat * nat) : bool := Nat.eqb (fst a) (fst b) && Nat.eqb (snd a) (snd b).
Fixpoint el_eqb (a b : list (nat * nat)) : bool :=
  match a, b with
  | [], [] => true
  | x :: a', y :: b' => e_eqb x y && el_eqb a' b'
  | _, _ => false
  end.
Definition ent_eqb (a b : nat * list nat) : bool := Nat.eqb (fst a) (fst b) && nl_eqb (snd a) (snd b).
(* dictionaries: same entries, keys distinct on both sides *)
Fixpoint keys_nodup (l : list (nat * list nat)) : bool :=
  match l with [] => true | x :: r => negb (existsb (fun y => Nat.eqb (fst x) (fst y)) r) && keys_nodup r end.
Definition dict_eqb (a b : list (nat * list nat)) : bool :=
  Nat.eqb (length a) (length b) && keys_nodup a && keys_nodup b && forallb (fun x => existsb (ent_eqb x) b) a.
Definition eperm_b2 (a b : list (nat * nat)) : bool :=
  Nat.eqb (length a) (length b) && forallb (fun x => existsb (e_eqb x) b) a && forallb (fun x => existsb (e_eqb x) a) b.

Definition stage_t := (list nat * list (nat * nat) * list (nat * list nat))%type.
Fixpoint stages_eqb (a b : list stage_t) : bool :=
  match a, b with
  | [], [] => true
  | (n1, e1, r1) :: a', (n2, e2, r2) :: b' => nl_eqb n1 n2 && el_eqb e1 e2 && dict_eqb r1 r2 && stages_eqb a' b'
  | _, _ => false
  end.
Definition exc_eqb2 (a b : pyexc) : bool :=
  match a, b with
  | RuntimeError, RuntimeError | KeyError, KeyError | ValueError, ValueError | IndexError, IndexError | TypeError, TypeError => true
  | _, _ => false
  end.

(* get_offline_subgraphs(V, E) returned / raised [res]; offl / onl: the nodes with is_trained_offline / is_trained_online *)
Definition chk_gen_staging (V : list nat) (E sortedE : list (nat * nat)) (offl onl : list nat) (res : py (list stage_t)) : bool :=
  eperm_b2 sortedE E &&
  match GenStaging.get_offline_subgraphs idn (fun _ => sortedE) (fun n => mem n offl) (fun n => mem n onl)
          (S (S (length V))) V E, res with
  | Val out, Val obs => stages_eqb out obs
  | Exc a, Exc b => exc_eqb2 a b
  | _, _ => false
  end.

(* the same graph through the hand-written model (edges in name order, FitSem's convention): the three agree *)
Definition chk_gen_vs_model (V : list nat) (sortedE : list (nat * nat)) (offl : list nat) : bool :=
  match GenStaging.get_offline_subgraphs idn (fun _ => sortedE) (fun n => mem n offl) (fun _ => false)
          (S (S (length V))) V sortedE,
        FitSem.get_offline_subgraphs (mkG V sortedE offl) with
  | Val out, Some stg => stages_eqb out (map (fun s => (s_nodes s, s_edges s, s_rel s)) stg)
  | Exc IndexError, None => true
  | _, _ => false
  end.
