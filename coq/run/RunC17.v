(* C17 correspondence runner: the model is executed at F := Q and compared with what reservoirpy returned. *)
From Coq Require Import List Arith Bool QArith.
From Coq Require String.
From RV Require Import base.Num base.LA model.Windows.
Import ListNotations.
Close Scope Q_scope.

Definition lnat_eqb (a b : list nat) : bool :=
  (length a =? length b) && forallb (fun p => fst p =? snd p) (combine a b).
Definition llnat_eqb (a b : list (list nat)) : bool :=
  (length a =? length b) && forallb (fun p => lnat_eqb (fst p) (snd p)) (combine a b).

(* Delay node: initial buffer, inputs, observed outputs, observed final buffer (left to right) *)
Definition chk_delay (init xs outs buf : list (list Q)) : bool :=
  let '(b, o) := delay_run (F:=Q) init xs in mclose o outs && mclose b buf.
(* NVAR node from a fresh store: observed outputs and final store *)
Definition chk_nvar (delay order strides dim : nat) (xs outs store : list (list Q)) : bool :=
  let '(s, o) := nvar_run (F:=Q) order strides (nvar_init delay strides dim) xs in mclose o outs && mclose s store.
(* itertools.combinations_with_replacement(range n, k) *)
Definition chk_cwr (n k : nat) (obs : list (list nat)) : bool := llnat_eqb (cwr n k) obs.
(* Concat node on a tuple of single rows *)
Definition chk_concat (data : list (list Q)) (obs : list Q) : bool := vclose (concat_forward data) obs.
(* a node fed by several parents inside a Model: parents given in link order *)
Definition chk_fanin (child : String.string) (parents : list (String.string * list Q)) (obs : list Q) : bool :=
  vclose (fanin_concat child parents) obs.
