(* C14 correspondence runner (relational): the harness runs a history on reservoirpy, hashes every produced array
   (SHA-256 of the dense float64 bytes) and interns the hashes to numbers (equal number <-> equal bytes).
   Coq executes the provenance model on the same history and checks, for every pair of produced arrays,
       equal provenance terms            ==> equal hashes
       terms rooted in different seeds   ==> different hashes        (must_differ, model/Prov.v)
   and that the model produced exactly the arrays the implementation produced (same tags, same order). *)
From Coq Require Import List Arith Bool.
From RV Require Import base.Num model.Prov.
Import ListNotations.

Definition pair_ok (a b : term * nat) : bool :=
  (if term_eqb (fst a) (fst b) then snd a =? snd b else true)
  && (if must_differ (fst a) (fst b) then negb (snd a =? snd b) else true).
Fixpoint pairs_ok (l : list (term * nat)) : bool :=
  match l with
  | [] => true
  | a :: l' => forallb (pair_ok a) l' && pairs_ok l'
  end.
Fixpoint tags_ok (evs : list event) (obs : list (nat * nat * nat)) : bool :=
  match evs, obs with
  | [], [] => true
  | e :: evs', (nd, tag, _) :: obs' =>
      (e_tag e =? tag) && (match e_node e with Some i => S i =? nd | None => nd =? 0 end) && tags_ok evs' obs'
  | _, _ => false
  end.

(* k: name of the entropy root of this history; dflt: datasets default seed at its start;
   obs: (node id + 1 or 0, tag, interned hash) per produced array, in order *)
Definition chk_history (k : nat) (h : list op) (obs : list (nat * nat * nat)) : bool :=
  let evs := snd (exec (init_state k) h) in
  tags_ok evs obs && pairs_ok (combine (map e_term evs) (map snd obs)).

(* number of pairs on which the model makes a claim (for the non-triviality count) *)
Fixpoint claims (l : list term) : nat * nat :=
  match l with
  | [] => (0, 0)
  | a :: l' => let '(e, d) := claims l' in
               (e + length (filter (term_eqb a) l'), d + length (filter (must_differ a) l'))
  end.
Definition history_claims (k : nat) (h : list op) : nat * nat := claims (map e_term (snd (exec (init_state k) h))).
