(* C03 correspondence runner: the graph model is executed by vm_compute on the same expression / digraph that was
   built with the real library; everything except the execution order is compared as sets; the observed execution
   order is checked to be a valid topological order of the observed graph (Python set iteration order is not modelled). *)
From Coq Require Import List Arith Bool.
From RV Require Import model.Graph.
Import ListNotations.

Fixpoint enodupb (l : list edge) : bool :=
  match l with [] => true | x :: l' => negb (emem x l') && enodupb l' end.

(* type(node) is Concat: automatically inserted Concats have ids >= B, user-made Concat nodes are listed *)
Definition mk_isc (B : nat) (ucat : list node) : node -> bool := fun n => (B <=? n) || mem n ucat.

(* observation: None = construction raised RuntimeError("Model has a cycle ...");
   Some (model.nodes in order, model.edges, model.input_nodes, model.output_nodes) *)
Definition observation := option (list node * list edge * list node * list node).

Definition chk_expr (B fb : nat) (ucat : list node) (e : expr) (obs : observation) : bool :=
  match eval (mk_isc B ucat) fb e, obs with
  | ErrCycle, None => true
  | Ok v, Some (ord, E, ins, outs) =>
      set_eqb (v_nodes v) ord && nodupb ord && nodupb (v_nodes v)
      && eset_eqb (v_edges v) E && enodupb E && enodupb (v_edges v)
      && set_eqb (v_ins v) ins && nodupb ins
      && set_eqb (v_outs v) outs && nodupb outs
      && is_topo ord E                       (* the OBSERVED order is a topological order of the OBSERVED graph *)
      && is_topo (v_nodes v) (v_edges v)     (* and so is the model's own (possibly different) order *)
  | _, _ => false
  end.


(* `v &= bs` on a model object: [eold] denotes the object before, [t] the Concats observed for the update,
   [ret] what the statement returned (None: cycle RuntimeError), [after] the object re-observed afterwards *)
Definition obs_eq (v : value) (o : list node * list edge * list node * list node) : bool :=
  let '(ord, E, ins, outs) := o in
  set_eqb (v_nodes v) ord && nodupb ord && eset_eqb (v_edges v) E && enodupb E
  && set_eqb (v_ins v) ins && nodupb ins && set_eqb (v_outs v) outs && nodupb outs.
Definition chk_update (B fb : nat) (ucat : list node) (eold : expr) (t : table) (bs : list expr)
    (ret : observation) (after : list node * list edge * list node * list node) : bool :=
  let isc := mk_isc B ucat in
  match eval isc fb eold, sequence (map (eval isc fb) bs) with
  | Ok (VModel m), Ok vb =>
      let '(r, st) := update_graph isc (naming fb t) m vb in
      obs_eq (VModel st) after &&
      match r, ret with
      | Ok m', Some o => obs_eq (VModel m') o
      | ErrCycle, None => true
      | _, _ => false
      end
  | _, _ => false
  end.
