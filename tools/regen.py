"""Regenerate every translated Gallina file (coq/gen/*.v) from /repo's current source: calls pregen() of each property module."""
import importlib, os, sys, glob
sys.path.insert(0, os.path.dirname(os.path.abspath(__file__)))
from vlib import core
bad = 0
for f in sorted(glob.glob(os.path.join(os.path.dirname(os.path.abspath(__file__)), "props", "c*.py"))):
    pid = os.path.basename(f)[:-3].upper()
    mod = importlib.import_module("props.%s" % pid.lower())
    if hasattr(mod, "pregen"):
        err = mod.pregen(core.Ctx(pid, "quick", 0))
        print("regen", pid, "FAILED: %s" % err if err else "ok")
        bad += bool(err)
sys.exit(1 if bad else 0)
