"""C16 — copies and saved models behave like the original and share nothing with it.

correspondence: (a) random DAG / feedback / single-node scenarios (vlib.scen) are run for a while, copied (copy.deepcopy,
pickle round trip, Node.copy), one side is then destroyed in place (every array overwritten, states overwritten, extra runs)
while the other side replays further operations; the structural facts (names, registry keys, feedback senders, array sharing)
are compared with the object-store model (run/RunC16.v chk_copy_model / chk_node_copy) and the numeric behaviour of the
surviving side with run/RunModel.v chk_hist (the copy must continue the original's history).  (b) legacy ESNs are saved, loaded
and converted; the Q model (legacy recurrence, conversion function, v0.3 recurrence; tanh replayed through a recorded table)
must reproduce the three observed trajectories and the converted arrays.
oracle: the property's statement decided directly on the real objects (no Coq)."""
import copy
import gc
import itertools
import os
import pickle
import shutil
import tempfile
import warnings
from fractions import Fraction

import numpy as np

from vlib import core, scen, scengen
from vlib.core import q, qvec, qmat, nat, coqbool, coqstr, coqlist

IMPORTS = ("From Coq Require Import List QArith String.\nFrom RV Require Import base.Num model.Store model.ModelSem model.Kinds "
           "run.RunModel run.RunC16.\nImport ListNotations.\nOpen Scope Q_scope.")
TRUSTED = [
    "copy.deepcopy / pickle are modelled by their memo-table semantics (every object reachable from the root copied once, sharing "
    "inside the copied graph preserved); np.save / np.load / scipy save_npz / json / dill round trips of the legacy format are oracles "
    "(compared on every legacy scenario, not modelled)",
    "closedness of the reachable set computed by the model's fuelled depth-first search is re-checked by closedb on every scenario "
    "(it is a hypothesis of C16_copy_disjoint / C16_copy_same_outputs)",
    "legacy activation is np.tanh (the only one compat.load restores): replayed in the Q model through a table of (argument, result) "
    "pairs recorded from np.tanh along the run, so Coq checks the linear parts, the leak and the conversion, not tanh itself",
]
ASSUMPTIONS = ["noise gains are 0 in legacy scenarios (the theorem is stated for noise 0)",
               "pickle round trips are done in the same process; which names are taken when the bytes are loaded is part of the scenario "
               "(originals alive, Model object collected, everything collected and the model's name taken by another Model) and is read from "
               "the class registries just before loading",
               "pickle scenarios use only picklable node kinds (no closures): Reservoir / Ridge / Delay / NVAR / Input / Output"]

warnings.filterwarnings("ignore")
_uid = itertools.count()


# picklable exactly computable activations (scen.ACTS holds lambdas, which pickle refuses)
def act_id(x):
    return x


def act_relu(x):
    return np.maximum(x, 0.0)


def act_hardtanh(x):
    return np.clip(x, -1.0, 1.0)


def act_half(x):
    return x / 2.0


scen.ACTS.update({"id": act_id, "relu": act_relu, "hardtanh": act_hardtanh, "half": act_half})


# USER feedback functions of the legacy scenarios.  They deliberately carry the NAMES of library activations while computing
# something else (the saved model records `fbfunc.__name__`; what must be restored is the function, not its name).
def sigmoid(x):
    return x / 2.0


def softmax(x):
    return np.maximum(x, 0.0)


fb_half, fb_relu = sigmoid, softmax
FBF = {"id": None, "half": fb_half, "relu": fb_relu}
FBK = {"id": "GId", "half": "GHalf", "relu": "GRelu"}
PICKLABLE = ("res", "resext", "resfb", "lin", "delay", "nvar", "input", "output")


def rpy():
    import reservoirpy
    reservoirpy.verbosity(0)
    return reservoirpy


def jsonable(x):
    return scen.jsonable(x)


# ------------------------------------------------------------------------------------------ object graph helpers
def senders_of(node):
    fb = getattr(node, "_feedback", None)
    if fb is None:
        return []
    s = fb._sender
    return list(s.nodes) if hasattr(s, "nodes") else [s]


def arrays_of(node):
    """Every mutable array a node owns: params (dense, sparse data, deque buffers) and its state."""
    out = []
    for k, v in sorted(getattr(node, "_params", {}).items()):
        if isinstance(v, np.ndarray):
            out.append((k, v))
        elif hasattr(v, "data") and hasattr(v, "tocsr") and isinstance(v.data, np.ndarray):
            out.append((k, v.data))
        elif hasattr(v, "__iter__") and not isinstance(v, (str, dict)) and not hasattr(v, "nodes"):
            try:
                for j, e in enumerate(v):
                    if isinstance(e, np.ndarray):
                        out.append(("%s[%d]" % (k, j), e))
            except TypeError:
                pass
    st = getattr(node, "_state", None)
    if isinstance(st, np.ndarray):
        out.append(("_state", st))
    return out


def shares(a, b):
    return any(np.shares_memory(x, y) for _, x in arrays_of(a) for _, y in arrays_of(b))


def equal_contents(a, b):
    xa, xb = arrays_of(a), arrays_of(b)
    return [k for k, _ in xa] == [k for k, _ in xb] and all(x.shape == y.shape and np.array_equal(x, y) for (_, x), (_, y) in zip(xa, xb))


def destroy(nodes, rng):
    """Overwrite in place every array owned by the nodes."""
    for n in nodes:
        for k, a in arrays_of(n):
            if a.flags.writeable and a.size:
                a *= 3.0
                a += 1.0 + rng.random()


def snapshot(nodes):
    return [[(k, a.tobytes()) for k, a in arrays_of(n)] for n in nodes]


# ------------------------------------------------------------------------------------------ running ops on a (view of a) scenario
class View:
    """Quacks like scen.Built: some objects (copies, rebuilt or extended models) under the ids of the scenario."""
    nid = scen.Built.nid
    all_nodes = scen.Built.all_nodes
    model_struct = scen.Built.model_struct

    def __init__(self, sc, prefix, nodes, extra, models):
        self.sc, self.prefix = sc, prefix
        self.nodes, self.extra, self.extra_dim = dict(nodes), dict(extra), {}
        self.models = list(models)
        self.ids = {n.name: i for i, n in list(self.nodes.items()) + list(self.extra.items())}


def run_ops(b, ops):
    """scen.run_history's loop, on an existing Built / View."""
    obs = []
    for o in ops:
        m = b.models[o["model"]]
        is_model = hasattr(m, "nodes")
        ok, outs, err = True, [], None
        try:
            if o["op"] == "reset":
                m.reset()
            else:
                kw = dict(stateful=o.get("stateful", True), reset=o.get("reset", False))
                if o.get("from_state"):
                    if is_model:
                        kw["from_state"] = {b.all_nodes()[int(i)].name: scen.fl([v]) for i, v in o["from_state"].items()}
                    else:
                        kw["from_state"] = scen.fl([list(o["from_state"].values())[0]])
                if o["op"] == "run":
                    res = m.run(scen._x_arg(b, o["model"], o["X"]), **kw)
                else:
                    res = m.call(scen.fl([o["x"]]), **kw)
                _, _, mouts = b.model_struct(o["model"])
                arrs = [np.asarray(res[b.all_nodes()[i].name]) for i in mouts] if isinstance(res, dict) else [np.asarray(res)]
                T = arrs[0].reshape(-1, arrs[0].shape[-1]).shape[0]
                arrs = [a.reshape(T, -1) for a in arrs]
                outs = [[a[t].tolist() for a in arrs] for t in range(T)]
        except Exception as e:  # noqa: BLE001
            ok, err = False, type(e).__name__
        for mi in range(len(b.models)):
            b.model_struct(mi)
        states = {}
        for i, n in b.all_nodes().items():
            s = n.state() if getattr(n, "is_initialized", False) else None
            if s is not None:
                states[i] = np.asarray(s, dtype=float).ravel().tolist()
        obs.append({"ok": ok, "err": err, "outs": outs, "states": states})
    return obs


# ------------------------------------------------------------------------------------------ scenarios: copies
def gen_ops(rng, din, odim, single, n, stateless_ok=True):
    ops = []
    for _ in range(n):
        r = rng.random()
        if r < 0.1:
            ops.append({"op": "reset", "model": 0})
            continue
        o = {"model": 0, "stateful": (rng.random() < 0.6) or not stateless_ok, "reset": rng.random() < 0.15}
        if rng.random() < 0.2:
            ids = [0] if single else rng.sample(sorted(odim), rng.randint(1, len(odim)))
            o["from_state"] = {str(j): scengen.rows(rng, 1, odim[j])[0] for j in ids}
        if rng.random() < 0.25:
            o.update(op="call", x=scengen.rows(rng, 1, din)[0])
        else:
            o.update(op="run", X=scengen.rows(rng, rng.randint(1, 4), din))
        ops.append(o)
    return ops


# (how the copy is made, how the copied object was prepared).  Names are renamed PER OBJECT, by the registry of its class:
#   pickle_gc      the bytes are kept, the Model object is deleted and collected (its name is free), its nodes stay alive
#   pickle_gc_all  model and nodes are collected (node names free), another Model takes the model's name
#   extend         the copied object is itself an (unregistered) deep copy, extended in place (&=) with a fresh, registered node
#   rebuild_unreg  a registered Model built from unregistered deep copies of the nodes
VARIANTS = [("deepcopy", None), ("pickle", None), ("pickle_gc", None), ("deepcopy", "extend"), ("nodecopy", None), ("deepcopy", None),
            ("pickle_gc_all", None), ("deepcopy", "rebuild_unreg"), ("pickle", "extend"), ("nodecopy", None), ("pickle", "rebuild_unreg"),
            ("pickle_gc", "extend"), ("deepcopy", None), ("pickle", None)]


def gen_straddle(rng):
    """receiver <<= (n2 >> n3) where n2 belongs to the running model and n3 does not: the sender sub-model straddles the model
    (its reduced form is the single distant node n3).  Not modelled by ModelSem: structure in Coq, behaviour by the oracle."""
    d = rng.randint(1, 2)
    recv = scengen.make_node(rng, 1, "fbadd", d)
    recv["fb"] = {"model": {"nodes": [2, 3], "edges": [[2, 3]], "outs": [3]}}
    nodes = [scengen.make_node(rng, 0, "fun", d), recv, scengen.make_node(rng, 2, rng.choice(["fun", "acc"]), d), scengen.make_node(rng, 3, "fun", d)]
    return nodes, [{"nodes": [0, 1, 2], "edges": [[0, 1], [1, 2]]}], d


def gen_copy_scenario(rng, i, force_fam=None):
    i = i if isinstance(i, int) else rng.randrange(1000)
    how, prep = VARIANTS[i % len(VARIANTS)]
    if force_fam == "straddle":
        how, prep = "deepcopy", None
    k = 2 * (i // len(VARIANTS)) + (1 if i % len(VARIANTS) > 4 else 0)      # Node.copy variants are enumerated, not drawn
    pick = how.startswith("pickle")
    if how == "nodecopy":
        fam = ["fbrecv", "single"][k % 2]
    elif prep or how in ("pickle_gc", "pickle_gc_all"):
        fam = "dag" if (prep or rng.random() < 0.6) else "fb"
    else:
        fam = rng.choice(["dag", "dag", "fb", "single"] + (["straddle"] if how == "deepcopy" else []))
    fam = force_fam or fam
    pre = []
    if fam == "straddle":
        nodes, models, din = gen_straddle(rng)
    elif fam == "dag":
        kinds = ["res", "lin", "resext", "delay", "nvar", "res"] if pick else None
        nodes, edges, entries, din = scengen.gen_dag(rng, n=rng.randint(2, 5), kinds=kinds)
        models = scengen.chain_models(nodes, edges)
    elif fam in ("fb", "fbrecv"):
        sk = scengen.gen_fb(rng, "resfb" if pick else rng.choice(["down", "up", "outside", "sub-up", "sub-down", "resfb"]))
        nodes, models, din, pre = sk["nodes"], sk["models"], sk["dim"], list(sk["pre"])
    else:
        kinds = ["res", "resext", "delay", "nvar", "lin"] + ([] if pick else ["fun", "acc"])
        din = rng.randint(1, 2)
        nodes = [scengen.make_node(rng, 0, rng.choice(kinds), din)]
        models = [{"nodes": [0], "edges": []}]
    single = fam == "single"
    if pick and any(nd["kind"] not in PICKLABLE for nd in nodes):
        how = {"pickle": "deepcopy", "pickle_gc": "deepcopy", "pickle_gc_all": "deepcopy"}[how]   # closures cannot be pickled
    ext = None
    if prep == "extend":
        t = rng.choice([nd["id"] for nd in nodes])
        e = scengen.make_node(rng, len(nodes), "lin", nodes[t]["odim"])
        nodes = nodes + [e]
        models = models + [{"nodes": [e["id"]], "edges": []}]
        ext = {"tail": t, "node": e["id"]}
    odim = {nd["id"]: nd["odim"] for nd in nodes}
    sc = {"family": "copy", "shape": fam, "how": how, "prep": prep, "ext": ext, "nodes": nodes, "models": models, "din": din, "tag": i,
          "kinds": sorted(set(nd["kind"] for nd in nodes)),
          "pre": pre + gen_ops(rng, din, odim, single, rng.randint(0, 3)),
          "post": gen_ops(rng, din, odim, single, rng.randint(2, 4)),
          "other": gen_ops(rng, din, odim, single, rng.randint(1, 2)),
          "side": "copy" if how in ("pickle_gc", "pickle_gc_all") else rng.choice(["copy", "orig"]), "seed": rng.randrange(10 ** 6)}
    if fam == "straddle":
        sc["pre"], sc["post"], sc["other"] = [], [], []          # behaviour of straddling senders is not modelled (oracle only)
    if how == "nodecopy":
        sc["copy_feedback"] = (k // 2) % 2 == 0
        sc["newname"] = "taken" if k % 5 == 4 else "fresh"
        if fam == "fbrecv":
            sc["target"] = sk["recv"]
            sc["post"], sc["other"] = [], []      # a lone copied receiver is not run (its sender lives in the original model)
        else:
            sc["target"] = 0
    sc["ops"] = []
    return sc


def pair_list(pairs):
    """id(original node) -> copied node, walking model.nodes and feedback senders in parallel."""
    mp, stack = {}, list(pairs)
    while stack:
        a, b = stack.pop()
        if hasattr(a, "nodes"):
            stack += list(zip(a.nodes, b.nodes))
            continue
        if id(a) in mp:
            continue
        mp[id(a)] = b
        fa, fbk = getattr(a, "_feedback", None), getattr(b, "_feedback", None)
        if fa is not None and fbk is not None:
            stack.append((fa._sender, fbk._sender))
    return mp


def view_sc(sc):
    """The scenario description of the prepared object (scen.Built.model_struct reads the exits from the description)."""
    if sc.get("prep") == "extend":
        md = sc["models"][0]
        full = {"nodes": list(md["nodes"]) + [sc["ext"]["node"]], "edges": [list(e) for e in md["edges"]] + [[sc["ext"]["tail"], sc["ext"]["node"]]]}
        return dict(sc, models=[full])
    return sc


def prepare(sc, b0):
    """The object that will be copied: the scenario's model 0 as built, or a model derived from it."""
    from reservoirpy.model import Model
    if sc.get("prep") == "rebuild_unreg":
        md = sc["models"][0]
        nc = {i: copy.deepcopy(n) for i, n in b0.nodes.items()}            # '<name>-(copy)', not registered
        m = Model([nc[i] for i in md["nodes"]], [(nc[a], nc[bb]) for a, bb in md["edges"]], name="%s_mu" % b0.prefix)
        return View(view_sc(sc), b0.prefix, nc, {}, [m])
    if sc.get("prep") == "extend":
        base, e = b0.models[0], b0.nodes[sc["ext"]["node"]]
        c1 = copy.deepcopy(base)                                           # model and nodes '-(copy)', none registered
        mp = pair_list([(base, c1)])
        nodes = {i: mp[id(n)] for i, n in b0.nodes.items() if id(n) in mp}
        if hasattr(c1, "nodes"):
            c1 &= (nodes[sc["ext"]["tail"]] >> e)                          # in place: update_graph
        else:
            c1 = c1 >> e
        nodes[sc["ext"]["node"]] = e
        return View(view_sc(sc), b0.prefix, nodes, {}, [c1])
    return b0


def capture(b):
    """Everything the structural comparison needs about the object about to be copied (no reference to the Model object)."""
    for mi in range(len(b.models)):
        b.model_struct(mi)
    m0 = b.models[0]
    allnodes = dict(b.all_nodes())
    info = {"cells": [(i, type(n), n.name, [b.nid(s) for s in senders_of(n)]) for i, n in sorted(allnodes.items())],
            "objs": allnodes, "is_model": hasattr(m0, "nodes")}
    if info["is_model"]:
        info.update(onodes=[b.nid(n) for n in m0.nodes], mname=m0.name, mtype=type(m0),
                    edges=[(b.nid(a), b.nid(bb)) for a, bb in m0.edges], oreg=[(k, b.nid(n)) for k, n in m0._node_registry.items()])
    else:
        info.update(onodes=[b.nid(m0)], mname="", mtype=None, edges=[], oreg=[(m0.name, b.nid(m0))])
    info["snap"] = {i: snapshot([allnodes[i]])[0] for i in info["onodes"]}
    return info


def do_copy(sc, b, info, holders):
    """Perform the copy.  Returns (copied root or None on NameError, {scenario id: copied object}, requested name)."""
    from reservoirpy.model import Model
    m0 = b.models[0]
    inv = {id(n): i for i, n in info["objs"].items()}
    how = sc["how"]
    if how in ("deepcopy", "pickle"):
        c = copy.deepcopy(m0) if how == "deepcopy" else pickle.loads(pickle.dumps(m0))
        return c, {inv[k]: v for k, v in pair_list([(m0, c)]).items() if k in inv}, None
    if how in ("pickle_gc", "pickle_gc_all"):
        blob = pickle.dumps(m0)
        keep = None
        for h in holders:                                 # drop every reference to the Model object
            h.models[0] = None
        if how == "pickle_gc_all":                        # ... and to the nodes
            for h in holders:
                h.nodes.clear()
                h.extra.clear()
            info["objs"] = {}
        del m0
        gc.collect()
        if how == "pickle_gc_all" and info["is_model"]:
            keep = Model(name=info["mname"])              # somebody else takes the model's name
        info["regd_now"] = registered_now(info)
        c = pickle.loads(blob)
        info["keep"] = keep
        cn = list(c.nodes) if hasattr(c, "nodes") else [c]
        return c, dict(zip(info["onodes"], cn)), None
    node = b.nodes[sc["target"]]
    name = node.name if sc["newname"] == "taken" else "%s_cp%d" % (node.name, next(_uid))
    try:
        c = node.copy(name=name, copy_feedback=sc["copy_feedback"])
    except NameError:
        return None, {}, name
    idmap = {sc["target"]: c}
    if sc["copy_feedback"] and getattr(node, "_feedback", None) is not None:
        sub = pair_list([(node._feedback._sender, c._feedback._sender)])
        sub.pop(id(node), None)      # a sender that reaches the node itself yields a second, unobservable copy of it
        idmap.update({inv[k]: v for k, v in sub.items() if k in inv})
    return c, idmap, name


def registered_now(info):
    """(class index, name) pairs that are in their class registry right now; the model's class is 99."""
    classes = {}
    out = []
    for i, t, nm, fb in info["cells"]:
        k = classes.setdefault(t.__name__, len(classes) + 1)
        if nm in t._registry:
            out.append((k, nm))
    if info["mtype"] is not None and info["mname"] in info["mtype"]._registry:
        out.append((99, info["mname"]))
    return out


def struct_term(sc, info, c, idmap, name):
    """Gallina term comparing the structure of the copy with the object-store model."""
    classes = {}
    cells = []
    for i, t, nm, fb in info["cells"]:
        k = classes.setdefault(t.__name__, len(classes) + 1)
        cells.append("(%s, %s, %s, %s)" % (nat(i), nat(k), coqstr(nm), coqlist([nat(j) for j in fb])))
    # the class registries as they were when the copy was restored
    regd = coqlist(["(%s, %s)" % (nat(k), coqstr(nm)) for k, nm in (info["regd_before"] if "regd_before" in info else info["regd_now"])])
    inv = {id(v): i for i, v in info["objs"].items()}                      # original object -> id
    cinv = {id(v): i for i, v in idmap.items()}                            # copied object -> id of its original

    def desc(p):
        if id(p) in inv:                        # it IS one of the original objects
            return "(false, %s)" % nat(inv[id(p)])
        if id(p) in cinv:                       # a distinct object, paired with original cinv[...]
            return "(true, %s)" % nat(cinv[id(p)])
        return "(true, %s)" % nat(99999)

    def shared(i, cobj):
        o = info["objs"].get(i)
        return o is not None and (o is cobj or shares(o, cobj))

    def equal(i, cobj):
        return snapshot([cobj])[0] == info["snap"][i]
    if sc["how"] == "nodecopy":
        t = sc["target"]
        if c is None:
            return "chk_node_copy %s %s %s %s %s false [] false false false" % (
                coqlist(cells), regd, nat(t), coqstr(name), coqbool(sc["copy_feedback"]))
        return "chk_node_copy %s %s %s %s %s true %s %s %s %s" % (
            coqlist(cells), regd, nat(t), coqstr(name), coqbool(sc["copy_feedback"]),
            coqlist([desc(p) for p in senders_of(c)]), coqbool(c.name in type(c)._registry), coqbool(shared(t, c)),
            coqbool(equal_contents(info["objs"][t], c) and c.name == name))
    if info["is_model"]:
        cnodes = list(c.nodes)
        o_mname = c.name
        o_reg = [(k, ([j for j, x in enumerate(cnodes) if x is n] + [len(cnodes)])[0]) for k, n in c._node_registry.items()]
        try:
            named = all(c.get_node(n.name) is n for n in cnodes)
        except Exception:  # noqa: BLE001
            named = False
    else:                                       # a bare node: an object holding one node, no registry of its own
        cnodes, o_mname, o_reg, named = [c], "", [(c.name, 0)], True
    return "chk_copy_model %s %s %s %s %s %s %s %s %s %s %s %s %s %s" % (
        coqlist(cells), regd, nat(99), coqstr(info["mname"]), coqlist([nat(i) for i in info["onodes"]]),
        coqlist(["(%s, %s)" % (nat(a), nat(bb)) for a, bb in info["edges"]]),
        coqlist(["(%s, %s)" % (coqstr(k), nat(i)) for k, i in info["oreg"]]),
        coqstr(o_mname), coqlist([coqstr(n.name) for n in cnodes]),
        coqlist(["(%s, %s)" % (coqstr(k), nat(i)) for k, i in o_reg]),
        coqlist([coqlist([desc(p) for p in senders_of(n)]) for n in cnodes]),
        coqlist([coqbool(shared(i, n)) for i, n in zip(info["onodes"], cnodes)]),
        coqlist([coqbool(equal(i, n)) for i, n in zip(info["onodes"], cnodes)]), coqbool(named))


def run_copy_scenario(sc):
    """Returns (Gallina term, observation summary)."""
    rng = core.random.Random(sc["seed"])
    b0 = scen.Built(dict(sc, ops=[]))
    b = prepare(sc, b0)
    holders = [b0, b] if b is not b0 else [b0]
    if b is not b0:
        b0.models[0] = None                      # the model the prepared one was derived from is not kept
    obs_pre = run_ops(b, sc["pre"])
    info = capture(b)
    info["regd_before"] = registered_now(info)
    hist_pre = scen.to_coq(dict(sc, ops=sc["pre"]), b, obs_pre)
    if sc["how"] == "pickle_gc_all":
        nodes_before, extra_before, models_rest = {}, {}, []          # nothing may keep the original nodes alive
    else:
        nodes_before, extra_before, models_rest = dict(b.nodes), dict(b.extra), list(b.models[1:])
    c, idmap, name = do_copy(sc, b, info, holders)
    if sc["how"] == "pickle_gc_all":
        nodes_before = {i: o for i, o in idmap.items() if i < 1000}
        extra_before = {i: o for i, o in idmap.items() if i >= 1000}
    if "regd_now" in info:
        info.pop("regd_before")                  # the registries were read again after the collection
    sterm = struct_term(sc, info, c, idmap, name)
    summary = {"copied": c is not None, "names": None if c is None else ([n.name for n in c.nodes] if hasattr(c, "nodes") else [c.name]),
               "model_name": getattr(c, "name", None) if c is not None else None}
    if c is None or not sc["post"]:
        return "(%s) && (%s)" % (sterm, hist_pre), summary
    view = View(view_sc(sc), b0.prefix, {i: idmap.get(i, n) for i, n in nodes_before.items()}, {i: idmap.get(i, n) for i, n in extra_before.items()},
                [c] + [idmap.get(info_id(m, nodes_before), m) for m in models_rest])
    orig_alive = b.models[0] is not None
    a_side = view if (sc["side"] == "copy" or not orig_alive) else b
    # the other side is run on other inputs and then overwritten in place, before this side continues
    if orig_alive:
        b_side = b if a_side is view else view
        run_ops(b_side, sc["other"])
        m_other = b_side.models[0]
        destroy(list(m_other.nodes) if hasattr(m_other, "nodes") else [m_other], rng)
    else:
        destroy(list(info["objs"].values()), rng)          # the original nodes that are still alive
    obs_post = run_ops(a_side, sc["post"])
    # the model term is printed from the side that was run (both sides have the same structure)
    hist = scen.to_coq(dict(sc, ops=sc["pre"] + sc["post"]), a_side, obs_pre + obs_post)
    summary["post_ok"] = [o["ok"] for o in obs_post]
    return "(%s) && (%s)" % (sterm, hist), summary


def info_id(m, nodes_before):
    for i, n in nodes_before.items():
        if n is m:
            return i
    return None


# ------------------------------------------------------------------------------------------ scenarios: legacy ESN
def gen_legacy(rng, i, cfg=None):
    N, din = rng.randint(2, 3), rng.randint(1, 2)
    c = cfg or {"bias": rng.random() < 0.6, "sparse": rng.random() < 0.5, "fb": rng.random() < 0.4, "trained": rng.random() < 0.75,
                "dout": rng.randint(1, 2)}
    c = dict(c)
    if c["fb"]:
        c["trained"] = True
        c.setdefault("fbfunc", rng.choice(["id", "id", "half", "relu"]))
    else:
        c["fbfunc"] = "id"
    dout = c["dout"]
    sc = {"family": "legacy", "cfg": c, "N": N, "din": din, "tag": i,
          "W": scengen.mat(rng, N, N, 3, 2), "Win": scengen.mat(rng, N, din + (1 if c["bias"] else 0), 2, 1),
          "Wfb": scengen.mat(rng, N, dout, 2, 2) if c["fb"] else None,
          "lr": str(Fraction(rng.randint(1, 4), 4)), "ridge": str(Fraction(1, rng.choice([2, 4, 8]))),
          "Xtrain": scengen.rows(rng, 8, din, 4, 2), "Ytrain": scengen.rows(rng, 8, dout, 4, 2),
          "X": scengen.rows(rng, rng.randint(3, 6), din, 4, 2)}
    # make W non-symmetric (the orientation must matter)
    if sc["W"][0][1] == sc["W"][1][0]:
        sc["W"][0][1] = str(Fraction(sc["W"][1][0]) + Fraction(1, 2))
    return sc


def run_legacy(sc):
    """Build, (train), save, load, convert, run.  Returns the observation dict (arrays as lists)."""
    rpy()
    from reservoirpy import compat
    from scipy import sparse
    c = sc["cfg"]
    W, Win = scen.fl(sc["W"]), scen.fl(sc["Win"])
    Wfb = scen.fl(sc["Wfb"]) if sc["Wfb"] is not None else None
    kw = {}
    if FBF[c["fbfunc"]] is not None:
        kw["fbfunc"] = FBF[c["fbfunc"]]
    esn = compat.ESN(lr=float(Fraction(sc["lr"])), W=sparse.csr_matrix(W) if c["sparse"] else W, Win=Win, input_bias=c["bias"],
                     ridge=float(Fraction(sc["ridge"])), Wfb=Wfb, **kw)
    X = scen.fl(sc["X"])
    if c["trained"]:
        esn.train([scen.fl(sc["Xtrain"])], [scen.fl(sc["Ytrain"])], workers=1)
    d = tempfile.mkdtemp(prefix="verif_c16_%d_" % os.getpid())
    try:
        p = os.path.join(d, "model")
        esn.save(p)
        loaded = compat.load(p)
        conv = compat.load_compat(p)

        def run_v2(e):
            if c["trained"]:
                o, s = e.run([X], workers=1, return_states=True)
                return np.asarray(s[0]), np.asarray(o[0])
            s = e.compute_all_states([X], workers=1)
            return np.asarray(s[0]), np.zeros((len(X), 0))
        s_saved, o_saved = run_v2(esn)
        s_load, o_load = run_v2(loaded)
        if c["trained"]:
            r = conv.run(X, return_states="all")
            s_conv, o_conv = np.asarray(r["reservoir"]), np.asarray(r["readout"])
        else:
            s_conv, o_conv = np.asarray(conv.reservoir.run(X)), np.zeros((len(X), 0))
        res, rd = conv.reservoir, conv.readout
        dense = lambda a: np.asarray(a.toarray() if hasattr(a, "toarray") else a, dtype=float)  # noqa: E731
        ob = {"saved": (s_saved, o_saved), "loaded": (s_load, o_load), "conv": (s_conv, o_conv),
              "Wout": None if esn.Wout is None else np.asarray(esn.Wout, dtype=float),
              "cW": dense(res.W), "cWin": dense(res.Win), "cbias": dense(res.bias).ravel(),
              "cWfb": None if Wfb is None else dense(res.Wfb),
              "cWout": (dense(rd.Wout), dense(rd.bias).ravel()) if c["trained"] else None,
              "fb_act_same": None}
        if Wfb is not None:
            probe = np.array([[-1.5, 0.75][:c["dout"]]]) if c["dout"] <= 2 else np.zeros((1, c["dout"]))
            g = FBF[c["fbfunc"]] or act_id
            ob["fb_act_same"] = bool(np.array_equal(np.asarray(res.fb_activation(probe)), np.asarray(g(probe))))
        return ob
    finally:
        shutil.rmtree(d, ignore_errors=True)


def legacy_table(sc, ob):
    """(argument, np.tanh(argument)) along the saved model's own trajectory."""
    c = sc["cfg"]
    W, Win = scen.fl(sc["W"]), scen.fl(sc["Win"])
    Wfb = scen.fl(sc["Wfb"]) if sc["Wfb"] is not None else None
    g = FBF[c["fbfunc"]] or act_id
    X = scen.fl(sc["X"])
    S, O = ob["saved"]
    x, fb, tab = np.zeros((1, sc["N"])), np.zeros((1, c["dout"])), []
    for t in range(len(X)):
        u = X[t:t + 1]
        if c["bias"]:
            u = np.hstack([np.ones((1, 1)), u])
        pre = u @ Win.T + x @ W
        if Wfb is not None:
            pre = pre + g(fb) @ Wfb.T
        tab.append((pre.ravel().tolist(), np.tanh(pre).ravel().tolist()))
        x = S[t:t + 1]
        if Wfb is not None:
            fb = O[t:t + 1]
    return tab


def legacy_term(sc, ob):
    c = sc["cfg"]
    wout = "None" if ob["Wout"] is None else "(Some %s)" % qmat(ob["Wout"].tolist())
    L = "(mkLegacy %s %s %s %s %s %s %s)" % (nat(sc["N"]), qmat(sc["W"]), qmat(sc["Win"]), coqbool(c["bias"]),
                                             "None" if sc["Wfb"] is None else "(Some %s)" % qmat(sc["Wfb"]), wout, q(sc["lr"]))
    tab = coqlist(["(%s,%s)" % (qvec(a), qvec(r)) for a, r in legacy_table(sc, ob)])

    def pairs(so):
        S, O = so
        return coqlist(["(%s,%s)" % (qvec(S[t].tolist()), qvec(O[t].tolist())) for t in range(len(S))])
    cwout = "None" if ob["cWout"] is None else "(Some (%s, %s))" % (qmat(ob["cWout"][0].tolist()), qvec(ob["cWout"][1].tolist()))
    cwfb = "None" if ob["cWfb"] is None else "(Some %s)" % qmat(ob["cWfb"].tolist())
    return "chk_legacy %s %s %s %s %s %s %s %s %s %s %s %s %s" % (
        L, tab, FBK[c["fbfunc"]], nat(c["dout"]), qmat(sc["X"]), pairs(ob["saved"]), pairs(ob["loaded"]), pairs(ob["conv"]),
        qmat(ob["cW"].tolist()), qmat(ob["cWin"].tolist()), qvec(ob["cbias"].tolist()), cwfb, cwout)


# ------------------------------------------------------------------------------------------ correspondence
def correspondence(ctx):
    rng = ctx.rng("corr")
    ncopy, nleg = ctx.n(100, 900), ctx.n(32, 300)
    terms, keep, nt, dist = [], [], set(), {}
    for i in range(ncopy + nleg):
        sc = gen_copy_scenario(rng, i) if i < ncopy else gen_legacy(rng, i)
        try:
            if sc["family"] == "copy":
                term, summary = run_copy_scenario(sc)
                k = "copy %s %s" % (sc["how"], sc["shape"])
                nontriv = summary["copied"] and (bool(sc["post"]) or sc["how"] == "nodecopy")
            else:
                ob = run_legacy(sc)
                term, summary = legacy_term(sc, ob), {"conv_out": ob["conv"][1].tolist()}
                c = sc["cfg"]
                k = "legacy %s%s%s%s dout=%d" % ("sparse " if c["sparse"] else "dense ", "bias " if c["bias"] else "", "fb(%s) " % c["fbfunc"] if c["fb"] else "",
                                                 "trained" if c["trained"] else "untrained", c["dout"])
                nontriv = bool(np.any(ob["saved"][0] != 0))
        except Exception as e:  # noqa: BLE001 - the implementation rejected a valid scenario, or the harness broke
            terms.append("false")
            keep.append({"scenario": jsonable(sc), "impl_error": repr(e)})
            continue
        terms.append(term)
        keep.append({"scenario": jsonable(sc), "observed": jsonable(summary)})
        dist[k] = dist.get(k, 0) + 1
        if nontriv:
            nt.add(repr(jsonable(sc)))
    failing, err = core.run_cases(ctx.pid, IMPORTS, terms, chunk=12)
    return {"evaluations": len(terms), "distinct_nontrivial": len(nt),
            "rule": "copies: random DAG models, six feedback topologies and single nodes (all scenario node kinds), after 0-3 operations, copied by "
                    "copy.deepcopy / pickle round trip / pickle with the Model object (or model and nodes) garbage-collected before the bytes are loaded, so that the "
                    "model's name and the nodes' names are free or taken independently / Node.copy(name fresh or taken, copy_feedback on/off); the copied object is "
                    "the model as built, a registered Model rebuilt from unregistered node copies, or an unregistered copy extended in place (&=) with a fresh node; the other side is run and every array it owns is "
                    "overwritten in place, then 2-4 operations (run/call/reset, stateful on/off, from_state) are replayed on this side; names, registry keys, "
                    "feedback senders, array sharing and equality are compared with the object-store model and the whole history with chk_hist. "
                    "legacy: ESNs (dense/sparse W, bias, feedback with fbfunc id/half/relu, trained or not, 1-2 outputs) saved, loaded, converted and run; "
                    "non-trivial = a copy was made and operated on / the legacy states are not all zero; distinct by scenario text",
            "samples": [keep[0], keep[min(len(keep) - 1, ncopy)]], "distribution": dist, "tolerance": "1e-9 relative (qclose)",
            "failing": [dict(keep[i], index=i) for i in failing], "error": err}


# ------------------------------------------------------------------------------------------ oracle on the implementation
def _viol(key, what, sc, expected=None, observed=None):
    return {"key": key, "what": what, "scenario": jsonable(sc), "expected": jsonable(expected), "observed": jsonable(observed)}


def gen_oracle_copy(rng, i):
    kind = ["model", "model_fb", "esn", "esn_fb", "scen", "node", "node_fb"][i % 7]
    if kind == "model_fb" and (i // 7) % 2 == 1:
        kind = "model_fbsub"                     # res <<= (readout >> Tanh()): the reduced sender is a single distant node
    k = i // 7
    if kind == "model_fbsub":
        how, prep = [("deepcopy", None), ("pickle", None), ("pickle_gc", None)][(i // 14) % 3]
    elif kind in ("model", "model_fb"):
        how, prep = [("deepcopy", None), ("pickle_gc", None), ("deepcopy", "extend"), ("pickle", None), ("pickle_gc", "extend"), ("pickle", "extend")][k % 6]
    elif kind in ("node", "node_fb"):
        how, prep = ["deepcopy", "pickle", "nodecopy"][k % 3], None
    else:
        how, prep = ["deepcopy", "pickle"][k % 2], None
    return {"family": "ocopy", "kind": kind, "how": how, "prep": prep, "straddle": kind == "scen" and (i // 7) % 3 == 0,
            "trained": rng.random() < 0.7, "history": rng.randint(0, 2), "seed": rng.randrange(10 ** 6), "tag": i, "dout": rng.randint(1, 2)}


def _build_oracle(sc, rng):
    """Returns (root object, list of its nodes, input dim, is_esn)."""
    rpy()
    from reservoirpy.nodes import ESN, Reservoir, Ridge
    tag = "o%d_%d_" % (next(_uid), sc["tag"] if isinstance(sc["tag"], int) else 0)
    n, din, dout = rng.randint(2, 4), rng.randint(1, 2), sc["dout"]
    fb = sc["kind"].endswith("_fb") or sc["kind"] == "model_fbsub"
    arr = lambda r, c: scen.fl(scengen.mat(rng, r, c, 3, 2))  # noqa: E731
    res = Reservoir(n, lr=0.5, W=arr(n, n), Win=arr(n, din), bias=arr(n, 1), Wfb=arr(n, dout) if fb else None, name=tag + "res")
    rd = Ridge(ridge=0.125, name=tag + "rd")
    kind = sc["kind"]
    if kind in ("esn", "esn_fb"):
        return ESN(reservoir=res, readout=rd, feedback=fb, name=tag + "esn"), [res, rd], din, True
    if kind == "model_fbsub":
        from reservoirpy.nodes import Tanh
        res <<= (rd >> Tanh(name=tag + "act"))
        return res >> rd, [res, rd], din, False
    if kind in ("model", "model_fb"):
        if fb:
            res <<= rd
        return res >> rd, [res, rd], din, False
    if kind == "node":
        return res, [res], din, False
    if kind == "node_fb":
        res <<= rd
        m = res >> rd
        return res, [res], din, False, m, rd
    raise ValueError(kind)


def _try(f):
    try:
        return True, f()
    except Exception as e:  # noqa: BLE001
        return False, "%s: %s" % (type(e).__name__, e)


def _flat(r):
    if isinstance(r, dict):
        return np.hstack([np.atleast_2d(np.asarray(r[k], dtype=float)) for k in sorted(r)])
    return np.atleast_2d(np.asarray(r, dtype=float))


def _prepare_oracle(sc):
    """Build (deterministically from sc['seed']) the object to copy, with its training / run history.  Returns a dict, or a violation."""
    rng = core.random.Random(sc["seed"])
    built = _build_oracle(sc, rng)
    root, nodes, din, is_esn = built[:4]
    model = built[4] if len(built) > 4 else root          # node_fb: the node lives in a model with its sender
    data = lambda T, d: scen.fl(scengen.rows(rng, T, d, 4, 2))  # noqa: E731
    Xtr, Ytr = data(10, din), data(10, sc["dout"])
    trainable = hasattr(model, "fit") and sc["kind"] != "node"
    if sc["trained"] and trainable:
        model.fit(Xtr, Ytr)
    elif sc["kind"] != "node":
        _try(lambda: model.initialize(Xtr, Ytr))
    for _ in range(max(sc["history"], 1) if sc["kind"] == "model_fbsub" else sc["history"]):      # fbsub: the link is initialised
        ok, r = _try(lambda: model.run(data(3, din)))
        if not ok:
            return _viol("run:exception", "valid model raises before any copy: %s" % r, sc)
    # the object to copy may itself be an (unregistered) deep copy extended in place with a fresh, registered node
    if sc.get("prep") == "extend" and hasattr(root, "nodes") and not is_esn:
        from reservoirpy.nodes import Reservoir
        c1 = copy.deepcopy(root)
        extra = Reservoir(2, lr=0.5, W=scen.fl(scengen.mat(rng, 2, 2, 3, 2)), Win=scen.fl(scengen.mat(rng, 2, sc["dout"], 2, 1)),
                          bias=scen.fl(scengen.mat(rng, 2, 1, 2, 1)), name="o%d_extra" % next(_uid))
        c1 &= (c1.nodes[-1] >> extra)
        root = model = c1
    return {"root": root, "model": model, "din": din, "is_esn": is_esn, "trainable": trainable, "Xtr": Xtr, "Ytr": Ytr, "rng": rng,
            "keep": built}


def _judge_copy(sc):
    if sc["kind"] == "scen":
        return _judge_copy_scen(sc, core.random.Random(sc["seed"]))
    P = _prepare_oracle(sc)
    if "key" in P:
        return P
    root, model, din, is_esn, trainable, Xtr, Ytr, rng = (P[k] for k in ("root", "model", "din", "is_esn", "trainable", "Xtr", "Ytr", "rng"))
    data = lambda T, d: scen.fl(scengen.rows(rng, T, d, 4, 2))  # noqa: E731
    # ---- copy
    key_ops = "copy:esn-node-copy-unusable" if is_esn else "copy:stale-node-registry"
    if sc["how"] == "pickle_gc" and hasattr(root, "nodes") and not is_esn:
        # a twin with the same arrays and the same history is pickled; the bytes are kept, the twin's Model object is collected
        # (its name is free again) while its nodes stay alive; the restored model is compared with the first one
        Q = _prepare_oracle(sc)
        twin_nodes = list(Q["root"].nodes)
        ok, blob = _try(lambda: pickle.dumps(Q["root"]))
        if not ok:
            return _viol("copy:exception", "pickling raises: %s" % blob, sc)
        Q["root"] = Q["model"] = Q["keep"] = None
        gc.collect()
        ok, c = _try(lambda: pickle.loads(blob))
        if ok and [n.name for n in c.nodes] == [n.name for n in twin_nodes]:
            return _viol("oracle:exception", "the twin's nodes were expected to be alive (names taken) when the bytes were loaded", sc)
    elif sc["how"] == "nodecopy":
        ok, c = _try(lambda: root.copy(name=root.name + "_c%d" % next(_uid)))
    elif sc["how"] == "deepcopy":
        ok, c = _try(lambda: copy.deepcopy(root))
    else:
        ok, c = _try(lambda: pickle.loads(pickle.dumps(root)))
    if not ok:
        return _viol("copy:exception", "copying raises: %s" % c, sc)
    if hasattr(c, "nodes") and not is_esn:
        stale = [n.name for n in c.nodes if n.name not in c.node_names or c.params.get(n.name) is not n.params]
        if stale:
            return _viol(key_ops, "the %s copy's name tables (node_names / params) do not list its nodes %s: node_names = %s"
                         % (sc["how"], stale, c.node_names), sc, [n.name for n in c.nodes], c.node_names)
    cnodes = list(c.nodes) if hasattr(c, "nodes") else [c]
    onodes = list(root.nodes) if hasattr(root, "nodes") else [root]
    shared_ok = set()
    if sc["how"] == "nodecopy":
        shared_ok = {id(s) for s in senders_of(root)}          # documented: Node.copy keeps the feedback sender
    # ---- no shared arrays, equal contents
    for a, bb in zip(onodes, cnodes):
        if shares(a, bb):
            return _viol("copy:shared-state", "an array of the copy of %s shares memory with the original" % a.name, sc)
        if not equal_contents(a, bb):
            return _viol("copy:contents-differ", "params/state of the copy of %s differ from the original" % a.name, sc)
    if sc["how"] != "nodecopy":
        for a, bb in zip(onodes, cnodes):
            if any(s1 is s2 for s1 in senders_of(a) for s2 in senders_of(bb)):
                return _viol("copy:shared-state", "the deep copy of %s keeps the original's feedback sender" % a.name, sc)
    # a lone copied node with feedback reads its sender, which belongs to the model it was copied from: compare outputs only for the others
    if sc["kind"] == "node_fb":
        if sc["how"] == "nodecopy":
            if not all(any(s is t for t in senders_of(root)) for s in senders_of(c)):
                return _viol("copy:feedback-link", "Node.copy did not re-attach the original feedback sender", sc)
            ok2, c2 = _try(lambda: root.copy(name=root.name + "_d%d" % next(_uid), copy_feedback=True))
            if not ok2:
                return _viol("copy:exception", "Node.copy(copy_feedback=True) raises: %s" % c2, sc)
            for s, t in zip(senders_of(root), senders_of(c2)):
                if s is t or shares(s, t) or not equal_contents(s, t):
                    return _viol("copy:feedback-link", "Node.copy(copy_feedback=True) did not give the copy its own equal copy of the sender", sc)
        return None
    # ---- every operation the original supports works on the copy, with the same result
    X1, X2 = data(4, din), data(3, din)
    in_o = (root.reservoir if is_esn else onodes[0]).name
    in_c = (c.reservoir if is_esn else cnodes[0]).name
    ops = [("run", lambda m, nm: m.run(X1.copy())),
           ("run(stateful=False)", lambda m, nm: m.run(X2.copy(), stateful=False)),
           ("run(name-keyed input)", lambda m, nm: m.run({nm: X2.copy()}) if hasattr(m, "nodes") else m.run(X2.copy())),
           ("run(return_states='all')", lambda m, nm: m.run(X1.copy(), return_states="all") if hasattr(m, "nodes") else m.run(X1.copy())),
           ("run(reset=True)", lambda m, nm: m.run(X2.copy(), reset=True)),
           ("get_node", lambda m, nm: [m.get_node(n.name).name for n in m.nodes] and 0 if hasattr(m, "nodes") else 0)]
    for label, f in ops:
        oko, ro = _try(lambda: f(root, in_o))
        if not oko:
            continue                                           # the original does not support it either
        okc, rc = _try(lambda: f(c, in_c))
        if not okc:
            return _viol(key_ops, "%s works on the original but raises on its %s copy: %s" % (label, sc["how"], rc), sc, "no exception", rc)
        if label != "get_node":
            fo, fc = _flat(ro), _flat(rc)
            if fo.shape != fc.shape or not np.allclose(fo, fc, rtol=1e-12, atol=1e-12):
                return _viol("copy:outputs-differ", "%s returns different values on the original and on its copy" % label, sc, fo.tolist(), fc.tolist())
    # ---- divergent operations on the copy leave the original untouched (further training, runs, in-place writes)
    before = snapshot(onodes)
    if trainable and hasattr(c, "fit"):
        okc, rc = _try(lambda: c.fit(Xtr, Ytr + 1.0))
        if not okc:
            oko, _ = _try(lambda: root.fit(Xtr, Ytr + 1.0))     # does the original support further training?
            if oko:
                return _viol(key_ops, "further training works on the original but fit raises on its %s copy: %s" % (sc["how"], rc), sc, "no exception", rc)
            return None
    _try(lambda: c.run(data(3, din)))
    destroy(cnodes, rng)
    if snapshot(onodes) != before:
        return _viol("copy:shared-state", "training / running / overwriting the copy changed params or state of the original", sc)
    # and the other way round
    before_c = snapshot(cnodes)
    _try(lambda: root.run(data(3, din)))
    destroy(onodes, rng)
    if snapshot(cnodes) != before_c:
        return _viol("copy:shared-state", "running / overwriting the original changed params or state of the copy", sc)
    return None


def _judge_copy_scen(sc, rng):
    """Random scenario-language models (as built, rebuilt from unregistered copies, or extended in place), copied by deepcopy /
    pickle / pickle with the Model object collected before the bytes are loaded: outputs equal, name-keyed operations work,
    nothing shared."""
    s2 = gen_copy_scenario(rng, rng.randrange(1000), force_fam="straddle" if sc.get("straddle") else None)
    if s2["how"] == "nodecopy":
        s2["how"] = "deepcopy"
    full = dict(sc, inner=s2)
    b0 = scen.Built(dict(s2, ops=[]))
    b = prepare(s2, b0)
    if b is not b0:
        b0.models[0] = None
    run_ops(b, s2["pre"])
    m0 = b.models[0]
    if s2["shape"] == "straddle":
        _try(lambda: m0.run(scen.fl(scengen.rows(rng, 3, s2["din"]))))      # the feedback link is initialised before the copy
    is_model = hasattr(m0, "nodes")
    onodes = list(m0.nodes) if is_model else [m0]
    how = s2["how"] if is_model or s2["how"] in ("deepcopy", "pickle") else "pickle"
    # the copy (or the bytes it will be restored from) is taken now; the operations are then applied to the original first
    ok, src = _try(lambda: copy.deepcopy(m0) if how == "deepcopy" else pickle.dumps(m0))
    if not ok:
        return _viol("copy:exception", "copying raises: %s" % src, full)
    X = scen.fl(scengen.rows(rng, 4, s2["din"]))
    entry = lambda m: [n.name for n in (m.input_nodes if hasattr(m, "nodes") else [m])]  # noqa: E731
    # every call gets its own input array: a Delay node keeps views of the rows it is given
    ops = [("run", lambda m: m.run(X.copy())), ("run(stateful=False)", lambda m: m.run(X.copy(), stateful=False)),
           ("run(name-keyed input)", lambda m: m.run({k: X.copy() for k in entry(m)}) if hasattr(m, "nodes") else m.run(X.copy())),
           ("run(return_states='all')", lambda m: m.run(X.copy(), return_states="all") if hasattr(m, "nodes") else m.run(X.copy())),
           ("get_node", lambda m: [m.get_node(n.name) is n or 1 / 0 for n in m.nodes] and 0.0 if hasattr(m, "nodes") else 0.0)]
    before0 = snapshot(onodes)
    res_o = [_try(lambda: f(m0)) for _, f in ops]
    after_o = snapshot(onodes)
    if how in ("pickle_gc", "pickle_gc_all"):
        for h in (b0, b):
            h.models[0] = None
        del m0
        gc.collect()
    if how == "deepcopy":
        c = src
    else:
        ok, c = _try(lambda: pickle.loads(src))
        if not ok:
            return _viol("copy:exception", "unpickling raises: %s" % c, full)
    cnodes = list(c.nodes) if hasattr(c, "nodes") else [c]
    for a, bb in zip(onodes, cnodes):
        if a is bb or shares(a, bb):
            return _viol("copy:shared-state", "an array of the copy of %s shares memory with the original" % a.name, full)
    if snapshot(cnodes) != before0 and how != "deepcopy":
        return _viol("copy:contents-differ", "the arrays of the restored model differ from those of the pickled one", full)
    for (label, f), (oko, ro) in zip(ops, res_o):
        if not oko:
            continue
        okc, rc = _try(lambda: f(c))
        if not okc:
            return _viol("copy:stale-node-registry", "%s works on the original but raises on its %s copy (model %s, nodes %s): %s"
                         % (label, how, c.name, [n.name for n in cnodes], rc), full)
        if isinstance(ro, dict):
            ro, rc = [ro[k] for k in ro], [rc[k] for k in rc]                # keys are names: compare in order
            ro, rc = np.hstack([np.atleast_2d(v) for v in ro]), np.hstack([np.atleast_2d(v) for v in rc])
        fo, fc = _flat(ro), _flat(rc)
        if fo.shape != fc.shape or not np.allclose(fo, fc, rtol=1e-12, atol=1e-12):
            return _viol("copy:outputs-differ", "%s returns different values on the original and on its copy" % label, full, fo.tolist(), fc.tolist())
    if snapshot(onodes) != after_o:
        return _viol("copy:shared-state", "running the copy changed params or state of the original", full)
    destroy(cnodes, rng)
    if snapshot(onodes) != after_o:
        return _viol("copy:shared-state", "overwriting the copy changed params or state of the original", full)
    return None


def _judge_collision(sc):
    """A model holding a node and a deep copy of that node (names 'a' and 'a-(copy)'): its own deep copy must still support
    the name-keyed operations (open finding copy:renamed-name-collision)."""
    rpy()
    from reservoirpy.nodes import Reservoir
    rng = core.random.Random(sc["seed"])
    tag = "col%d_" % next(_uid)
    a = Reservoir(3, lr=0.5, W=scen.fl(scengen.mat(rng, 3, 3, 3, 2)), Win=scen.fl(scengen.mat(rng, 3, 3, 2, 1)), bias=scen.fl(scengen.mat(rng, 3, 1, 2, 1)),
                  name=tag + "a")
    b = copy.deepcopy(a)
    m = a >> b
    X = scen.fl(scengen.rows(rng, 4, 3))
    m.run(X.copy())
    c = copy.deepcopy(m) if sc["how"] == "deepcopy" else pickle.loads(pickle.dumps(m))
    names = [n.name for n in c.nodes]
    for label, f in [("run(stateful=False)", lambda mm: mm.run(X.copy(), stateful=False)), ("run(return_states='all')", lambda mm: mm.run(X.copy(), return_states="all"))]:
        oko, ro = _try(lambda: f(m))
        okc, rc = _try(lambda: f(c))
        if oko and (not okc or (isinstance(ro, dict) and len(rc) != len(ro))):
            return _viol("copy:renamed-name-collision", "%s works on a model holding a node and a copy of it, but not on the %s copy of that model, whose nodes are named %s: %s"
                         % (label, sc["how"], names, rc if not okc else "one entry per name"), sc, "no exception, %d entries" % (len(ro) if isinstance(ro, dict) else 1), str(rc)[:300])
    return None


def _copy_by(how, obj):
    if how == "deepcopy":
        return copy.deepcopy(obj)
    if how == "pickle":
        return pickle.loads(pickle.dumps(obj))
    return obj.copy(name="%s_c%d" % (obj.name, next(_uid)))


def _judge_online(sc):
    """LMS / FORCE(rls) / FORCE(lms) with a constant learning rate: trained or not, the node can be copied (deepcopy, pickle,
    Node.copy); the copy returns the same outputs and, trained further on the same data, ends with the same weights."""
    rpy()
    from reservoirpy.nodes import FORCE, LMS
    rng = core.random.Random(sc["seed"])
    tag = "onl%d_" % next(_uid)
    din, dout = rng.randint(1, 3), rng.randint(1, 2)
    alpha = float(Fraction(1, rng.choice([4, 8, 16])))
    node = {"lms": lambda: LMS(alpha=alpha, name=tag + "lms"), "force-rls": lambda: FORCE(alpha=alpha, name=tag + "frls"),
            "force-lms": lambda: FORCE(alpha=alpha, rule="lms", name=tag + "flms")}[sc["node"]]()
    data = lambda T, d: scen.fl(scengen.rows(rng, T, d, 4, 2))  # noqa: E731
    X0, Y0, X1, Y1, X2 = data(6, din), data(6, dout), data(5, din), data(5, dout), data(4, din)
    if sc["trained"]:
        node.train(X0.copy(), Y0.copy())
    else:
        node.initialize(X0[:1], Y0[:1])
    ok, c = _try(lambda: _copy_by(sc["how"], node))
    if not ok:
        return _viol("copy:lms-force-not-copyable", "%s of a%s %s node with a constant learning rate raises: %s"
                     % (sc["how"], " trained" if sc["trained"] else "n untrained", sc["node"], c), sc, "a copy", c)
    if shares(node, c) or not equal_contents(node, c):
        return _viol("copy:shared-state" if shares(node, c) else "copy:contents-differ", "the %s copy of the %s node shares arrays with / differs from the original"
                     % (sc["how"], sc["node"]), sc)
    ro, rc = node.run(X2.copy()), c.run(X2.copy())
    if ro.shape != rc.shape or not np.allclose(ro, rc, rtol=1e-12, atol=1e-12):
        return _viol("copy:outputs-differ", "run returns different values on the %s node and on its %s copy" % (sc["node"], sc["how"]), sc, ro.tolist(), rc.tolist())
    oko, to = _try(lambda: node.train(X1.copy(), Y1.copy()))
    okc, tc = _try(lambda: c.train(X1.copy(), Y1.copy()))
    if oko and not okc:
        return _viol("copy:lms-force-not-copyable", "further training works on the %s node but raises on its %s copy: %s" % (sc["node"], sc["how"], tc), sc)
    if oko and not (np.allclose(to, tc, rtol=1e-12, atol=1e-12) and equal_enough(node, c)):
        return _viol("copy:outputs-differ", "training the %s node and its %s copy on the same data gives different outputs / weights" % (sc["node"], sc["how"]), sc)
    before = snapshot([node])
    destroy([c], rng)
    if snapshot([node]) != before:
        return _viol("copy:shared-state", "overwriting the copy changed the original %s node" % sc["node"], sc)
    return None


def equal_enough(a, b):
    xa, xb = arrays_of(a), arrays_of(b)
    return [k for k, _ in xa] == [k for k, _ in xb] and all(x.shape == y.shape and np.allclose(x, y, rtol=1e-12, atol=1e-12) for (_, x), (_, y) in zip(xa, xb))


def _judge_failed_copy(sc):
    """Node.copy of a node that cannot be deep-copied (a param holds a generator) raises - and must leave the node as it was,
    in particular with its feedback connection."""
    rpy()
    from reservoirpy.node import Node
    tag = "fc%d_" % next(_uid)

    def init(node, x=None, **kw):
        node.set_input_dim(x.shape[1])
        node.set_output_dim(x.shape[1])
    recv = Node(forward=lambda n, x: x, initializer=init, params={"junk": None}, name=tag + "recv")
    send = Node(forward=lambda n, x: x, initializer=init, name=tag + "send")
    recv <<= send
    recv.set_param("junk", (i for i in range(3)))
    fb_before = recv._feedback
    ok, c = _try(lambda: recv.copy(name=tag + "copy", copy_feedback=sc.get("copy_feedback", False)))
    if ok:
        return None                                   # the copy went through: nothing to check here
    if not recv.has_feedback or recv._feedback is not fb_before:
        return _viol("copy:failed-copy-detaches-feedback", "Node.copy raised (%s) and left the original node without its feedback connection" % c, sc,
                     "has_feedback = True", "has_feedback = %s" % recv.has_feedback)
    return None


def _judge_named_esn(sc):
    """An ESN whose nodes are named exactly 'reservoir' and 'readout' (the keys under which the ESN stores them): fit, run, copy, run."""
    rpy()
    from reservoirpy.nodes import ESN, Reservoir, Ridge
    rng = core.random.Random(sc["seed"])
    gc.collect()
    if "reservoir" in Reservoir._registry or "readout" in Ridge._registry:
        return None                                   # the names are in use elsewhere in this process: the probe cannot be built
    arr = lambda r, c: scen.fl(scengen.mat(rng, r, c, 3, 2))  # noqa: E731
    data = lambda T, d: scen.fl(scengen.rows(rng, T, d, 4, 2))  # noqa: E731
    res = rd = esn = c = None
    try:
        res = Reservoir(3, lr=0.5, W=arr(3, 3), Win=arr(3, 2), bias=arr(3, 1), name="reservoir")
        rd = Ridge(ridge=0.125, name="readout")
        esn = ESN(reservoir=res, readout=rd, name="nesn%d" % next(_uid))
        X, Y, X2 = data(10, 2), data(10, 1), data(4, 2)
        ok, r = _try(lambda: (esn.fit(X, Y), esn.run(X2.copy())))       # ESN.fit / run deep-copy the ESN themselves
        if not ok:
            return _viol("copy:esn-named-reservoir-readout", "fit / run of an ESN whose nodes are named 'reservoir' and 'readout' raises: %s" % r, sc)
        ok, c = _try(lambda: _copy_by(sc["how"], esn))
        if not ok:
            return _viol("copy:esn-named-reservoir-readout", "%s of an ESN whose nodes are named 'reservoir' and 'readout' raises: %s" % (sc["how"], c), sc)
        oka, attrs = _try(lambda: (c.reservoir is c.nodes[0], c.readout is c.nodes[1], c.reservoir.name, c.readout.name))
        if not oka or not (attrs[0] and attrs[1]):
            return _viol("copy:esn-named-reservoir-readout", "the %s copy lost its reservoir / readout attributes: %s" % (sc["how"], attrs), sc)
        for label, f in [("run", lambda m: m.run(X2.copy())), ("run(stateful=False)", lambda m: m.run(X2.copy(), stateful=False)),
                         ("run(return_states='all')", lambda m: m.run(X2.copy(), return_states="all")), ("fit", lambda m: m.fit(X.copy(), Y + 1.0) and 0.0)]:
            oko, ro = _try(lambda: f(esn))
            okc, rc = _try(lambda: f(c))
            if oko and not okc:
                return _viol("copy:esn-named-reservoir-readout", "%s works on the ESN but raises on its %s copy: %s" % (label, sc["how"], rc), sc, "no exception", rc)
            if oko and label != "fit":
                fo, fc = _flat(ro), _flat(rc)
                if fo.shape != fc.shape or not np.allclose(fo, fc, rtol=1e-12, atol=1e-12):
                    return _viol("copy:esn-named-reservoir-readout", "%s differs between the ESN and its %s copy" % (label, sc["how"]), sc, fo.tolist(), fc.tolist())
        return None
    finally:
        res = rd = esn = c = None                     # free the two names for the next probe
        gc.collect()


def _judge_concat_refit(sc):
    """Two inputs named '<p>in' and '<p>in2' (or '<p>R-1' / '<p>R-10') feeding a readout through a Concat: the copy, trained further
    on the same name-keyed data as the original, must give the same outputs (open finding copy:concat-order-after-refit)."""
    rpy()
    from reservoirpy.nodes import Input, Ridge
    rng = core.random.Random(sc["seed"])
    tag = "cr%d_" % next(_uid)
    na, nb = [tag + x for x in sc["names"]]
    a, b = Input(name=na), Input(name=nb)
    rd = Ridge(ridge=float(Fraction(1, 1024)), name=tag + "rd")
    m = [a, b] >> rd
    wa, wb = sc["widths"]
    data = lambda T, d: scen.fl(scengen.rows(rng, T, d, 8, 3))  # noqa: E731
    Xa, Xb = data(24, wa), data(24, wb)
    Y = Xa @ scen.fl(scengen.mat(rng, wa, 1, 4, 1)) + 2.0 * (Xb @ scen.fl(scengen.mat(rng, wb, 1, 4, 1))) + 0.5
    if sc["fit_before"]:
        m.fit({na: Xa.copy(), nb: Xb.copy()}, Y.copy())
    ok, c = _try(lambda: _copy_by(sc["how"], m))
    if not ok:
        return _viol("copy:exception", "copying raises: %s" % c, sc)
    ca, cb = [n.name for n in c.nodes if n.name.startswith(na + "-") or n.name == na][0], [n.name for n in c.nodes if n.name.startswith(nb)][0]
    if sc["fit_before"]:
        # the copy of a TRAINED model, used as it is: same outputs as the original on the same name-keyed inputs
        ok0, r0 = _try(lambda: m.run({na: Xa.copy(), nb: Xb.copy()}, stateful=False))
        ok1, r1 = _try(lambda: c.run({ca: Xa.copy(), cb: Xb.copy()}, stateful=False))
        if ok0 and (not ok1 or np.asarray(r0).shape != np.asarray(r1).shape or not np.allclose(r0, r1, rtol=1e-8, atol=1e-8)):
            return _viol("copy:trained-fan-in-model:outputs-differ", "the %s copy of a trained [%s, %s] >> readout model %s on the inputs the original was trained on"
                         % (sc["how"], na, nb, "raises %s" % r1 if not ok1 else "returns other outputs than the original (max abs difference %.3g: the parents reach "
                            "the readout in another order)" % float(np.max(np.abs(np.asarray(r0) - np.asarray(r1))))), sc)
    oko, ro = _try(lambda: (m.fit({na: Xa.copy(), nb: Xb.copy()}, Y.copy()), m.run({na: Xa.copy(), nb: Xb.copy()}))[1])
    if not oko:
        return None
    okc, rc = _try(lambda: (c.fit({ca: Xa.copy(), cb: Xb.copy()}, Y.copy()), c.run({ca: Xa.copy(), cb: Xb.copy()}))[1])
    if not okc:
        return _viol("copy:concat-order-after-refit", "fit + run with name-keyed inputs works on the original but raises on its %s copy: %s" % (sc["how"], rc), sc, "no exception", rc)
    ro, rc = np.asarray(ro), np.asarray(rc)
    if ro.shape != rc.shape or not np.allclose(ro, rc, rtol=1e-8, atol=1e-8):
        return _viol("copy:concat-order-after-refit", "trained on the same name-keyed data, the %s copy (inputs %s) returns other outputs than the original "
                     "(max abs difference %.3g; its Concat is trained on one parent order and run on another)"
                     % (sc["how"], [ca, cb], float(np.max(np.abs(ro - rc))) if ro.shape == rc.shape else float("nan")), sc, ro[:4].tolist(), rc[:4].tolist())
    return None


# ---- behavioural independence of a copy, for every node class exported by reservoirpy.nodes -------------------------------
# Byte comparisons cannot see state shared through callables (a partial bound to the node, a weak reference, a closure), so the
# copy is compared with TWINS: objects built and trained exactly like the original, which then go through exactly the same calls.
CLASS_KINDS = ["ipreservoir", "ipreservoir-in-model", "reservoir", "nvar", "delay", "ridge", "lms", "rls", "force", "esn", "sklearn",
               "tanh", "softmax", "sigmoid", "input-output", "concat", "ridge-pending"]


def _class_spec(sc):
    """(make(tag) -> object, history(obj), advance(obj)) for one node class; everything deterministic in sc."""
    rpy()
    import reservoirpy.nodes as N
    rng = core.random.Random(sc["seed"])
    kind = sc["kind"]
    din, dout, units = rng.randint(1, 3), rng.randint(1, 2), rng.randint(3, 6)
    seed = rng.randrange(10 ** 6)
    data = lambda T, d, lim=8: scen.fl(scengen.rows(rng, T, d, lim, 3))  # noqa: E731
    X1, Y1, X2, Y2 = data(20, din), data(20, dout), data(20, din) * 2.0 + 0.5, data(20, dout)
    fit = lambda o: o.fit(X1.copy(), Y1.copy())       # noqa: E731
    refit = lambda o: o.fit(X2.copy(), Y2.copy())     # noqa: E731
    run2 = lambda o: o.run(X2.copy())                 # noqa: E731
    none = lambda o: None                             # noqa: E731
    if kind == "ipreservoir":
        act = rng.choice(["tanh", "sigmoid"])
        mk = lambda t: N.IPReservoir(units, mu=0.0 if act == "tanh" else 0.25, sigma=0.25, learning_rate=float(Fraction(1, 64)), epochs=2,
                                     activation=act, seed=seed, rc_connectivity=1.0, input_connectivity=1.0, name=t)  # noqa: E731
        return mk, (lambda o: o.fit(X1.copy())) if sc["trained"] else (lambda o: o.initialize(X1[:1])), lambda o: o.fit(X2.copy()), din
    if kind == "ipreservoir-in-model":
        def mk(t):
            ipr = N.IPReservoir(units, mu=0.0, sigma=0.25, learning_rate=float(Fraction(1, 64)), epochs=1, seed=seed, rc_connectivity=1.0,
                                input_connectivity=1.0, name=t + "_ip")
            return ipr >> N.Ridge(ridge=float(Fraction(1, 64)), name=t + "_rd")

        def hist(m):
            m.nodes[0].fit(X1.copy())
            m.fit(X1.copy(), Y1.copy())
        return mk, hist, lambda m: m.nodes[0].fit(X2.copy()), din
    if kind == "reservoir":
        mk = lambda t: N.Reservoir(units, lr=0.5, sr=0.9, seed=seed, rc_connectivity=1.0, input_connectivity=1.0,
                                   equation=rng.choice(["internal", "external"]), name=t)  # noqa: E731
        eq = rng.choice(["internal", "external"])
        mk = lambda t: N.Reservoir(units, lr=0.5, sr=0.9, seed=seed, rc_connectivity=1.0, input_connectivity=1.0, equation=eq, name=t)  # noqa: E731
        return mk, (lambda o: o.run(X1.copy())) if sc["trained"] else none, run2, din
    if kind == "nvar":
        dl, order, st = rng.randint(1, 2), rng.randint(1, 2), rng.randint(1, 2)
        return (lambda t: N.NVAR(delay=dl, order=order, strides=st, name=t)), (lambda o: o.run(X1.copy())) if sc["trained"] else none, run2, din
    if kind == "delay":
        dl = rng.randint(1, 3)
        return (lambda t: N.Delay(delay=dl, name=t)), (lambda o: o.run(X1.copy())) if sc["trained"] else none, run2, din
    if kind == "ridge":
        return (lambda t: N.Ridge(ridge=float(Fraction(1, 32)), name=t)), fit, refit, din
    if kind == "ridge-pending":
        # a readout copied BETWEEN partial_fit and fit: the pending partial sums (XXT / YXT buffers) belong to each side separately
        return ((lambda t: N.Ridge(ridge=float(Fraction(1, 32)), name=t)), (lambda o: o.partial_fit(X1.copy(), Y1.copy())),
                (lambda o: (o.partial_fit(X2.copy(), Y2.copy()), o.fit())), din)
    if kind in ("lms", "rls", "force"):
        mk = {"lms": lambda t: N.LMS(alpha=float(Fraction(1, 16)), name=t), "rls": lambda t: N.RLS(alpha=float(Fraction(1, 4)), name=t),
              "force": lambda t: N.FORCE(alpha=float(Fraction(1, 4)), name=t)}[kind]
        tr = lambda o: o.train(X1.copy(), Y1.copy())  # noqa: E731
        return mk, tr if sc["trained"] else (lambda o: o.initialize(X1[:1], Y1[:1])), lambda o: o.train(X2.copy(), Y2.copy()), din
    if kind == "esn":
        fbk = rng.random() < 0.5
        mk = lambda t: N.ESN(units=units, lr=0.5, sr=0.9, ridge=float(Fraction(1, 32)), seed=seed, rc_connectivity=1.0, input_connectivity=1.0,
                             feedback=fbk, name=t)  # noqa: E731
        return mk, fit, refit, din
    if kind == "sklearn":
        from sklearn import linear_model
        return (lambda t: N.ScikitLearnNode(model=linear_model.Ridge, model_hypers={"alpha": 0.125}, name=t)), fit, refit, din
    if kind in ("tanh", "softmax", "sigmoid"):
        cls = {"tanh": N.Tanh, "softmax": N.Softmax, "sigmoid": N.Sigmoid}[kind]
        return (lambda t: cls(name=t)), (lambda o: o.run(X1.copy())) if sc["trained"] else none, run2, din
    if kind == "input-output":
        return (lambda t: N.Input(name=t + "_i") >> N.Output(name=t + "_o")), (lambda o: o.run(X1.copy())) if sc["trained"] else none, run2, din
    if kind == "concat":
        def mk(t):
            a, b = N.Input(name=t + "_a"), N.Tanh(name=t + "_b")
            return a >> [b, N.Sigmoid(name=t + "_c")] >> N.Ridge(ridge=float(Fraction(1, 32)), name=t + "_rd")
        return mk, fit, refit, din
    raise ValueError(kind)


def _judge_class(sc):
    mk, hist, advance, din = _class_spec(sc)
    rng = core.random.Random(sc["seed"] + 1)
    Xt = scen.fl(scengen.rows(rng, 6, din, 8, 3))
    base = "cls%d_%s" % (next(_uid), sc["kind"].replace("-", ""))

    def out(o):
        return _flat(o.run(Xt.copy(), reset=True, stateful=False))

    def same(a, b):
        return a.shape == b.shape and np.allclose(a, b, rtol=1e-10, atol=1e-10)
    objs = {}
    for nm in ("A", "T1", "T2"):
        ok, o = _try(lambda: mk("%s_%s" % (base, nm)))
        if ok:
            ok, r = _try(lambda: hist(o))
        if not ok:
            if sc["kind"] == "sklearn":
                return None                                   # ScikitLearnNode does not work with the installed scikit-learn: not a copy matter
            return _viol("run:exception", "building / training a %s raises before any copy: %s" % (sc["kind"], r if isinstance(o, object) and not isinstance(o, str) else o), sc)
        objs[nm] = o
    A, T1, T2 = objs["A"], objs["T1"], objs["T2"]
    objs = None
    ok, C = _try(lambda: _copy_by(sc["how"], A))
    if not ok:
        return _viol("copy:exception", "%s of a %s raises: %s" % (sc["how"], sc["kind"], C), sc, "a copy", C)
    what = "%s copy of a%s %s" % (sc["how"], " trained" if sc["trained"] else "n untrained", sc["kind"])
    ok, r = _try(lambda: (out(C), out(A), out(T1), out(T2)))
    if not ok:
        return _viol("copy:exception", "running the %s (or its original / twins) raises: %s" % (what, r), sc)
    oC, oA, o1, o2 = r
    if not (same(oA, o1) and same(oA, o2)):
        return None                                       # the class is not reproducible from its seed: nothing can be compared
    if not same(oC, oA):
        return _viol("copy:outputs-differ", "the %s returns other outputs than the original" % what, sc, oA.tolist(), oC.tolist())
    # the copy is trained / run further, exactly like twin 1; the original is left alone, like twin 2
    ok, r = _try(lambda: (advance(C), advance(T1)))
    if not ok:
        okA, rA = _try(lambda: advance(A))
        return _viol("copy:exception", "further training / running works on the original but raises on the %s: %s" % (what, r), sc) if okA else None
    oC, o1, oA, o2 = out(C), out(T1), out(A), out(T2)
    if not same(oA, o2):
        return _viol("copy:shared-state", "further training / running the %s changed the outputs of the original" % what, sc, o2.tolist(), oA.tolist())
    if not same(oC, o1):
        return _viol("copy:outputs-differ", "after the same further training / run, the %s does not return what an identically built and trained twin returns "
                     "(the copy does not own everything its outputs depend on)" % what, sc, o1.tolist(), oC.tolist())
    # now the original, like twin 2; the copy is left alone, like twin 1
    _try(lambda: (advance(A), advance(T2)))
    oA, o2, oC, o1 = out(A), out(T2), out(C), out(T1)
    if not same(oC, o1):
        return _viol("copy:shared-state", "further training / running the original changed the outputs of its %s" % what, sc, o1.tolist(), oC.tolist())
    if not same(oA, o2):
        return _viol("copy:shared-state", "the original does not behave like its twin after the %s was made and trained" % what, sc, o2.tolist(), oA.tolist())
    # the copy does not need the original to stay alive
    A = None
    gc.collect()
    ok, oC = _try(lambda: out(C))
    o1 = out(T1)
    if not ok or not same(oC, o1):
        return _viol("copy:shared-state", "the %s stops working / changes once the original is garbage-collected: %s" % (what, oC if not ok else "other outputs"), sc)
    return None


def gen_class_case(rng, i):
    kind = CLASS_KINDS[i % len(CLASS_KINDS)]
    k = i // len(CLASS_KINDS)
    hows = ["deepcopy", "pickle"] + (["nodecopy"] if kind not in ("ipreservoir-in-model", "esn", "input-output", "concat") else [])
    return {"family": "class", "kind": kind, "how": hows[k % len(hows)], "trained": (k // len(hows)) % 3 != 2 or kind in ("ridge", "sklearn", "esn", "concat"),
            "seed": rng.randrange(10 ** 6), "tag": "cl%d" % i}


SPECIALS = ([{"family": "online", "node": nd, "trained": tr, "how": how} for nd in ("lms", "force-rls", "force-lms") for tr in (True, False)
             for how in ("deepcopy", "pickle", "nodecopy")]
            + [{"family": "failedcopy", "copy_feedback": cf} for cf in (False, True)]
            + [{"family": "namedesn", "how": how} for how in ("deepcopy", "pickle")]
            + [{"family": "fbclamp", "forced_on": w} for w in ("copy", "original")]
            + [{"family": "legacyact"}]
            + [{"family": "legacyreload", "fb": fb} for fb in (False, True)]
            + [{"family": "interleaved", "how": hw, "fitted_before": fb} for hw, fb in ((("deepcopy", "pickle"), True), (("deepcopy", "deepcopy"), True),
                                                                                      (("pickle", "pickle"), False))]
            + [{"family": "midtraining", "chain": ch, "train_first": tf}
               for ch, tf in ((["nodecopy"], "copy"), (["pickle", "nodecopy"], "copy"), (["deepcopy", "nodecopy"], "original"), (["nodecopy", "nodecopy"], "copy"),
                              (["pickle", "deepcopy"], "original"), (["nodecopy", "pickle", "nodecopy"], "copy"))]
            + [{"family": "concatrefit", "how": how, "names": nm, "widths": w, "fit_before": fbf}
               for how, nm, w, fbf in (("deepcopy", ["in", "in2"], [2, 3], False), ("pickle", ["in", "in2"], [2, 2], True),
                                       ("deepcopy", ["R-1", "R-10"], [2, 2], False), ("deepcopy", ["a", "b"], [2, 3], True),
                                       ("deepcopy", ["in", "in2"], [2, 3], True), ("pickle", ["R-1", "R-10"], [2, 3], True))])


LEGACY_GRID = [dict(bias=bz, sparse=sp, fb=fb, trained=tr, dout=do)
               for bz in (True, False) for sp in (False, True) for fb in (False, True) for tr in (True, False) for do in (1, 2)
               if not (fb and not tr)]


def _judge_legacy(sc):
    c = sc["cfg"]
    try:
        ob = run_legacy(sc)
    except Exception as e:  # noqa: BLE001
        return _viol("legacy:exception", "save / load / load_compat / run of a valid legacy ESN raises: %r" % e, sc)
    for part, idx in (("states", 0), ("outputs", 1)):
        if not np.array_equal(ob["saved"][idx], ob["loaded"][idx]):
            return _viol("legacy:save-load", "compat.load(dir) does not reproduce the %s of the saved ESN" % part, sc,
                         ob["saved"][idx].tolist(), ob["loaded"][idx].tolist())
    for part, idx in (("states", 0), ("outputs", 1)):
        a, bb = ob["saved"][idx], ob["conv"][idx]
        if a.shape != bb.shape or not np.allclose(a, bb, rtol=1e-9, atol=1e-9):
            key = "load_compat:fbfunc-dropped" if ob["fb_act_same"] is False else "load_compat:orientation"
            return _viol(key, "load_compat(dir) does not reproduce the %s of the saved ESN (max abs difference %.3g)"
                         % (part, float(np.max(np.abs(a - bb))) if a.shape == bb.shape else float("nan")), sc, a.tolist(), bb.tolist())
    if ob["fb_act_same"] is False:
        return _viol("load_compat:fbfunc-dropped", "the converted reservoir's fb_activation is not the saved fbfunc", sc)
    return None


def _judge_legacy_noise(sc):
    """A legacy ESN with non-zero, pairwise different noise gains, run with an explicit seed: compat.load(dir) has the same
    attributes and reproduces states and outputs exactly when run with the same seed."""
    rpy()
    from reservoirpy import compat
    from scipy import sparse
    c = sc["cfg"]
    W, Win = scen.fl(sc["W"]), scen.fl(sc["Win"])
    Wfb = scen.fl(sc["Wfb"]) if sc["Wfb"] is not None else None
    g_in, g_rc, g_out = (float(Fraction(v)) for v in sc["noise"])
    kw = {"fbfunc": FBF[c["fbfunc"]]} if FBF[c["fbfunc"]] is not None else {}
    esn = compat.ESN(lr=float(Fraction(sc["lr"])), W=sparse.csr_matrix(W) if c["sparse"] else W, Win=Win, input_bias=c["bias"],
                     ridge=float(Fraction(sc["ridge"])), Wfb=Wfb, noise_in=g_in, noise_rc=g_rc, noise_out=g_out, seed=sc["esn_seed"], **kw)
    X = scen.fl(sc["X"])
    d = tempfile.mkdtemp(prefix="verif_c16n_%d_" % os.getpid())
    try:
        esn.train([scen.fl(sc["Xtrain"])], [scen.fl(sc["Ytrain"])], workers=1, seed=sc["run_seed"] + 1)
        o1, s1 = esn.run([X], workers=1, return_states=True, seed=sc["run_seed"])
        o1b, s1b = esn.run([X], workers=1, return_states=True, seed=sc["run_seed"])
        if not (np.array_equal(o1[0], o1b[0]) and np.array_equal(s1[0], s1b[0])):
            return None                                  # the saved model itself is not repeatable with a seed: nothing to compare
        p = os.path.join(d, "model")
        esn.save(p)
        loaded = compat.load(p)
        attrs = ("lr", "noise_in", "noise_rc", "noise_out", "seed", "input_bias", "N", "dim_in", "dim_out", "ridge")
        diff = {a: (getattr(esn, a), getattr(loaded, a)) for a in attrs if getattr(esn, a) != getattr(loaded, a)}
        if diff:
            return _viol("legacy:save-load", "compat.load(dir) returns an ESN whose attributes differ from the saved one: %s" % diff, sc,
                         {a: v[0] for a, v in diff.items()}, {a: v[1] for a, v in diff.items()})
        o2, s2 = loaded.run([X], workers=1, return_states=True, seed=sc["run_seed"])
        for part, a, bb in (("states", s1[0], s2[0]), ("outputs", o1[0], o2[0])):
            if not np.array_equal(a, bb):
                return _viol("legacy:save-load", "with noise gains %s and the same run seed, compat.load(dir) does not reproduce the %s of the saved ESN"
                             % (sc["noise"], part), sc, np.asarray(a).tolist(), np.asarray(bb).tolist())
    except Exception as e:  # noqa: BLE001
        return _viol("legacy:exception", "train / run / save / load of a valid noisy legacy ESN raises: %r" % e, sc)
    finally:
        shutil.rmtree(d, ignore_errors=True)
    return None


def gen_legacy_noise(rng, i):
    cfg = {"bias": rng.random() < 0.6, "sparse": rng.random() < 0.5, "fb": i % 2 == 0, "trained": True, "dout": rng.randint(1, 2)}
    sc = gen_legacy(rng, "n%s" % i, cfg)
    gains = ["1/8", "1/4", "1/2", "1/16"]
    rng.shuffle(gains)
    sc.update(family="legacy_noise", noise=gains[:3], esn_seed=rng.randrange(1000), run_seed=rng.randrange(1000))
    return sc


def _judge_fbclamp(sc):
    """Node.copy of a feedback receiver keeps the connection to the SAME sender (documented), but shares nothing else: a feedback
    value forced on one of the two (with_feedback) is seen by that one only."""
    rpy()
    from reservoirpy.nodes import Reservoir, Ridge
    rng = core.random.Random(sc["seed"])
    tag = "fbc%s_" % sc["tag"]
    W = scen.fl(scengen.mat(rng, 3, 3, 2, 2)); Win = scen.fl(scengen.mat(rng, 3, 1, 2, 1)); Wfb = scen.fl(scengen.mat(rng, 3, 1, 2, 1))

    def mk(name, sender):
        r = Reservoir(3, W=W.copy(), Win=Win.copy(), Wfb=Wfb.copy(), lr=1.0, activation=act_id, fb_activation=act_id, input_bias=False, name=name)
        r <<= sender
        r.initialize(np.ones((1, 1))); r.initialize_feedback()
        return r
    ro = Ridge(1, name=tag + "ro")
    ro.initialize(np.ones((1, 3)), np.ones((1, 1)))
    orig, ref = mk(tag + "o", ro), mk(tag + "ref", ro)
    cp = orig.copy(name=tag + "c")
    a, b = (cp, orig) if sc["forced_on"] == "copy" else (orig, cp)
    x = scen.fl(scengen.rows(rng, 1, 1))
    with a.with_feedback(np.full((1, 1), 100.0)):
        got = np.asarray(b(x)).copy()                 # the OTHER one is called while a value is forced on `a`
    exp = np.asarray(ref(x))
    if not np.allclose(got, exp, atol=1e-12):
        return _viol("copy:feedback-clamp-shared-with-original", "a feedback value forced on the %s (with_feedback) was consumed by a call of the %s"
                     % (sc["forced_on"], "original" if sc["forced_on"] == "copy" else "copy"), sc, exp.tolist(), got.tolist())
    return None


def _judge_legacy_activation(sc):
    """a legacy ESN built with a non-default reservoir activation, saved and loaded / converted, reproduces the saved model"""
    rpy()
    import tempfile
    from reservoirpy import compat
    rng = core.random.Random(sc["seed"])
    N, din = 3, 1
    W = scen.fl(scengen.mat(rng, N, N, 2, 2)); Win = scen.fl(scengen.mat(rng, N, din + 1, 2, 1))
    X = scen.fl(scengen.rows(rng, 6, din)); Y = scen.fl(scengen.rows(rng, 6, 1))
    esn = compat.ESN(lr=0.5, W=W, Win=Win, input_bias=True, ridge=0.125, activation=act_hardtanh_scaled)
    esn.train([X], [Y])
    want = np.asarray(esn.run([X])[0][0])
    with tempfile.TemporaryDirectory() as d:
        esn.save(d + "/m")
        got = np.asarray(compat.load(d + "/m").run([X])[0][0])
        conv = compat.load_compat(d + "/m")
        got2 = np.asarray(conv.run(X))
    bad = [w for w, g in (("load", got), ("load_compat", got2)) if g.shape != want.shape or not np.allclose(g, want, atol=1e-9)]
    if bad:
        return _viol("legacy:activation-not-saved", "a legacy ESN whose reservoir activation is not the default tanh, saved and then %s: outputs differ "
                     "from the saved model (save() does not store the activation)" % " / ".join(bad), sc, want.tolist(), got.tolist())
    return None


def act_hardtanh_scaled(x):
    return np.clip(2.0 * x, -1.0, 1.0)


def _judge_interleaved(sc):
    """two copies (deep copy / pickle round-trip) of ONE fitted Ridge and the original, trained further with INTERLEAVED partial fits: every side ends
    with exactly what a fresh node fitted on that side's own data gets (the copies share no buffer, file or name-keyed resource)"""
    import copy as _copy
    import pickle
    import reservoirpy as rpy
    rpy.verbosity(0)
    from reservoirpy.nodes import Ridge
    rs = np.random.RandomState(sc["seed"] % (2 ** 31))
    T = 8

    def data():
        return rs.randint(-8, 9, (T, 3)) / 4.0, rs.randint(-8, 9, (T, 2)) / 4.0
    D = [data() for _ in range(7)]
    tag = sc["tag"]
    try:
        orig = Ridge(ridge=0.125, name="il%s_o" % tag)
        if sc["fitted_before"]:
            orig.fit(*D[0])
        a = _copy.deepcopy(orig) if sc["how"][0] == "deepcopy" else pickle.loads(pickle.dumps(orig))
        b = _copy.deepcopy(orig) if sc["how"][1] == "deepcopy" else pickle.loads(pickle.dumps(orig))
        sides = {"original": (orig, [1, 2]), "copy A": (a, [3, 4]), "copy B": (b, [5, 6])}
        for rnd in range(2):
            for lab, (node, idx) in sides.items():
                node.partial_fit(*D[idx[rnd]])
        for lab, (node, idx) in sides.items():
            node.fit()
        for lab, (node, idx) in sides.items():
            ref = Ridge(ridge=0.125, name="il%s_r%s" % (tag, lab[-1]))
            for i in idx:
                ref.partial_fit(*D[i])
            ref.fit()
            if not (np.allclose(node.Wout, ref.Wout, rtol=1e-9, atol=1e-9) and np.allclose(node.bias, ref.bias, rtol=1e-9, atol=1e-9)):
                return _viol("copy:interleaved-training-leaks", "a %s Ridge, %s and %s, each given two partial fits of its own data in alternation and then fit(): "
                             "the %s does not end with the solution of a fresh node fitted on its own data (max |dWout| = %.3g): training one side leaked "
                             "into another" % ("fitted" if sc["fitted_before"] else "fresh", sc["how"][0], sc["how"][1], lab,
                                               float(np.max(np.abs(node.Wout - ref.Wout)))), sc)
    except Exception as e:  # noqa: BLE001
        return _viol("copy:interleaved-training:exception", "interleaved training of copies raises %r" % (e,), sc)
    return None


def _judge_midtraining(sc):
    """a Ridge IN THE MIDDLE of an incremental training (partial_fit done, fit() not yet) is copied by a CHAIN of copy operations (e.g. pickle round trip then
    Node.copy), the last copy is trained further, then both sides finish with fit(): the original ends with the solution of its own batches only, the copy
    with the solution of all of them (the copies share no accumulator)"""
    import copy as _copy
    import pickle
    import reservoirpy as rpy
    rpy.verbosity(0)
    from reservoirpy.nodes import Ridge
    rs = np.random.RandomState(sc["seed"] % (2 ** 31))
    T = 8

    def data():
        return rs.randint(-8, 9, (T, 3)) / 4.0, rs.randint(-8, 9, (T, 2)) / 4.0
    D = [data() for _ in range(4)]
    tag = sc["tag"]

    def cp(node, how):
        if how == "deepcopy":
            return _copy.deepcopy(node)
        if how == "pickle":
            return pickle.loads(pickle.dumps(node))
        return node.copy()
    try:
        orig = Ridge(ridge=0.125, name="mt%s_o" % tag)
        orig.partial_fit(*D[0])
        node = orig
        chain = []
        for how in sc["chain"]:
            node = cp(node, how)
            chain.append(node)
        clone = chain[-1]
        base = chain[-2] if len(chain) > 1 else orig          # the node the last copy was taken from
        order = sc["train_first"]
        if order == "copy":
            clone.partial_fit(*D[1]); clone.partial_fit(*D[2]); base.partial_fit(*D[3])
        else:
            base.partial_fit(*D[3]); clone.partial_fit(*D[1]); clone.partial_fit(*D[2])
        base.fit(); clone.fit()
        for lab, node, idx in (("node the copy was taken from", base, [0, 3]), ("copy", clone, [0, 1, 2])):
            ref = Ridge(ridge=0.125, name="mt%s_r%s" % (tag, lab[0]))
            for i in idx:
                ref.partial_fit(*D[i])
            ref.fit()
            if not (np.allclose(node.Wout, ref.Wout, rtol=1e-9, atol=1e-9) and np.allclose(node.bias, ref.bias, rtol=1e-9, atol=1e-9)):
                return _viol("copy:mid-training-accumulators-shared", "a Ridge after one partial_fit, copied by the chain %s, both sides trained further (the %s first) and "
                             "finished with fit(): the %s does not end with the solution of a fresh node given its own batches (max |dWout| = %.3g): the "
                             "training accumulators are shared between a node and its copy" % (" -> ".join(sc["chain"]), order, lab,
                                                                                               float(np.max(np.abs(node.Wout - ref.Wout)))), sc)
    except Exception as e:  # noqa: BLE001
        return _viol("copy:mid-training:exception", "copying a Ridge in the middle of an incremental training (%s) raises %r" % (" -> ".join(sc["chain"]), e), sc)
    return None


def _judge_legacy_reload(sc):
    """a legacy ESN saved ONCE; a first loaded instance is edited in place by its user (W *= 0.5, Wout[:] = 0, Win += 1): loading the saved model a
    second time, and converting it with load_compat, still reproduce the outputs of the model that was saved (a loaded model shares nothing with the files)"""
    import os
    import shutil
    import tempfile
    import reservoirpy as rpy
    rpy.verbosity(0)
    from reservoirpy.compat import ESN, load, load_compat
    rs = np.random.RandomState(sc["seed"] % (2 ** 31))
    N, din, dout = 5, 2, 2
    W = rs.randint(-4, 5, (N, N)) / 16.0
    Win = rs.randint(-4, 5, (N, din + 1)) / 4.0
    Wfb = rs.randint(-4, 5, (N, dout)) / 8.0 if sc["fb"] else None
    X, Y = rs.randint(-8, 9, (20, din)) / 8.0, rs.randint(-8, 9, (20, dout)) / 8.0
    tmp = tempfile.mkdtemp(prefix="c16reload_")
    try:
        kw = dict(lr=0.5, W=W, Win=Win, input_bias=True, ridge=0.125)
        if sc["fb"]:
            kw.update(Wfb=Wfb, fbfunc=np.tanh)
        esn = ESN(**kw)
        esn.train([X], [Y], workers=1)
        ref = np.asarray(esn.run([X], workers=1)[0][0])
        saved = os.path.join(tmp, "saved")
        esn.save(saved)
        first = load(saved)
        first.W *= 0.5
        first.Wout[:] = 0.0
        first.Win += 1.0
        second = load(saved)
        d2 = float(np.max(np.abs(np.asarray(second.run([X], workers=1)[0][0]) - ref)))
        conv = load_compat(saved)
        d3 = float(np.max(np.abs(np.asarray(conv.run(X)) - ref)))
        if d2 > 1e-9 or d3 > 1e-9:
            return _viol("legacy:loaded-instance-aliases-saved-files", "a legacy ESN is saved, loaded and the loaded instance edited in place (W *= 0.5, Wout[:] = 0, Win += 1): "
                         "loading the same saved model again differs from the saved model by %.3g, load_compat by %.3g" % (d2, d3), sc, 0.0, [d2, d3])
    except Exception as e:  # noqa: BLE001
        return _viol("legacy:reload:exception", "save / load / edit / load again raises %r" % (e,), sc)
    finally:
        shutil.rmtree(tmp, ignore_errors=True)
    return None


def _judge(sc):
    if sc["family"] == "fbclamp":
        return _judge_fbclamp(sc)
    if sc["family"] == "legacyact":
        return _judge_legacy_activation(sc)
    if sc["family"] == "interleaved":
        return _judge_interleaved(sc)
    if sc["family"] == "legacyreload":
        return _judge_legacy_reload(sc)
    if sc["family"] == "midtraining":
        return _judge_midtraining(sc)
    if sc["family"] == "legacy_noise":
        return _judge_legacy_noise(sc)
    if sc["family"] == "collision":
        return _judge_collision(sc)
    if sc["family"] == "online":
        return _judge_online(sc)
    if sc["family"] == "failedcopy":
        return _judge_failed_copy(sc)
    if sc["family"] == "namedesn":
        return _judge_named_esn(sc)
    if sc["family"] == "concatrefit":
        return _judge_concat_refit(sc)
    if sc["family"] == "class":
        return _judge_class(sc)
    if sc["family"] == "ocopy":
        return _judge_copy(sc)
    if sc["family"] == "legacy":
        return _judge_legacy(sc)
    if sc["family"] == "copy":
        # a correspondence scenario: decide it with the scenario-language oracle
        return _judge_copy_scen({"family": "ocopy", "kind": "scen", "tag": sc["tag"], "seed": sc["seed"], "how": sc["how"]},
                                core.random.Random(sc["seed"]))
    return None


def judge(case):
    return _judge(case["scenario"])


def oracle(ctx, scale=1):
    rng = ctx.rng("oracle")
    ncopy, nleg = ctx.n(70, 700) * scale, ctx.n(48, 480) * scale
    out, n = [], 0
    for i in range(ncopy):
        sc = gen_oracle_copy(rng, i)
        n += 1
        try:
            v = _judge_copy(sc)
        except Exception as e:  # noqa: BLE001
            v = _viol("oracle:exception", "the copy oracle itself raised %r" % e, sc)
        if v:
            out.append(v)
    for how in ("deepcopy", "pickle"):
        sc = {"family": "collision", "how": how, "seed": rng.randrange(10 ** 6), "tag": "col"}
        n += 1
        v = _judge_collision(sc)
        if v:
            out.append(v)
    for k in range(scale):
        for j, sp in enumerate(SPECIALS):
            sc = dict(sp, seed=rng.randrange(10 ** 6), tag="sp%d_%d" % (k, j))
            n += 1
            try:
                v = _judge(sc)
            except Exception as e:  # noqa: BLE001
                v = _viol("oracle:exception", "the %s probe itself raised %r" % (sp["family"], e), sc)
            if v:
                out.append(v)
    for i in range(ctx.n(48, 480) * scale):
        sc = gen_class_case(rng, i)
        n += 1
        try:
            v = _judge_class(sc)
        except Exception as e:  # noqa: BLE001
            v = _viol("oracle:exception", "the class probe itself raised %r" % e, sc)
        if v:
            out.append(v)
    for i in range(ctx.n(10, 100) * scale):
        sc = gen_legacy_noise(rng, i)
        n += 1
        v = _judge_legacy_noise(sc)
        if v:
            out.append(v)
    for i in range(nleg):
        cfg = dict(LEGACY_GRID[i % len(LEGACY_GRID)])
        if cfg["fb"]:
            cfg["fbfunc"] = ["id", "half", "relu"][(i // len(LEGACY_GRID)) % 3] if i >= len(LEGACY_GRID) else rng.choice(["id", "half"])
        sc = gen_legacy(rng, "o%d" % i, cfg)
        n += 1
        v = _judge_legacy(sc)
        if v:
            out.append(v)
    return {"evaluations": n, "violations": out,
            "rule": "on the real objects: copy (deepcopy / pickle / Node.copy) of Reservoir>>Ridge models with and without feedback, ESN nodes, single nodes "
                    "and random scenario models, trained or not, after a run history: same arrays, no shared memory, same results for run / "
                    "stateful=False / name-keyed input / return_states / reset=True / get_node, further fit works, overwriting either side leaves the other's "
                    "bytes unchanged; legacy ESN grid (bias x sparse x feedback x trained x dim_out, fbfunc id/half/relu): load reproduces exactly, "
                    "load_compat to 1e-9"}


def replay(payload):
    sc = payload["scenario"]
    if "inner" in sc:
        sc = {k: v for k, v in sc.items() if k != "inner"}
    v = _judge(sc)
    return {"violates": bool(v), "detail": v}


def pregen(ctx):
    """tie (T) for the legacy part: re-translate compat/_base.py (_ESNBase._get_next_state, compute_outputs) of the tree under test into
    coq/gen/Gen_legacy.v (vlib/la_specs_legacy.py on top of vlib/py2coq_la.py) and re-extract the keyword table of compat/__init__.py
    load_compat into coq/gen/Gen_compat.v (vlib/py2coq_compat.py); proofs/Gen_legacy_eq.v then proves them equal to legacy_step /
    legacy_out / convert of model/Store.v.  Returns None or the error text; on rejection a stub that does not compile replaces the file
    (never a stale model)."""
    from vlib import la_specs_legacy, py2coq_compat
    errs = [e for e in (la_specs_legacy.pregen(), py2coq_compat.pregen()) if e]
    return "\n".join(errs) or None
