"""C01 — reservoir states obey the documented leaky-integrator recurrence.

correspondence: seeded scenarios run on the real `Reservoir` and on coq/model/Reservoir.v at Q (run/RunC01.v chk_res / chk_init).
oracle: the documented law recomputed with plain numpy from the node's own matrices, compared step by step.
"""
import json
from fractions import Fraction

import numpy as np

from vlib import core
from vlib.core import q, qmat, qvec, nat, coqbool, coqlist

IMPORTS_GEN = ("From Coq Require Import List QArith.\nFrom RV Require Import base.Num base.LA model.Reservoir run.RunC01 run.RunGenC01.\n"
               "Import ListNotations.\nOpen Scope Q_scope.")
IMPORTS = ("From Coq Require Import List QArith.\nFrom RV Require Import base.Num base.LA model.Reservoir run.RunC01.\n"
           "Import ListNotations.\nOpen Scope Q_scope.")
TRUSTED = [
    "named activations ('tanh', 'sigmoid', 'softplus', 'softmax', 'identity', 'relu') are replayed in the Q model as uninterpreted "
    "functions: a table of (argument column, result column) pairs produced by the node's own resolved activation function on the "
    "pre-activations of the numpy recomputation; the model must hit a key within 1e-9 at every step (that the names resolve to the "
    "right mathematical functions is C18)",
    "scipy.sparse csr/csc matrices and dense arrays are given the same meaning (the dense matrix) by the harness",
    "the feedback vector of each step is what reservoir.feedback() delivered (set through the sender's state for a stand-alone "
    "reservoir, recorded by the fb_activation callable inside a Model); *when* a sender's value becomes visible is C05, not C01",
]
ASSUMPTIONS = [
    "noise gains are 0 (the property's premise); the model keeps the noise terms and the theorems show they vanish for gain 0",
    "correspondence inputs are small dyadic rationals (|W_ij| <= 3/4, T <= 10) so float64 results are within 1e-10 of the exact value; "
    "seeded initialisers are read back from the node as exact binary fractions",
]

EXACT = {"id": "AId", "relu": "ARelu", "hard": "AHard", "half": "AHalf"}
NAMED = ["tanh", "sigmoid", "softplus", "identity", "relu", "softmax"]
_uid = [0]


def uname(prefix):
    _uid[0] += 1
    return "c01_%s_%d" % (prefix, _uid[0])


def rpy():
    import reservoirpy
    reservoirpy.verbosity(0)
    return reservoirpy


def exact_fn(name):
    return {"id": lambda x: x, "relu": lambda x: np.maximum(x, 0), "hard": lambda x: np.clip(x, -1, 1),
            "half": lambda x: x / 2}[name]


def fr(v):
    return Fraction(v)


def farr(rows, cols=None):
    a = np.array([[float(fr(v)) for v in r] for r in rows], dtype=float)
    if cols is not None:
        a = a.reshape(len(rows), cols)
    return a


def fvec(v):
    return np.array([float(fr(x)) for x in v], dtype=float)


def jsonable(c):
    return json.loads(json.dumps(c, default=lambda f: str(f)))


# ------------------------------------------------------------------------------------------ scenarios
def rmat(rng, r, c, den=8, lim=6, pzero=0.0):
    return [[Fraction(0) if rng.random() < pzero else Fraction(rng.randint(-lim, lim), den) for _ in range(c)] for _ in range(r)]


def rrows(rng, T, d, lim=8, maxpow=2):
    return [[core.dyadic(rng, lim, maxpow) for _ in range(d)] for _ in range(T)]


def gen_case(rng, i, big=False):
    n = rng.randint(1, 6 if big else 4)
    d = rng.randint(1, 3)
    T = rng.randint(1, 8 if n >= 5 else 10)
    c = {"units": n, "in_dim": d, "eq": rng.choice(["internal", "external"]),
         "how": rng.choice(["run", "run", "call"]), "seeded": None, "fb": None}
    c["lr"] = Fraction(rng.randint(0, 8), 8) if rng.random() < 0.5 else [Fraction(rng.randint(0, 8), 8) for _ in range(n)]
    if rng.random() < 0.1:
        c["lr"] = 1  # python int / default-like
    r = rng.random()
    c["act"] = rng.choice(list(EXACT)) if r < 0.6 else rng.choice(NAMED)
    c["W"] = rmat(rng, n, n, pzero=rng.choice([0.0, 0.3, 0.6]))
    c["Wfmt"] = rng.choice(["dense", "csr", "csc"])
    c["win_mode"] = rng.choice(["split", "split_units", "biascol", "nobias"])
    c["Win"] = rmat(rng, n, d + (1 if c["win_mode"] == "biascol" else 0), den=4, lim=8)
    c["Winfmt"] = rng.choice(["dense", "dense", "csr"])
    c["bias"] = [Fraction(rng.randint(-8, 8), 4) for _ in range(n)]
    if rng.random() < 0.2:
        # seeded initialisers: the drawn arrays are read back from the node
        c["seeded"] = {"seed": rng.randint(0, 10 ** 6), "sr": Fraction(rng.randint(1, 12), 8),
                       "input_bias": rng.random() < 0.7, "input_scaling": Fraction(rng.randint(1, 8), 4)}
        c["Wfmt"] = c["Winfmt"] = "init"
    if rng.random() < 0.35:
        k = rng.randint(1, 3)
        fb = {"dim": k, "Wfb": rmat(rng, n, k, den=4, lim=6), "fb_act": rng.choice(list(EXACT) + ["tanh", "sigmoid"]),
              "mode": rng.choice(["standalone", "model"])}
        if fb["mode"] == "standalone":
            fb["fbs"] = rrows(rng, T if c["how"] == "call" else 1, k, lim=6)
        else:
            fb["M"] = rmat(rng, d, k, den=2, lim=4)   # sender inside the model: x -> x @ M
            fb["fb_act"] = rng.choice(list(EXACT))    # recorded by the callable
            c["how"] = "run"
        c["fb"] = fb
    c["X"] = rrows(rng, T, d)
    # a first run leaves a non-zero internal_state / state behind; then the checked run starts from it or from from_state
    c["warm"] = rrows(rng, rng.randint(1, 3), d) if (rng.random() < 0.4 and not (c["fb"] and c["fb"]["mode"] == "model")) else None
    c["r0"] = [core.dyadic(rng, 8, 2) for _ in range(n)] if rng.random() < 0.5 and not (c["fb"] and c["fb"]["mode"] == "model") else None
    # hyper-parameters read at every step may be reassigned (attribute assignment) on the initialised node between two runs:
    # the node is built and warmed up with c["pre"], then `node.lr = ...` / `node.activation = ...` set the values of the checked run
    # input FORMS of the same values: bias as a (units,1) column or a 1-D (units,) vector; per-unit lr as ndarray or python list
    c["bias_form"] = rng.choice(["col", "1d"])
    c["lr_form"] = rng.choice(["ndarray", "list"])
    c["pre"] = None
    if rng.random() < 0.3 and not (c["fb"] and c["fb"]["mode"] == "model"):
        pre = {"lr": Fraction(rng.randint(0, 8), 8) if rng.random() < 0.7 else [Fraction(rng.randint(0, 8), 8) for _ in range(n)]}
        if c["act"] in EXACT and rng.random() < 0.5:
            pre["act"] = rng.choice(list(EXACT))
        c["pre"] = pre
        if c["warm"] is None:
            c["warm"] = rrows(rng, rng.randint(1, 3), d)
    return c


def gen_cases(rng, n, big=False):
    return [gen_case(rng, i, big) for i in range(n)]


def gen_init_case(rng):
    """Initialisation conventions alone, including shapes that initialize() must reject."""
    n, d = rng.randint(1, 4), rng.randint(1, 3)
    cols = rng.choice([d, d, d + 1, d + 1, d + 2, max(0, d - 1)])
    return {"kind": "init", "units": n, "in_dim": d, "input_bias": rng.random() < 0.6,
            "Win": rmat(rng, n, cols, den=4, lim=8) if cols > 0 else [[] for _ in range(n)], "bias": [Fraction(rng.randint(-8, 8), 4) for _ in range(n)]}


# ------------------------------------------------------------------------------------------ the real library
def lr_value(lr, form="ndarray"):
    if isinstance(lr, list):
        v = [float(fr(x)) for x in lr]
        return v if form == "list" else np.array(v)
    return int(lr) if isinstance(lr, int) else float(fr(lr))


def bias_value(c):
    b = fvec(c["bias"])
    return b if c.get("bias_form") == "1d" else b.reshape(-1, 1)


def reassign(node, c):
    """attribute assignment on the live node (goes to the hypers through Node.__setattr__)"""
    pre = c.get("pre")
    if pre:
        node.lr = lr_value(c["lr"], c.get("lr_form", "ndarray"))
        if "act" in pre:
            node.activation = exact_fn(c["act"])


def build(c):
    """Construct the real Reservoir of a scenario (not yet initialised). Returns (node, info)."""
    rpy()
    import scipy.sparse as sp
    from reservoirpy.nodes import Reservoir
    n, d = c["units"], c["in_dim"]
    pre = c.get("pre") or {}
    act0 = pre.get("act", c["act"])
    act = exact_fn(act0) if act0 in EXACT else act0
    lr = lr_value(pre.get("lr", c["lr"]), c.get("lr_form", "ndarray"))
    kw = dict(lr=lr, activation=act, equation=c["eq"], noise_rc=0.0, noise_in=0.0, noise_fb=0.0, name=uname("res"))
    rec = []
    if c["fb"]:
        fa = c["fb"]["fb_act"]
        if c["fb"]["mode"] == "model":
            g = exact_fn(fa)

            def recording(y, g=g, rec=rec):
                rec.append(np.array(y, dtype=float).ravel().tolist())
                return g(y)
            kw["fb_activation"] = recording
        else:
            kw["fb_activation"] = exact_fn(fa) if fa in EXACT else fa
        kw["Wfb"] = farr(c["fb"]["Wfb"], c["fb"]["dim"])
    if c["seeded"]:
        s = c["seeded"]
        node = Reservoir(n, seed=s["seed"], sr=float(fr(s["sr"])), input_scaling=float(fr(s["input_scaling"])),
                         rc_connectivity=1.0, input_connectivity=1.0, input_bias=s["input_bias"], **kw)
    else:
        W = farr(c["W"], n)
        W = {"dense": W, "csr": sp.csr_matrix(W), "csc": sp.csc_matrix(W)}[c["Wfmt"]]
        Win = farr(c["Win"], d + (1 if c["win_mode"] == "biascol" else 0))
        if c["Winfmt"] == "csr":
            Win = sp.csr_matrix(Win)
        if c["win_mode"] == "split":
            node = Reservoir(W=W, Win=Win, bias=bias_value(c), **kw)
        elif c["win_mode"] == "split_units":
            node = Reservoir(W=W, Win=Win, bias=bias_value(c), input_bias=True, units=n, **kw)
        elif c["win_mode"] == "biascol":
            node = Reservoir(W=W, Win=Win, input_bias=True, **kw)
        else:
            node = Reservoir(W=W, Win=Win, input_bias=False, **kw)
    return node, rec


def dense(a):
    return np.asarray(a.toarray() if hasattr(a, "toarray") else a, dtype=float)


def run_impl(c):
    """Run one scenario on reservoirpy.  Observation: the matrices the node holds, the start pair, every returned row,
    the feedback vector of every step, final state / internal_state."""
    from reservoirpy.node import Node
    from reservoirpy.nodes import Input
    node, rec = build(c)
    n, d = c["units"], c["in_dim"]
    X = farr(c["X"], d)
    T = len(X)
    o = {}
    fb = c["fb"]
    snd = None
    if fb and fb["mode"] == "standalone":
        k = fb["dim"]

        def sinit(nd, x=None, **kwargs):
            nd.set_input_dim(k)
            nd.set_output_dim(k)
        snd = Node(forward=lambda nd, x: x, initializer=sinit, input_dim=k, output_dim=k, name=uname("snd"))
        node <<= snd
        snd.initialize(np.zeros((1, k)))
        node.initialize(X[:1])
        node.initialize_feedback()
        fbs = farr(fb["fbs"], k)
        snd.reset(to_state=fbs[:1])
    if fb and fb["mode"] == "model":
        k = fb["dim"]
        M = farr(fb["M"], k)

        def minit(nd, x=None, **kwargs):
            nd.set_input_dim(x.shape[1])
            nd.set_output_dim(k)
        fbn = Node(forward=lambda nd, x: x @ M, initializer=minit, name=uname("fbn"))
        src = Input(name=uname("src"))
        node <<= fbn
        model = (src >> node) & (src >> fbn)
        del rec[:]
        out = model.run(X)
        o["outs"] = np.asarray(out[node.name]).tolist()
        o["fbs"] = [list(r) for r in rec]
        o["s0"], o["r0"] = [0.0] * n, [0.0] * n
    else:
        if c["warm"] is not None:
            node.run(farr(c["warm"], d))
            reassign(node, c)
        elif not node.is_initialized:
            node.initialize(X[:1])
        o["s0"] = np.asarray(node.internal_state).ravel().tolist()
        r0 = None if c["r0"] is None else fvec(c["r0"]).reshape(1, -1)
        o["r0"] = (node.state() if r0 is None else r0).ravel().tolist()
        if c["how"] == "run":
            o["outs"] = node.run(X, from_state=r0).tolist()
            o["fbs"] = [fbs[0].tolist()] * T if snd is not None else [[]] * T
        else:
            outs, seen = [], []
            for t in range(T):
                if snd is not None:
                    snd.reset(to_state=fbs[t:t + 1])
                    seen.append(fbs[t].tolist())
                else:
                    seen.append([])
                row = node.call(X[t:t + 1], from_state=r0 if t == 0 else None)
                outs.append(row.ravel().tolist() if row.shape == (1, n) else row.tolist())
            o["outs"], o["fbs"] = outs, seen
    o["sfin"] = np.asarray(node.internal_state).ravel().tolist()
    o["rfin"] = node.state().ravel().tolist()
    o["W"] = dense(node.W).tolist()
    o["Win"] = dense(node.Win).reshape(n, -1).tolist()
    o["bias"] = dense(node.bias).ravel().tolist()
    o["bias_shape"] = list(np.shape(node.bias))
    o["Wfb"] = dense(node.Wfb).tolist() if fb else None
    o["act_fn"] = node.activation
    o["fbact_fn"] = node.fb_activation if fb else None
    o["lr"] = np.asarray(node.lr, dtype=float).ravel().tolist()
    return o


def numpy_law(eq, W, Win, bias, Wfb, lr, f, g, s, r, u, y):
    """One step of the documented law on column vectors, in plain numpy.  Returns (pre-activation, new internal, new state)."""
    pre = W @ r + Win @ u + bias
    if Wfb is not None:
        pre = pre + Wfb @ g(y)
    lr = np.asarray(lr, dtype=float).reshape(-1, 1) if np.ndim(lr) else float(lr)
    if eq == "internal":
        return pre, s, (1 - lr) * r + lr * f(pre)
    s2 = (1 - lr) * s + lr * pre
    return s2, s2, f(s2)


def tables(c, o):
    """(argument column, result column) pairs of the node's own activation functions along the numpy recomputation."""
    n = c["units"]
    W, Win, bias = np.array(o["W"]), np.array(o["Win"]).reshape(n, -1), np.array(o["bias"]).reshape(-1, 1)
    Wfb = np.array(o["Wfb"]) if o["Wfb"] is not None else None
    f, g = o["act_fn"], o["fbact_fn"]
    lr = c["lr"]
    lr = fvec(lr) if isinstance(lr, list) else float(fr(lr))
    s, r = np.array(o["s0"]).reshape(-1, 1), np.array(o["r0"]).reshape(-1, 1)
    X = farr(c["X"], c["in_dim"])
    tab, tabg = [], []
    for t in range(len(X)):
        y = np.array(o["fbs"][t], dtype=float).reshape(-1, 1) if Wfb is not None and t < len(o["fbs"]) else None
        if Wfb is not None and y is None:
            break
        if Wfb is not None and c["fb"]["fb_act"] not in EXACT:
            tabg.append((y.ravel().tolist(), np.asarray(g(y)).ravel().tolist()))
        arg, s, r2 = numpy_law(c["eq"], W, Win, bias, Wfb, lr, f, g, s, r, X[t].reshape(-1, 1), y)
        tab.append((arg.ravel().tolist(), np.asarray(f(arg)).ravel().tolist()))
        # follow the observed trajectory so that the keys are the implementation's own arguments
        r = np.array(o["outs"][t]).reshape(-1, 1) if t < len(o["outs"]) else r2
    return tab, tabg


def coq_tab(tab):
    return "(ATab %s)" % coqlist(["(%s,%s)" % (qvec(a), qvec(b)) for a, b in tab])


def coq_lr(lr):
    if isinstance(lr, list):
        return "(LrV %s)" % qvec(lr)
    return "(LrS %s)" % q(lr)


def to_coq(c, o):
    n, d = c["units"], c["in_dim"]
    tab, tabg = tables(c, o)
    act = EXACT[c["act"]] if c["act"] in EXACT else coq_tab(tab)
    if c["fb"]:
        fa = c["fb"]["fb_act"]
        fbact = EXACT[fa] if fa in EXACT else coq_tab(tabg)
        wfb = "(Some %s)" % qmat(o["Wfb"])
    else:
        fbact, wfb = "AId", "None"
    if c["seeded"]:
        # arrays drawn by the initialisers, read back: W dense, Win with in_dim columns, bias (zeros when input_bias=False)
        W, ib, win, bias = o["W"], c["seeded"]["input_bias"], o["Win"], o["bias"]
    else:
        W, ib, win, bias = c["W"], c["win_mode"] != "nobias", c["Win"], c["bias"]
    eq = "Internal" if c["eq"] == "internal" else "External"
    return "chk_res %s %s %s %s %s %s %s %s %s %s %s %s %s %s %s %s %s %s %s" % (
        eq, qmat(W), coqbool(ib), qmat(win), qvec(bias), nat(d), wfb, coq_lr(c["lr"]), act, fbact,
        qvec(o["s0"]), qvec(o["r0"]), qmat(c["X"]), qmat(o["fbs"]), qmat(o["outs"]), qvec(o["sfin"]), qvec(o["rfin"]),
        qmat(o["Win"]), qvec(o["bias"]))


def run_init(c):
    """initialize() on a user-supplied Win (and bias): observed (Win, bias) or None when it raises ValueError."""
    rpy()
    from reservoirpy.nodes import Reservoir
    n, d = c["units"], c["in_dim"]
    cols = len(c["Win"][0])
    Win = farr(c["Win"], cols)
    kw = dict(W=np.zeros((n, n)), Win=Win, input_bias=c["input_bias"], name=uname("ini"))
    if c["input_bias"]:
        kw["bias"] = fvec(c["bias"]).reshape(-1, 1)
    node = Reservoir(**kw)
    try:
        node.initialize(np.zeros((1, d)))
    except ValueError:
        return None
    return {"Win": dense(node.Win).reshape(n, -1).tolist(), "bias": dense(node.bias).ravel().tolist()}


def init_to_coq(c, o):
    obs = "None" if o is None else "(Some (%s, %s))" % (qmat(o["Win"]), qvec(o["bias"]))
    return "chk_init %s %s %s %s %s" % (coqbool(c["input_bias"]), qmat(c["Win"]), qvec(c["bias"]), nat(c["in_dim"]), obs)


def nontrivial(c, o):
    """the trajectory moves, depends on the previous state (W.r != 0 at some step) and is not all-zero"""
    outs = np.array(o["outs"])
    W = np.array(o["W"])
    prev = np.vstack([np.array(o["r0"]).reshape(1, -1), outs[:-1]])
    return len(outs) >= 2 and np.any(outs != 0) and np.any(prev @ W.T != 0) and np.any(outs[1:] != outs[:-1])


def strip(o):
    return {k: v for k, v in o.items() if not k.endswith("_fn")}


def pregen(ctx):
    """tie (T): re-translate nodes/reservoirs/base.py + utils/random.py (noise) of the tree under test into coq/gen/Gen_reservoir.v"""
    from vlib import gen
    return gen.pregen_units(["reservoir"])


def correspondence(ctx):
    rng = ctx.rng("corr")
    N = ctx.n(160, 1600)
    cases = gen_cases(rng, N, big=ctx.thorough)
    inits = [gen_init_case(rng) for _ in range(ctx.n(30, 200))]
    terms, keep, dist, nt = [], [], {}, set()

    def count(key):
        dist[key] = dist.get(key, 0) + 1
    for c in cases:
        try:
            o = run_impl(c)
        except Exception as e:
            terms.append("false")
            keep.append({"scenario": jsonable(c), "impl_error": repr(e)})
            continue
        try:
            terms.append(to_coq(c, o))
        except Exception as e:   # observation of the wrong shape cannot even be printed as the expected Gallina term
            terms.append("false")
            keep.append({"scenario": jsonable(c), "impl_error": "unprintable observation: %r" % (e,)})
            continue
        keep.append({"scenario": jsonable(c), "observed": jsonable(strip(o))})
        for key in ("eq:" + c["eq"], "act:" + c["act"], "W:" + c["Wfmt"], "bias:" + (c["win_mode"] if not c["seeded"] else "seeded"),
                    "lr:" + ("vector" if isinstance(c["lr"], list) else "scalar"),
                    "fb:" + (c["fb"]["mode"] + "/" + c["fb"]["fb_act"] if c["fb"] else "none"),
                    "start:" + ("from_state" if c["r0"] is not None else "current") + ("+warm" if c["warm"] is not None else ""),
                    "how:" + c["how"], "forms:bias-" + (c["bias_form"] if (not c["seeded"] and c["win_mode"].startswith("split")) else "n/a")
                    + ",lr-" + (c["lr_form"] if (isinstance(c["lr"], list) or (c.get("pre") and isinstance(c["pre"]["lr"], list))) else "scalar"),
                    "reassigned:" + ("none" if not c.get("pre") else "+".join(
                        ["lr:%s->%s" % ("vec" if isinstance(c["pre"]["lr"], list) else "scalar", "vec" if isinstance(c["lr"], list) else "scalar")]
                        + (["activation"] if "act" in c["pre"] else [])))):
            count(key)
        if nontrivial(c, o):
            nt.add(repr(jsonable(c)))
    for c in inits:
        try:
            o = run_init(c)
            terms.append(init_to_coq(c, o))
            keep.append({"scenario": jsonable(c), "observed": jsonable(o)})
        except Exception as e:
            terms.append("false")
            keep.append({"scenario": jsonable(c), "impl_error": repr(e)})
        count("init:" + ("accepted" if o is not None else "rejected"))
    failing, err = core.run_cases(ctx.pid, IMPORTS, terms, chunk=60)
    # the kernels GENERATED from the current source (tie T), executed at Q on the same scenarios against the same observations
    gterms = [(i, t.replace("chk_res ", "chk_gen_res ", 1)) for i, t in enumerate(terms) if t.startswith("chk_res ")]
    gfail, gerr = core.run_cases(ctx.pid + "_gen", IMPORTS_GEN, [t for _, t in gterms], chunk=60)
    dist["generated-kernel runs"] = len(gterms)
    dist["generated-kernel disagreements"] = len(gfail)
    if gerr:
        err = (err or "") + "generated kernels: " + gerr
    failing = sorted(set(failing) | {gterms[j][0] for j in gfail})
    return {"evaluations": len(terms) + len(gterms), "distinct_nontrivial": len(nt),
            "rule": "seeded Reservoir scenarios (units 1-6, in_dim 1-3, T<=10; both equations; scalar/per-unit lr in [0,1]; W dense/csr/csc or "
                    "seeded initialisers read back; bias split (column or 1-D vector)/in-Win/off; per-unit lr as ndarray or list; exact and named activations; feedback stand-alone or inside a Model; "
                    "start = current state after a warm-up run or from_state; run() or step-wise call(); lr / activation reassigned by attribute assignment on the initialised node between the warm-up and the checked run) plus Win/bias shape conventions incl. "
                    "rejected shapes; non-trivial = >= 2 steps, some output non-zero, W.r non-zero at some step, output changes between steps; "
                    "distinct by scenario text",
            "samples": [keep[0], keep[1], keep[min(7, len(keep) - 1)]],
            "distribution": dist, "tolerance": "1e-9 relative (qclose)",
            "failing": [dict(keep[i], index=i) for i in failing], "error": err}


# ------------------------------------------------------------------------------------------ oracle on the implementation
def _viol(key, what, c, expected=None, observed=None):
    return {"key": key, "what": what, "scenario": jsonable(c), "expected": jsonable(expected), "observed": jsonable(observed)}


def close(a, b):
    a, b = np.asarray(a, dtype=float), np.asarray(b, dtype=float)
    return a.shape == b.shape and np.allclose(a, b, rtol=1e-10, atol=1e-12)


def uses_forms(c):
    """which non-canonical input forms the scenario really exercises"""
    out = []
    if c.get("kind") == "init":
        return out
    if c.get("bias_form") == "1d" and not c["seeded"] and c["win_mode"].startswith("split"):
        out.append("bias_form")
    if c.get("lr_form") == "list" and (isinstance(c["lr"], list) or (c.get("pre") and isinstance(c["pre"]["lr"], list))):
        out.append("lr_form")
    return out


def _judge(c):
    """The law must hold whatever documented FORM the values are given in.  A violation that disappears when the same values are
    given in the canonical form (bias column, lr ndarray) is attributed to the form."""
    v = _judge0(c)
    forms = uses_forms(c) if v else []
    if not forms:
        return v
    canon = {"bias_form": "col", "lr_form": "ndarray"}
    if _judge0(dict(c, **canon)) is not None:
        return v
    for f in forms:
        # canonical everywhere except form f: does f alone break the law?
        if _judge0(dict(c, **dict(canon, **{f: c[f]}))) is not None:
            key, what = {"bias_form": ("bias:1d-vector", "a bias of shape (units,) (accepted by initialize) does not give the trajectory of the same bias as a (units,1) column"),
                         "lr_form": ("lr:list", "a per-unit leak rate given as a python list (array-like of shape (units,)) does not give the trajectory of the ndarray form")}[f]
            return _viol(key, what + " -- " + v["what"], c, v.get("expected"), v.get("observed"))
    return v


def _judge0(c):
    """Decide the law step by step on the real node: each returned row must equal the documented formula applied to the
    previous *observed* state, with the matrices the node itself holds (no Coq model involved)."""
    if c.get("kind") == "init":
        return _judge_init(c)
    if c.get("kind") == "softmax":
        return _judge_softmax(c)
    try:
        o = run_impl(c)
    except Exception as e:
        return _viol("exception", "valid reservoir scenario raises %r" % (e,), c)
    n, d = c["units"], c["in_dim"]
    # the node's matrices must be the supplied ones under the documented conventions
    if not c["seeded"]:
        Win_arg = farr(c["Win"], d + (1 if c["win_mode"] == "biascol" else 0))
        if c["win_mode"] == "biascol":
            eW, eb = Win_arg[:, 1:], Win_arg[:, 0]
        elif c["win_mode"] == "nobias":
            eW, eb = Win_arg, np.zeros(n)
        else:
            eW, eb = Win_arg, fvec(c["bias"])
        if not (close(o["W"], farr(c["W"], n)) and close(np.array(o["Win"]).reshape(n, -1), eW) and close(o["bias"], eb)):
            return _viol("init:weights", "W / Win / bias held by the node are not the supplied arrays (bias column convention)", c,
                         {"Win": eW.tolist(), "bias": eb.tolist()}, {"Win": o["Win"], "bias": o["bias"]})
    W, Win, bias = np.array(o["W"]), np.array(o["Win"]).reshape(n, -1), np.array(o["bias"]).reshape(-1, 1)
    Wfb = np.array(o["Wfb"]) if o["Wfb"] is not None else None
    f = exact_fn(c["act"]) if c["act"] in EXACT else o["act_fn"]
    g = None
    if c["fb"]:
        fa = c["fb"]["fb_act"]
        g = exact_fn(fa) if fa in EXACT else o["fbact_fn"]
        if len(o["fbs"]) != len(c["X"]):
            return _viol("feedback:activation-not-applied", "fb_activation was not applied exactly once per step", c, len(c["X"]), len(o["fbs"]))
    lr = c["lr"]
    lr = fvec(lr) if isinstance(lr, list) else float(fr(lr))
    s, r = np.array(o["s0"]).reshape(-1, 1), np.array(o["r0"]).reshape(-1, 1)
    X = farr(c["X"], d)
    if np.shape(o["outs"]) != (len(X), n):
        return _viol("%s:shape" % c["eq"], "run returns an array of the wrong shape", c, [len(X), n], list(np.shape(o["outs"])))
    for t in range(len(X)):
        y = np.array(o["fbs"][t], dtype=float).reshape(-1, 1) if Wfb is not None else None
        _, s, r2 = numpy_law(c["eq"], W, Win, bias, Wfb, lr, f, g, s, r, X[t].reshape(-1, 1), y)
        if not close(r2.ravel(), o["outs"][t]):
            return _viol("%s:step%s" % (c["eq"], ":after-reassignment" if c.get("pre") else ""), "state at step %d is not the documented update of the previous state (%s equation)" % (t, c["eq"]),
                         c, r2.ravel().tolist(), o["outs"][t])
        r = np.array(o["outs"][t]).reshape(-1, 1)
    if not close(r.ravel(), o["rfin"]):
        return _viol("%s:final-state" % c["eq"], "node.state() after the run is not the last returned row", c, r.ravel().tolist(), o["rfin"])
    if c["eq"] == "external" and not close(s.ravel(), o["sfin"]):
        return _viol("external:internal_state", "internal_state after the run is not the leaky integration of the pre-activations", c,
                     s.ravel().tolist(), o["sfin"])
    if c["eq"] == "internal" and not close(o["s0"], o["sfin"]):
        return _viol("internal:internal_state", "internal equation modified internal_state", c, o["s0"], o["sfin"])
    return None


def _judge_init(c):
    try:
        o = run_init(c)
    except Exception as e:
        return _viol("init:exception", "initialize raises %r (not ValueError)" % (e,), c)
    n, d = c["units"], c["in_dim"]
    cols = len(c["Win"][0])
    Win = farr(c["Win"], cols)
    if cols == d + 1 and c["input_bias"]:
        exp = {"Win": Win[:, 1:].tolist(), "bias": Win[:, 0].tolist()}
    elif cols == d:
        exp = {"Win": Win.tolist(), "bias": (fvec(c["bias"]) if c["input_bias"] else np.zeros(n)).tolist()}
    else:
        exp = None
    if (exp is None) != (o is None):
        return _viol("init:shape-check", "Win of %d columns for input dimension %d, input_bias=%s: %s" %
                     (cols, d, c["input_bias"], "accepted" if o is not None else "rejected"), c, exp, o)
    if exp is not None and not (close(np.array(exp["Win"]).reshape(n, -1), np.array(o["Win"]).reshape(n, -1)) and close(exp["bias"], o["bias"])):
        return _viol("init:weights", "Win / bias after initialize are not the documented split", c, exp, o)
    return None


def judge(case):
    return _judge(case["scenario"])


def gen_ugly(rng, i):
    """Larger reservoirs with arbitrary float weights and inputs (oracle only: no exactness needed)."""
    c = gen_case(rng, i, big=True)
    n = c["units"] = rng.randint(1, 20)
    d, T = c["in_dim"], rng.randint(1, 30)
    g = np.random.default_rng(rng.randint(0, 2 ** 31))
    sc = rng.choice([0.1, 1.0, 3.0])
    c["W"] = (g.normal(size=(n, n)) * sc / max(1, n) ** 0.5 * (g.random((n, n)) < rng.choice([1.0, 0.3]))).tolist()
    c["Win"] = g.normal(size=(n, d + (1 if c["win_mode"] == "biascol" else 0))).tolist()
    c["bias"] = g.normal(size=n).tolist()
    c["lr"] = float(g.random()) if not isinstance(c["lr"], list) else g.random(n).tolist()
    if c.get("pre"):
        c["pre"]["lr"] = float(g.random()) if not isinstance(c["pre"]["lr"], list) else g.random(n).tolist()
    c["X"] = (g.normal(size=(T, d)) * rng.choice([1.0, 10.0])).tolist()
    c["r0"] = g.normal(size=n).tolist() if c["r0"] is not None else None
    if c["fb"]:
        k = c["fb"]["dim"]
        c["fb"]["Wfb"] = g.normal(size=(n, k)).tolist()
        if c["fb"]["mode"] == "standalone":
            c["fb"]["fbs"] = g.normal(size=(T if c["how"] == "call" else 1, k)).tolist()
        else:
            c["fb"]["M"] = g.normal(size=(d, k)).tolist()
    return c


# ---- directed probe: the 'softmax' activation, judged against a reference softmax written here (the random scenarios above take the
# node's own resolved function as f, so they cannot see a softmax that normalises the wrong way on the reservoir's column vector)
def _ref_softmax(v):
    """y_k = exp(v_k) / sum_i exp(v_i), i over ALL entries of the vector (max subtracted first: no overflow)"""
    v = np.asarray(v, dtype=float)
    e = np.exp(v - np.max(v))
    return e / e.sum()


_HARD = "hard"      # exactly computable activation used where only the feedback activation is under test


def softmax_cases(rng):
    """both equations x (activation='softmax' | fb_activation='softmax' | both) x (scalar | per-unit lr); dense dyadic W / Win / bias"""
    out = []
    for eq in ("internal", "external"):
        for act, fbact in (("softmax", None), (_HARD, "softmax"), ("softmax", "softmax")):
            for lrv in (False, True):
                n, d, T = rng.randint(3, 5), rng.randint(1, 2), 4
                c = {"kind": "softmax", "eq": eq, "act": act, "fb_act": fbact, "units": n, "in_dim": d,
                     "W": rmat(rng, n, n), "Win": rmat(rng, n, d, den=4, lim=8), "bias": [Fraction(rng.randint(-8, 8), 4) for _ in range(n)],
                     "lr": [Fraction(rng.randint(1, 8), 8) for _ in range(n)] if lrv else Fraction(rng.randint(1, 8), 8),
                     "X": rrows(rng, T, d), "r0": [core.dyadic(rng, 4, 2) for _ in range(n)],
                     "how": "call" if fbact else rng.choice(["run", "call"])}
                if fbact:
                    k = rng.randint(2, 3)
                    c["Wfb"], c["fbs"] = rmat(rng, n, k, den=4, lim=6), rrows(rng, T, k, lim=6)
                out.append(c)
    return out


def _judge_softmax(c):
    """every step from a random start state: new state == documented law with f (resp. g) = softmax over all units of the
    pre-activation (resp. feedback) vector, recomputed from the previous OBSERVED state; tolerance 1e-9"""
    rpy()
    from reservoirpy.node import Node
    from reservoirpy.nodes import Reservoir
    n, d = c["units"], c["in_dim"]
    W, Win, bias = farr(c["W"], n), farr(c["Win"], d), fvec(c["bias"]).reshape(-1, 1)
    lr = fvec(c["lr"]) if isinstance(c["lr"], list) else float(fr(c["lr"]))
    X, r0 = farr(c["X"], d), fvec(c["r0"]).reshape(1, -1)
    hard = exact_fn(_HARD)
    f = _ref_softmax if c["act"] == "softmax" else hard
    g, Wfb, fbs = None, None, None
    key = "law:softmax-activation"
    try:
        kw = dict(W=W.copy(), Win=Win.copy(), bias=bias.copy(), lr=lr, equation=c["eq"], activation="softmax" if c["act"] == "softmax" else hard,
                  noise_rc=0.0, noise_in=0.0, noise_fb=0.0, name=uname("smx"))
        snd = None
        if c.get("fb_act"):
            k = len(c["Wfb"][0])
            Wfb, fbs, g = farr(c["Wfb"], k), farr(c["fbs"], k), _ref_softmax
            node = Reservoir(Wfb=Wfb.copy(), fb_activation="softmax", **kw)

            def sinit(nd, x=None, **kwargs):
                nd.set_input_dim(k)
                nd.set_output_dim(k)
            snd = Node(forward=lambda nd, x: x, initializer=sinit, input_dim=k, output_dim=k, name=uname("smxsnd"))
            node <<= snd
            snd.initialize(np.zeros((1, k)))
            node.initialize(X[:1])
            node.initialize_feedback()
        else:
            node = Reservoir(**kw)
            node.initialize(X[:1])
        node.reset(to_state=r0)
        s = np.asarray(node.internal_state, dtype=float).reshape(-1, 1).copy()
        if c["how"] == "run":
            outs = np.asarray(node.run(X), dtype=float)
        else:
            rows_ = []
            for t in range(len(X)):
                if snd is not None:
                    snd.reset(to_state=fbs[t:t + 1])
                rows_.append(np.asarray(node.call(X[t:t + 1]), dtype=float))
            outs = np.vstack([np.atleast_2d(r) for r in rows_])
        sfin = np.asarray(node.internal_state, dtype=float).ravel()
    except Exception as e:  # noqa: BLE001
        return _viol(key, "a reservoir with the 'softmax' activation (%s) raises %r" % (c["eq"], e), c)
    if outs.shape != (len(X), n):
        return _viol(key, "softmax reservoir: outputs of shape %s, expected %s" % (outs.shape, (len(X), n)), c)
    which = " and ".join((["activation"] if c["act"] == "softmax" else []) + (["fb_activation"] if c.get("fb_act") else []))
    r = r0.reshape(-1, 1)
    for t in range(len(X)):
        y = fbs[t].reshape(-1, 1) if Wfb is not None else None
        _, s, r2 = numpy_law(c["eq"], W, Win, bias, Wfb, lr, f, g, s, r, X[t].reshape(-1, 1), y)
        if not np.allclose(r2.ravel(), outs[t], rtol=1e-9, atol=1e-9):
            return _viol(key, "%s='softmax', %s equation, step %d: the new state is not the documented update with softmax taken over ALL units "
                         "of the %s vector (max abs error %.3g)" % (which, c["eq"], t, "pre-activation" if c["act"] == "softmax" else "feedback",
                                                                    float(np.abs(r2.ravel() - outs[t]).max())), c, r2.ravel().tolist(), outs[t].tolist())
        r = outs[t].reshape(-1, 1)
    if c["eq"] == "external" and not np.allclose(s.ravel(), sfin, rtol=1e-9, atol=1e-9):
        return _viol(key, "%s='softmax', external equation: internal_state after the steps is not the leaky integration of the pre-activations" % which,
                     c, s.ravel().tolist(), sfin.tolist())
    return None


def _judge_wrapped_reservoirs(tag="0"):
    """the reservoir reached through its subclass IPReservoir (before any fit: gains a = 1, b = 0) with a feedback connection and activation / fb_activation given
    BY NAME: every step obeys the documented 'external' law  r' = (1-lr) r + lr (W x + Win u + bias + Wfb g(fb)),  x' = f(r')"""
    import reservoirpy as rpy
    rpy.verbosity(0)
    from reservoirpy.node import Node
    from reservoirpy.nodes import IPReservoir
    rs = np.random.RandomState(3)
    W, Win, Wfb = rs.randint(-4, 5, (3, 3)) / 8.0, rs.randint(-4, 5, (3, 2)) / 4.0, rs.randint(-4, 5, (3, 2)) / 4.0
    X = rs.randint(-8, 9, (5, 2)) / 4.0
    for act, fbact in (("tanh", "tanh"), ("sigmoid", "relu")):
        sc = {"kind": "wrapped-reservoir", "what": "ipreservoir-fb-by-name", "activation": act, "fb_activation": fbact, "tag": tag}
        try:
            res = IPReservoir(3, W=W, Win=Win, bias=np.zeros((3, 1)), Wfb=Wfb, lr=0.5, activation=act, fb_activation=fbact, name="wr%s_%s" % (tag, act))

            def init(node, x=None, **kw):
                node.set_input_dim(x.shape[1]); node.set_output_dim(2)
            snd = Node(forward=lambda n, x: x[:, :2] * 0.5, initializer=init, name="wr%s_s%s" % (tag, act))
            res <<= snd
            m = res >> snd
            got = m.run(X, return_states=[res.name])[res.name]
        except Exception as e:  # noqa: BLE001
            return {"key": "law:ipreservoir:fb_activation-by-name", "what": "IPReservoir(activation=%r, fb_activation=%r) with a feedback connection raises %s: %s "
                    "(the name given for fb_activation is not resolved to a function)" % (act, fbact, type(e).__name__, e), "scenario": sc, "expected": None, "observed": None}
        f = np.tanh if act == "tanh" else (lambda v: 1.0 / (1.0 + np.exp(-v)))
        g = np.tanh if fbact == "tanh" else (lambda v: np.maximum(v, 0.0))
        x, r, fb = np.zeros(3), np.zeros(3), np.zeros(2)
        for t, u in enumerate(X):
            r = 0.5 * r + 0.5 * (W @ x + Win @ u + Wfb @ g(fb))        # IPReservoir integrates the pre-activation (the 'external' equation) ...
            x = f(r)                                                    # ... and emits f(a r + b) with a = 1, b = 0 before any fit
            if not np.allclose(got[t], x, rtol=1e-10, atol=1e-12):
                return {"key": "law:ipreservoir", "what": "IPReservoir (before any fit) with feedback, activation=%r, fb_activation=%r: step %d is not the documented law "
                        "(max abs error %.3g)" % (act, fbact, t, float(np.max(np.abs(got[t] - x)))), "scenario": sc, "expected": x.tolist(), "observed": np.asarray(got[t]).tolist()}
            fb = x[:2] * 0.5
    # the reservoir reached through the ESN convenience node: equation='external', lr < 1, TWO sequences in one ESN.run on a fresh ESN (default sequential backend):
    # every sequence follows the external law from the null state and the null pre-activation (the ESN runs its sequences independently)
    from reservoirpy.nodes import ESN, Reservoir, Ridge
    sc = {"kind": "wrapped-reservoir", "what": "esn-external-two-sequences", "tag": tag}
    try:
        res = Reservoir(3, W=W, Win=Win, bias=np.zeros((3, 1)), lr=0.5, equation="external", activation="tanh", name="wr%s_x" % tag)
        esn = ESN(reservoir=res, readout=Ridge(1, ridge=0.5, name="wr%s_o" % tag), name="wr%s_e" % tag)
        X1, X2 = rs.randint(-8, 9, (4, 2)) / 4.0, rs.randint(-8, 9, (5, 2)) / 4.0
        esn.fit([X1, X2], [np.ones((4, 1)), np.ones((5, 1))])
        got = esn.run([X1, X2], return_states="all", reset=True)
        seqs = got["reservoir"] if "reservoir" in got else [v for k_, v in got.items() if k_.startswith(res.name)][0]
    except Exception as e:  # noqa: BLE001
        return {"key": "law:esn-external:exception", "what": "ESN with an external-equation reservoir run on two sequences raises %s: %s" % (type(e).__name__, e), "scenario": sc,
                "expected": None, "observed": None}
    for k, (Xk, Sk) in enumerate(zip((X1, X2), seqs)):
        x, r = np.zeros(3), np.zeros(3)
        for t, u in enumerate(Xk):
            r = 0.5 * r + 0.5 * (W @ x + Win @ u)
            x = np.tanh(r)
            if not np.allclose(np.asarray(Sk)[t], x, rtol=1e-10, atol=1e-12):
                return {"key": "law:esn-external:sequences-not-independent", "what": "ESN(reservoir=Reservoir(equation='external', lr=0.5)).run([X1, X2], reset=True) on the default "
                        "sequential backend: step %d of sequence %d is not the external law from the null state and pre-activation (max abs error %.3g): the pre-activation of the "
                        "previous sequence leaked" % (t, k, float(np.max(np.abs(np.asarray(Sk)[t] - x)))), "scenario": sc, "expected": x.tolist(), "observed": np.asarray(Sk)[t].tolist()}
    return None


def oracle(ctx, scale=1):
    rng = ctx.rng("oracle")
    N = ctx.n(150, 1500) * scale
    cases = gen_cases(rng, N // 2, big=True) + [gen_ugly(rng, i) for i in range(N - N // 2)] + [gen_init_case(rng) for _ in range(N // 5)]
    cases += softmax_cases(ctx.rng("oracle-softmax"))
    out = []
    for c in cases:
        v = _judge(c)
        if v:
            out.append(v)
    v = _judge_wrapped_reservoirs("%d" % ctx.seed)
    if v:
        out.append(v)
    return {"evaluations": len(cases) + 2, "violations": out,
            "rule": "each returned row == (1-lr)*prev + lr*f(W.prev + Win.u + bias [+ Wfb.g(fb)]) (internal) / f of the leaky-integrated "
                    "pre-activation (external) recomputed in numpy from the node's own matrices and the previous observed state, rtol 1e-10 atol 1e-12; "
                    "supplied arrays kept under the bias-column convention; bad Win shapes rejected"}


def replay(payload):
    if payload["scenario"].get("kind") == "wrapped-reservoir":
        v = _judge_wrapped_reservoirs("rp")
        return {"violates": bool(v), "detail": v}
    v = _judge(payload["scenario"])
    return {"violates": bool(v), "detail": v}
