"""C12 — dimensions fixed at initialisation; bad data rejected cleanly.

Correspondence with coq/model/Shapes.v (via coq/run/RunC12.v) and implementation oracle.
A scenario = one public node + a history of operations (call / run / train / partial_fit / fit) whose data come from a
well-formed stream and a MALFORMED stream (wrong feature count, non-numeric dtype, lists where arrays are required,
scalars, strings/dicts, 1-D .. 4-D arrays, ragged lists), before and after initialisation.
"""
import hashlib
import json
import random
import traceback
from fractions import Fraction

import numpy as np

from vlib import core
from vlib.core import nat, coqbool, coqlist

IMPORTS = ("From Coq Require Import List Arith Bool.\nFrom RV Require Import base.Num model.Shapes run.RunC12.\n"
           "Import ListNotations.")
TRUSTED = [
    "exception classes are mapped to the model's enum by isinstance in the order TypeError, ValueError, RuntimeError, KeyError, else Other "
    "(sklearn's NotFittedError is a ValueError subclass); the phase of an exception is read from the traceback "
    "(a frame named check_xy => checking phase; a TypeError raised directly by train/fit/partial_fit with 'learning rule' in its "
    "message => unsupported operation)",
    "the fingerprint of a node = SHA-256 over every entry of node.params (arrays: dtype, shape, bytes; deques/lists recursively; "
    "scikit-learn estimators through vars()), the bytes of state(), the dims and the initialised flag",
]
ASSUMPTIONS = [
    "nodes are used stand-alone (no Model, no feedback, no teacher node); from_state/stateful/reset/warmup keep their defaults",
    "what numpy does inside forward/learning functions on data that passed validation but is not a regular (timesteps, features) layout "
    "is not modelled (model outcome 'Irregular': only 'the validation accepted it' is compared); the oracle judges those cases directly",
    "ScikitLearnNode is exercised with a single target only: with scikit-learn 1.9 `_get_tags` no longer exists, so a node with "
    "output_dim > 1 cannot be initialised in this environment",
    "Node._fitted, the offline buffers (_X, _Y, _buffers) and hyper-parameters are not part of the compared node record",
]

# oracle switches for the two weaker families (feature size agrees, layout irregular) — reported under their own keys
JUDGE_IRREGULAR_3D = True
JUDGE_RAGGED_UNINITIALISED = True

_uid = [0]


def uname(prefix):
    _uid[0] += 1
    return "c12_%s_%d" % (prefix, _uid[0])


def rpy():
    import reservoirpy
    reservoirpy.verbosity(0)
    return reservoirpy


# kind table: harness name -> (Coq kind constructor builder, has offline rule, has online rule)
SAME = ["Input", "Output", "Tanh", "Sigmoid", "Softmax", "Softplus", "ReLU", "Identity"]
KINDS = ["Reservoir", "IPReservoir", "NVAR", "Ridge", "RLS", "LMS", "FORCE", "ScikitLearnNode", "Delay", "Concat"] + SAME
OFFLINE = {"Ridge", "ScikitLearnNode", "IPReservoir"}
ONLINE = {"RLS", "LMS", "FORCE"}
READOUT = {"Ridge", "RLS", "LMS", "FORCE", "ScikitLearnNode"}


def coq_kind(nd):
    c = nd["cls"]
    if c == "Reservoir":
        return "(KReservoir %s)" % nat(nd["units"])
    if c == "IPReservoir":
        return "(KIPReservoir %s)" % nat(nd["units"])
    if c == "NVAR":
        return "(KNVAR %s %s)" % (nat(nd["delay"]), nat(nd["order"]))
    if c == "Ridge":
        return "KOffline"
    if c in ONLINE:
        return "KOnline"
    if c == "ScikitLearnNode":
        return "KSklearn"
    if c == "Delay":
        return "(KDelay %s)" % nat(nd["delay"])
    if c == "Concat":
        return "KConcat"
    return "KSame"


def make_node(nd):
    rpy()
    import reservoirpy.nodes as N
    c = nd["cls"]
    kw = {"name": uname(c.lower())}
    if nd.get("ind") is not None:
        kw["input_dim"] = nd["ind"]
    if c in ("Reservoir", "IPReservoir"):
        return getattr(N, c)(nd["units"], rc_connectivity=1.0, input_connectivity=1.0, seed=nd.get("seed", 1), **kw)
    if c == "NVAR":
        return N.NVAR(delay=nd["delay"], order=nd["order"], **kw)
    if c in ("Ridge", "RLS", "LMS", "FORCE"):
        if c == "Ridge":
            kw["ridge"] = 0.5          # XXT + 0.5 I is never singular
        return getattr(N, c)(output_dim=nd.get("outd"), **kw)
    if c == "ScikitLearnNode":
        from sklearn.linear_model import LinearRegression
        return N.ScikitLearnNode(model=LinearRegression, output_dim=nd.get("outd"), **kw)
    if c == "Delay":
        return N.Delay(delay=nd["delay"], **kw)
    if c == "Concat":
        kw.pop("input_dim", None)
        return N.Concat(**kw)
    if c == "Output":
        kw.pop("input_dim", None)
        return N.Output(**kw)
    return getattr(N, c)(**kw)


# ------------------------------------------------------------------------------------------ data descriptors
def arr(shape, dtype="f", seed=0):
    return {"t": "arr", "dtype": dtype, "shape": list(shape), "seed": seed}


def concretise(d):
    if d is None:
        return None
    if d["t"] == "arr":
        shape = tuple(d["shape"])
        n = int(np.prod(shape)) if shape else 1
        r = random.Random(d.get("seed", 0))
        if d["dtype"] == "f":
            a = np.array([float(core.dyadic(r, 8, 2)) for _ in range(n)], dtype=float)
        elif d["dtype"] == "i":
            a = np.array([r.randint(-4, 4) for _ in range(n)], dtype=int)
        elif d["dtype"] == "b":
            a = np.array([r.random() < 0.5 for _ in range(n)], dtype=bool)
        elif d["dtype"] == "o":
            a = np.array([float(r.randint(-4, 4)) for _ in range(n)], dtype=object)
        else:
            a = np.array(["s%d" % r.randint(0, 9) for _ in range(n)])
        return a.reshape(shape)
    if d["t"] == "list":
        return [concretise(i) for i in d["items"]]
    if d["t"] == "num":
        return float(Fraction(d["v"]))
    if d["t"] == "teacher":
        rpy()
        from reservoirpy.nodes import Identity
        t = Identity(name=uname("teacher"))
        if d["dim"] is not None:
            t.run(np.full((2, d["dim"]), 0.5))        # initialised: its output dimension is known
        return t
    if d["v"] == "dict":
        return {"a": 1.0}
    return "abc"


def coq_data(d):
    if d["t"] == "arr":
        return "(DArr %s %s)" % (coqbool(d["dtype"] in ("f", "i")), coqlist([nat(s) for s in d["shape"]]))
    if d["t"] == "list":
        return "(DList %s)" % coqlist([coq_data(i) for i in d["items"]])
    if d["t"] == "num":
        return "DNum"
    if d["t"] == "teacher":
        return "(DTeacher %s)" % ("None" if d["dim"] is None else "(Some %s)" % nat(d["dim"]))
    return "DOther"


def coq_op(o):
    x = coq_data(o["x"])
    if o["op"] == "call":
        return "(OCall %s)" % x
    if o["op"] == "run":
        return "(ORun %s)" % x
    y = "None" if o.get("y") is None else "(Some %s)" % coq_data(o["y"])
    return "(%s %s %s)" % ({"train": "OTrain", "partial_fit": "OPartialFit", "fit": "OFit"}[o["op"]], x, y)


# ------------------------------------------------------------------------------------------ observation of the real node
def _fp(h, v):
    if v is None:
        h.update(b"N")
    elif isinstance(v, np.ndarray):
        h.update(("A%s%s" % (v.dtype, v.shape)).encode())
        h.update(np.ascontiguousarray(v).tobytes() if v.dtype != object else repr(v.tolist()).encode())
    elif hasattr(v, "toarray") and hasattr(v, "nnz"):
        _fp(h, np.asarray(v.toarray()))
    elif isinstance(v, (list, tuple)) or type(v).__name__ == "deque":
        h.update(("L%d" % len(v)).encode())
        for i in v:
            _fp(h, i)
    elif isinstance(v, dict):
        for k in sorted(v, key=str):
            h.update(str(k).encode())
            _fp(h, v[k])
    elif isinstance(v, (int, float, str, bool, np.generic)):
        h.update(repr(v).encode())
    elif hasattr(v, "get_params") and hasattr(v, "predict"):      # scikit-learn estimator
        h.update(type(v).__name__.encode())
        _fp(h, {k: x for k, x in vars(v).items()})
    elif callable(v):
        h.update(getattr(v, "__name__", "callable").encode())
    else:
        h.update(repr(type(v)).encode())


def snapshot(node):
    s = node.state() if node.is_initialized else None
    hp = hashlib.sha256()
    _fp(hp, dict(node.params))
    hs = hashlib.sha256()
    _fp(hs, None if s is None else np.asarray(s))
    ind = node.input_dim
    outd = node.output_dim
    return {"init": bool(node.is_initialized),
            "ind": None if ind is None else ([int(i) for i in ind] if hasattr(ind, "__iter__") else [int(ind)]),
            "outd": None if outd is None else (int(outd) if not hasattr(outd, "__iter__") else [int(i) for i in outd]),
            "state": None if s is None else [int(i) for i in np.shape(s)],
            "teacher": getattr(node, "_teacher", None) is not None,
            "ph": hp.hexdigest()[:16], "sh": hs.hexdigest()[:16]}


def exc_class(e):
    for c in (TypeError, ValueError, RuntimeError, KeyError):
        if isinstance(e, c):
            return c.__name__
    return "OtherError"


def exc_phase(e):
    """0 = no learning rule for the operation, 1 = raised by the operation's own check_xy, 2 = raised later."""
    frames = [f.name for f in traceback.extract_tb(e.__traceback__)]
    if "apply_op" in frames:
        frames = frames[frames.index("apply_op") + 1:]
    if isinstance(e, TypeError) and len(frames) == 1 and frames[0] in ("train", "fit", "partial_fit") and "learning rule" in str(e):
        return 0
    inner = frames[1:]
    if inner[:1] == ["partial_fit"] and frames[:1] == ["fit"]:
        inner = inner[1:]
    return 1 if inner[:1] == ["check_xy"] else 2


def apply_op(node, o):
    x = concretise(o["x"])
    y = concretise(o.get("y"))
    if o["op"] in ("call", "run"):
        return getattr(node, o["op"])(x)
    return getattr(node, o["op"])(x, y)


def run_impl(c):
    """Run the history on a real node; one observation per operation."""
    node = make_node(c["node"])
    obs = [{"after": snapshot(node)}]          # entry 0: the fresh node
    for o in c["ops"]:
        before = obs[-1]["after"]
        rec = {"exc": None, "phase": 3, "out": None, "msg": None}
        try:
            r = apply_op(node, o)
            rec["out"] = None if r is node else [int(i) for i in np.shape(r)]
        except Exception as e:  # noqa: BLE001 — every exception class is an observation
            rec["exc"] = exc_class(e)
            rec["phase"] = exc_phase(e)
            rec["msg"] = ("%s: %s" % (type(e).__name__, e))[:160]
        rec["after"] = snapshot(node)
        rec["same"] = rec["after"] == before
        obs.append(rec)
    return obs


def coq_obs(rec):
    a = rec["after"]
    outd = a["outd"]
    return "(mkObs %s %s %s %s %s %s %s %s %s)" % (
        "None" if rec["exc"] is None else "(Some %s)" % rec["exc"], nat(rec["phase"]),
        "None" if rec["out"] is None else "(Some %s)" % coqlist([nat(i) for i in rec["out"]]),
        coqbool(a["init"]),
        "None" if a["ind"] is None else "(Some %s)" % coqlist([nat(i) for i in a["ind"]]),
        "None" if outd is None else "(Some %s)" % (nat(outd) if isinstance(outd, int) else nat(0)),
        "None" if a["state"] is None else "(Some %s)" % coqlist([nat(i) for i in a["state"]]),
        coqbool(rec["same"]), coqbool(a["teacher"]))


def coq_fresh(nd):
    outd = nd.get("ind") if nd["cls"] == "Input" else nd.get("outd")      # Input.__init__ passes output_dim=input_dim
    return "(fresh %s %s %s)" % (coq_kind(nd), "None" if nd.get("ind") is None else "(Some %s)" % nat(nd["ind"]),
                                 "None" if outd is None else "(Some %s)" % nat(outd))


def to_coq(c, obs):
    pairs = ["(%s, %s)" % (coq_op(o), coq_obs(r)) for o, r in zip(c["ops"], obs[1:])]
    return "chk_hist %s %s" % (coq_fresh(c["node"]), coqlist(pairs))


# ------------------------------------------------------------------------------------------ scenario generator
def gen_node(rng, i):
    cls = KINDS[i % len(KINDS)] if rng.random() < 0.8 else rng.choice(KINDS)
    nd = {"cls": cls}
    if cls in ("Reservoir", "IPReservoir"):
        nd["units"] = rng.randint(2, 4)
        nd["seed"] = rng.randint(1, 50)
    if cls == "NVAR":
        nd["delay"], nd["order"] = rng.randint(1, 2), rng.randint(1, 2)
    if cls == "Delay":
        nd["delay"] = rng.choice([1, 2, 3, 5])
    if cls not in ("Concat", "Output", "Ridge", "RLS", "LMS", "FORCE") and rng.random() < 0.25:      # the others take input_dim
        nd["ind"] = rng.randint(1, 4)
    if cls == "ScikitLearnNode":
        nd["outd"] = 1
    elif cls in READOUT and rng.random() < 0.5:
        nd["outd"] = rng.randint(1, 3)
    return nd


def out_dim_of(nd, d):
    cls = nd["cls"]
    if cls in ("Reservoir", "IPReservoir"):
        return nd["units"]
    if cls == "NVAR":
        from math import comb
        lin = nd["delay"] * d
        return lin + comb(lin + nd["order"] - 1, nd["order"])
    if cls in READOUT:
        return nd.get("outd")
    return d


def good_x(rng, op, d, T, cls):
    s = rng.randint(0, 10 ** 6)
    if op == "call":
        return rng.choice([arr([1, d], "f", s), arr([d], "f", s), arr([1, d], "i", s)])
    if op in ("run", "train"):
        return arr([T, d], rng.choice("ffi"), s)
    k = rng.random()
    if k < 0.5:
        return arr([T, d], "f", s)
    if k < 0.75:
        return arr([rng.randint(1, 3), T, d], "f", s)
    return {"t": "list", "items": [arr([T + j, d], "f", s + j) for j in range(rng.randint(1, 3))]}


def like(x, m, rng):
    """A target with the same sequence structure as x and m features."""
    s = rng.randint(0, 10 ** 6)
    if x["t"] == "arr":
        return arr(x["shape"][:-1] + [m], "f", s)
    if x["t"] == "list":
        return {"t": "list", "items": [like(i, m, rng) for i in x["items"]]}
    return arr([1, m], "f", s)


def bad_data(rng, d, T, for_y=False):
    """The malformed stream: d = the feature size the node (will) expect(s), T = a sequence length."""
    s = rng.randint(0, 10 ** 6)
    w = d + rng.choice([1, 2]) if (d == 1 or rng.random() < 0.6) else d - 1      # a wrong feature count
    k = rng.randint(0, 17)
    if k == 0:
        return arr([T, w], "f", s)
    if k == 1:
        return arr([d, w], "f", s)                       # T == expected dim, feature count wrong
    if k == 2:
        return arr([w, d], "f", s) if rng.random() < 0.5 else arr([d, d], "f", s)   # transposed / square (well-formed)
    if k == 3:
        return arr([T, d], rng.choice("osb"), s)         # non-numeric dtype, right shape
    if k == 4:
        return arr([w], rng.choice("fffo"), s)
    if k == 5:
        return {"t": "list", "items": [arr([T, d], "f", s)]}
    if k == 6:
        return {"t": "list", "items": [arr([T, d], "f", s), arr([T, w], "f", s + 1)]}        # ragged feature count
    if k == 7:
        return {"t": "list", "items": [arr([T, d], "f", s), {"t": "list", "items": [arr([T, d], "f", s + 1)]}]}  # nested
    if k == 8:
        return {"t": "num", "v": str(core.dyadic(rng, 4, 1))}
    if k == 9:
        return {"t": "other", "v": rng.choice(["str", "dict"])}
    if k == 10:
        return arr([rng.randint(1, 2), T, rng.choice([d, w])], "f", s)                         # 3-D
    if k == 11:
        return arr([rng.randint(1, 2), rng.randint(1, 2), rng.randint(1, 2), rng.choice([d, w, w])], "f", s)   # 4-D
    if k == 12:
        return arr([], rng.choice("fo"), s)              # 0-d array
    if k == 13:
        return arr([d, T, w], "f", s)                    # 3-D whose FIRST dims match the expected one
    if k == 14:
        return {"t": "list", "items": [arr([T, d], "f", s), arr([T + 1, d], rng.choice("fo"), s + 1)]}
    if k == 15:
        return arr([1, 1, d], "f", s)                    # a single step wrapped once too often
    if k == 16:
        return {"t": "list", "items": []}
    return arr([T, 1, d], "f", s)


def gen_case(rng, i):
    nd = gen_node(rng, i)
    cls = nd["cls"]
    d = nd.get("ind") or rng.randint(1, 4)
    m = nd.get("outd") or rng.randint(1, 3)
    ops = []
    nops = rng.randint(1, 6)
    for j in range(nops):
        T = rng.randint(1, 5)
        r = rng.random()
        if cls in ONLINE:
            op = "train" if r < 0.4 else rng.choice(["call", "run", "fit", "partial_fit", "train"])
        elif cls in OFFLINE:
            op = "fit" if r < 0.35 else rng.choice(["call", "run", "fit", "partial_fit", "train"])
        else:
            op = rng.choice(["call", "run"]) if r < 0.8 else rng.choice(["train", "fit", "partial_fit"])
        o = {"op": op}
        malformed = rng.random() < 0.45
        if cls == "Concat" and op in ("call", "run") and rng.random() < 0.6:
            # the legitimate use of Concat: a list of inputs
            parts = nd.setdefault("_parts", [rng.randint(1, 3) for _ in range(rng.randint(2, 3))])
            rows = 1 if op == "call" else T
            items = [arr([rows, p], "f", rng.randint(0, 10 ** 6)) for p in parts]
            if malformed:
                z = rng.randrange(len(items))
                q = rng.random()
                if q < 0.2:        # every input holds several timesteps (call takes ONE) / one step too many everywhere
                    items = [arr([rows + 1, p], "f", 6 + j) for j, p in enumerate(parts)]
                elif q < 0.3:      # every input is a set of sequences (3-D)
                    items = [arr([2, rows, p], "f", 8 + j) for j, p in enumerate(parts)]
                elif q < 0.4:      # 1-D inputs (one step each: well-formed for call)
                    items = [arr([p], "f", 10 + j) for j, p in enumerate(parts)]
                elif q < 0.5:      # nested lists
                    items = [{"t": "list", "items": [it]} for it in items]
                else:
                    items[z] = rng.choice([arr([rows, parts[z] + 1], "f", 3), arr([rows + 1, parts[z]], "f", 4),
                                           arr([rows, parts[z]], "o", 5), {"t": "num", "v": "1"}])
                    if rng.random() < 0.3:
                        items = items[:-1]
                    elif rng.random() < 0.15:
                        items = items + [arr([rows, 2], "f", 12)]
            o["x"] = {"t": "list", "items": items}
        else:
            o["x"] = good_x(rng, op, d, T, cls)
            if malformed and rng.random() < 0.7:
                o["x"] = bad_data(rng, d, T)
        if op in ("train", "partial_fit", "fit"):
            if cls == "IPReservoir":
                o["y"] = None if rng.random() < 0.7 else like(o["x"], rng.randint(1, 3), rng)
            else:
                o["y"] = like(o["x"], m, rng) if o["x"]["t"] in ("arr", "list") else arr([T, m], "f", 1)
                if malformed and rng.random() < 0.5:
                    o["y"] = bad_data(rng, m, T, for_y=True)
                elif rng.random() < 0.06:
                    o["y"] = None
                q = rng.random()
                if cls in ONLINE and op == "train" and q < 0.3:
                    # a target given as a teacher node: matching / mismatching / never initialised
                    o["y"] = {"t": "teacher", "dim": rng.choice([m, m, m, m + 1, m + 2 if m == 1 else m - 1, None])}
                elif q < 0.04:
                    o["y"] = {"t": "teacher", "dim": rng.choice([m, m + 1, None])}
        if rng.random() < 0.02:
            o["x"] = {"t": "teacher", "dim": rng.choice([d, None])}
        ops.append(o)
    nd.pop("_parts", None)
    return {"node": nd, "ops": ops}


def jsonable(c):
    return json.loads(json.dumps(c, default=str))


def pregen(ctx):
    """tie (T), two independent units: re-translate check_vector (utils/validation.py) and check_one_sequence / check_n_sequences (_base.py) of the tree under
    test into coq/gen/Gen_validation.v (translator vlib/py2coq_val.py, vocabulary coq/base/ValPrelude.v); proofs/Gen_validation_eq.v then
    proves them equal to model/Shapes.v.  Returns None or the error text; on rejection a stub that does not compile replaces the
    file (never a stale model)."""
    import os
    from vlib import py2coq_val
    path = os.path.join(core.COQ, "gen", "Gen_validation.v")
    os.makedirs(os.path.dirname(path), exist_ok=True)
    err = None
    try:
        text = py2coq_val.emit(core.REPO)
    except py2coq_val.Reject as ex:
        err = "translation rejected: %s" % ex
    except Exception:
        err = "translator exception: " + traceback.format_exc()[-1500:]
    if err is not None:
        text = "(* GENERATED: translation of the validation functions FAILED -- %s *)\nDefinition translation_failed : True := 0.\n" % (
            err.replace("*)", "* )").replace("(*", "( *"))
    old = open(path).read() if os.path.exists(path) else None
    if old != text:               # keep the mtime (and the compiled cone) when nothing changed
        with open(path, "w") as f:
            f.write(text)
    errs = [] if err is None else ["unit validation (check_vector, check_one_sequence, check_n_sequences): %s" % err]
    # second, independent unit: register_teacher / _check_node_io / check_xy (_base.py) -> coq/gen/Gen_validation2.v (translator
    # vlib/py2coq_val2.py, vocabulary coq/base/ValPrelude2.v); proofs/Gen_validation2_eq.v proves the Node-caller check_xy equal to Shapes.check_xy
    from vlib import py2coq_val2
    path2 = os.path.join(core.COQ, "gen", "Gen_validation2.v")
    err2 = None
    try:
        text2 = py2coq_val2.emit(core.REPO)
    except py2coq_val.Reject as ex:
        err2 = "translation rejected: %s" % ex
    except Exception:
        err2 = "translator exception: " + traceback.format_exc()[-1500:]
    if err2 is not None:
        text2 = "(* GENERATED: translation of register_teacher / _check_node_io / check_xy FAILED -- %s *)\nDefinition translation_failed : True := 0.\n" % (
            err2.replace("*)", "* )").replace("(*", "( *"))
        errs.append("unit node-io (register_teacher, _check_node_io, check_xy): %s" % err2)
    old2 = open(path2).read() if os.path.exists(path2) else None
    if old2 != text2:
        with open(path2, "w") as f:
            f.write(text2)
    return None if not errs else "; ".join(errs)


def correspondence(ctx):
    rng = ctx.rng("corr")
    n = ctx.n(400, 4000)
    cases = directed_cases() + [gen_case(rng, i) for i in range(n)]
    terms, keep, nt = [], [], set()
    dist = {"ops": 0, "rejected:support": 0, "rejected:check": 0, "raised:later": 0, "accepted": 0, "classes": {}, "exceptions": {}}
    for c in cases:
        try:
            obs = run_impl(c)
        except Exception:
            terms.append("false")
            keep.append({"scenario": jsonable(c), "impl_error": traceback.format_exc()[-600:]})
            continue
        terms.append(to_coq(c, obs))
        keep.append({"scenario": jsonable(c), "observed": [{k: v for k, v in r.items()} for r in obs]})
        dist["classes"][c["node"]["cls"]] = dist["classes"].get(c["node"]["cls"], 0) + 1
        acc = rej = 0
        for r in obs[1:]:
            dist["ops"] += 1
            key = ["rejected:support", "rejected:check", "raised:later", "accepted"][r["phase"]]
            dist[key] += 1
            if r["exc"]:
                dist["exceptions"][r["exc"]] = dist["exceptions"].get(r["exc"], 0) + 1
            acc += r["phase"] == 3
            rej += r["phase"] in (0, 1)
        if acc and rej:
            nt.add(json.dumps(jsonable(c), sort_keys=True))
    # ops._link_1to1 between initialised nodes
    link_terms = []
    for j in range(ctx.n(20, 100)):
        a, b = rng.randint(1, 3), rng.randint(1, 3)
        ia, ib = rng.random() < 0.8, rng.random() < 0.8
        link_terms.append(_link_case(a, b, ia, ib))
    # operands that are never-run Models (is_initialized False although their nodes are initialised) or lists
    for lc in directed_links() + [gen_link(rng) for _ in range(ctx.n(80, 600))]:
        link_terms.append(run_link(lc))
    # Model-level unsupported operations (Model.fit without offline learner ...)
    for mc in directed_models() + [gen_model_case(rng) for _ in range(ctx.n(40, 300))]:
        try:
            rec = run_model_case(mc)
            link_terms.append((model_term(mc, rec), {"model": mc, "observed": rec}))
        except Exception:
            link_terms.append(("false", {"model": mc, "impl_error": traceback.format_exc()[-400:]}))
    # the runner and the model it executes are (re)built from the current sources, independently of the proofs
    ok, log, failed = core.compile_cone(core.coq_cone("run/RunC12.v"))
    if not ok:
        return {"evaluations": len(cases), "distinct_nontrivial": len(nt), "rule": "", "samples": keep[:3], "failing": [],
                "error": "cannot build run/RunC12.v (%s):\n%s" % (failed, log[-1500:])}
    failing, err = core.run_cases(ctx.pid, IMPORTS, terms + [t for t, _ in link_terms])
    fl = []
    for i in failing:
        if i < len(keep):
            fl.append(dict(keep[i], index=i))
        else:
            fl.append({"scenario": link_terms[i - len(keep)][1], "index": i})
    dist["link_cases"] = len(link_terms)
    return {"evaluations": len(cases) + len(link_terms), "distinct_nontrivial": len(nt),
            "rule": "seeded histories of 1-6 operations (call/run/train/partial_fit/fit) on every public node class "
                    "(Reservoir, IPReservoir, NVAR, Ridge, RLS, LMS, FORCE, ScikitLearnNode, Delay, Concat, Input, Output, six activation nodes), "
                    "data from a well-formed and a malformed stream (wrong feature count, transposed/square, non-numeric dtype, "
                    "lists, nested/ragged lists, scalars, str/dict, 0-d..4-D arrays), before and after initialisation, declared or inferred dims; "
                    "non-trivial = the history contains at least one operation rejected by the support/validation phase and at least one accepted operation; "
                    "distinct by scenario text",
            "samples": [keep[0], keep[min(7, len(keep) - 1)], keep[min(31, len(keep) - 1)]],
            "distribution": dist, "tolerance": "exact (nat / bool comparisons inside Coq)",
            "failing": fl, "error": err}


def _link_case(a, b, ia, ib):
    """node >> node (kept from the first version): dims a / b, initialised or not."""
    return run_link({"left": {"form": "node", "nodes": [[a, ia]]}, "right": {"form": "node", "nodes": [[b, ib]]}, "how": ">>"})


LEFT_FORMS = ["node", "model", "model2", "list"]       # node | fresh >> a | fresh >> [a, a2] | [a, a2]
RIGHT_FORMS = ["node", "model", "model2", "list"]      # node | b >> fresh | (b >> fresh) & (b2 >> fresh2) | [b, b2]


def gen_link(rng):
    lf, rf = rng.choice(LEFT_FORMS), rng.choice(RIGHT_FORMS)
    if lf == "list" and rf == "list":
        rf = "model2"
    d = rng.randint(1, 4)

    def nodes(k):
        out = []
        for _ in range(k):
            dim = d if rng.random() < 0.65 else rng.randint(1, 4)
            r = rng.random()
            # initialised by a first run / never run / never run but created with declared input_dim and output_dim
            out.append([dim, True if r < 0.6 else (False if r < 0.75 else "declared")])
        return out
    how = ">>"
    if lf != "list" and rf != "list" and rng.random() < 0.3:
        how = "link"
    if lf in ("model", "model2") and rf != "list" and rng.random() < 0.25:
        how = ">>="
    return {"left": {"form": lf, "nodes": nodes(2 if lf in ("model2", "list") else 1)},
            "right": {"form": rf, "nodes": nodes(2 if rf in ("model2", "list") else 1)}, "how": how}


def _build_operand(side, spec):
    """Returns (operand, boundary nodes): the output nodes of a left operand / the input nodes of a right operand."""
    rpy()
    from reservoirpy.nodes import Identity
    bn = []
    for dim, init in spec["nodes"]:
        if init == "declared":
            n = Identity(name=uname("lk"), input_dim=dim, output_dim=dim)
        else:
            n = Identity(name=uname("lk"))
        if init is True:
            n.run(np.ones((1, dim)))
        bn.append(n)
    f = spec["form"]
    if f == "node":
        return bn[0], bn
    if f == "list":
        return list(bn), bn
    if side == "left":
        src = Identity(name=uname("lks"))
        return (src >> bn[0] if f == "model" else src >> bn), bn       # never-run Model whose exits are bn
    if f == "model":
        return bn[0] >> Identity(name=uname("lkt")), bn
    return (bn[0] >> Identity(name=uname("lkt"))) & (bn[1] >> Identity(name=uname("lkt"))), bn


def run_link(lc):
    """Builds the operands, links them, observes whether a ValueError is raised and whether any dim changed.
    Returns (Coq term, observation)."""
    from reservoirpy import link
    L, ls = _build_operand("left", lc["left"])
    R, rs = _build_operand("right", lc["right"])
    before = [(n.is_initialized, n.input_dim, n.output_dim) for n in ls + rs]
    model_flags = [getattr(o, "is_initialized", None) if not isinstance(o, list) else None for o in (L, R)]
    try:
        if lc["how"] == "link":
            link(L, R)
        elif lc["how"] == ">>=":
            L >>= R
        else:
            L >> R
        raised = False
    except ValueError:
        raised = True
    after = [(n.is_initialized, n.input_dim, n.output_dim) for n in ls + rs]

    def fr(dim, init):
        if init == "declared":       # dimensions known, is_initialized False: the link-time check does not apply
            return "(fresh KSame (Some %s) (Some %s))" % (nat(dim), nat(dim))
        if not init:
            return "(fresh KSame None None)"
        return "(mkNode KSame true (Some [%s]) (Some %s) (Some [%s; %s]) 1 1 false None false)" % (nat(dim), nat(dim), nat(1), nat(dim))
    term = "chk_links %s %s %s" % (coqlist([fr(*x) for x in lc["left"]["nodes"]]), coqlist([fr(*x) for x in lc["right"]["nodes"]]),
                                   coqbool(raised))
    return term, {"link": lc, "raised": raised, "untouched": before == after, "operand_is_initialized": model_flags}


def judge_link(lc):
    """Property side: two initialised nodes whose dimensions disagree must not be connected, however they are wrapped;
    agreeing (or not yet known) dimensions must be accepted; linking never changes a dimension."""
    _, o = run_link(lc)
    mismatch = any(i1 is True and i2 is True and d1 != d2 for d1, i1 in lc["left"]["nodes"] for d2, i2 in lc["right"]["nodes"])
    form = "%s-%s" % (lc["left"]["form"], lc["right"]["form"])
    # several initialised senders whose widths ADD UP to the width of an initialised receiver: a legal fan-in, which the pairwise
    # link-time check of HEAD refuses (open finding C03 link:initialised-fan-in-rejected): neither outcome is demanded here
    if mismatch and len(lc["left"]["nodes"]) > 1 and all(i is True for _, i in lc["left"]["nodes"]) and \
            all(i2 is not True or sum(d for d, _ in lc["left"]["nodes"]) == d2 for d2, i2 in lc["right"]["nodes"]):
        return None
    # nodes created with declared dimensions but never run: the construction is legal when every receiver whose dimension is
    # known gets exactly that many features from the senders (all of them feed it, side by side); an illegal one may be refused
    # early or late, nothing is demanded
    if not mismatch and any(i == "declared" for _, i in lc["left"]["nodes"] + lc["right"]["nodes"]):
        sdims = [d for d, i in lc["left"]["nodes"]]
        known = all(i for _, i in lc["left"]["nodes"])
        legal = all((not i2) or (not known) or sum(sdims) == d2 for d2, i2 in lc["right"]["nodes"])
        if not legal:
            return None
    if mismatch and not o["raised"]:
        return {"key": "accepted:link-dimension-mismatch:%s" % ("node-node" if form == "node-node" else "wrapped-operand"),
                "what": "linking (%s, operands " + form + ") connects an initialised sender and an initialised receiver whose dimensions differ without raising" % lc["how"],
                "scenario": {"link": lc}, "expected": "ValueError at link time", "observed": o}
    if not mismatch and o["raised"]:
        return {"key": "rejected:link-matching-dims", "what": "a link between compatible nodes (operands %s) is refused" % form,
                "scenario": {"link": lc}, "expected": "accepted", "observed": o}
    if not o["untouched"]:
        return {"key": "dims-changed:link", "what": "linking changed a node's dimensions", "scenario": {"link": lc},
                "expected": "dims untouched", "observed": o}
    return None


# ------------------------------------------------------------------------------------------ oracle on the implementation
def _leaves(d, depth=0):
    """(leaf descriptor, depth of list nesting) for every leaf of a data descriptor."""
    if d["t"] == "list":
        out = []
        for i in d["items"]:
            out += _leaves(i, depth + 1)
        return out
    return [(d, depth)]


def _feat(leaf):
    if leaf["t"] == "num":
        return 1
    sh = leaf["shape"]
    return sh[-1] if sh else 1


def _ndim(leaf):
    return len(leaf["shape"]) if leaf["t"] == "arr" else 0


def reject_reasons(nd, o, before):
    """Independent reading of the property's second sentence: why (if at all) must this operation be rejected cleanly?
    Returns a list of (reason, detail)."""
    cls, op = nd["cls"], o["op"]
    rs = []
    if op == "train" and cls not in ONLINE:
        rs.append(("unsupported-op", "train"))
    if op in ("fit", "partial_fit") and cls not in OFFLINE:
        rs.append(("unsupported-op", op))
    if rs:
        return rs
    if o["x"]["t"] == "teacher":
        return [("non-array", "x:node")]                     # a node is never an input
    y = o.get("y")
    if y is not None and y["t"] == "teacher" and cls != "IPReservoir":
        if cls not in ONLINE:
            return [("non-array", "y:node")]                 # only online-trained nodes can take a teacher node
        if y["dim"] is not None and isinstance(before["outd"], int) and y["dim"] != before["outd"]:
            return [("wrong-feature-count", "y:teacher")]
        o = dict(o, y=None)                                  # an acceptable teacher: only x is left to judge
    streams = [("x", o["x"], before["ind"])]
    if o.get("y") is not None and cls != "IPReservoir":       # IPReservoir is unsupervised: its targets are ignored by design
        streams.append(("y", o["y"], None if before["outd"] is None or not isinstance(before["outd"], int) else [before["outd"]]))
    for tag, d, dims in streams:
        leaves = _leaves(d)
        for leaf, depth in leaves:
            if leaf["t"] == "other":
                rs.append(("non-array", tag))
            elif leaf["t"] == "arr" and leaf["dtype"] not in ("f", "i"):
                rs.append(("non-numeric", tag))
        # lists where arrays are required
        maxdepth = max([dp for _, dp in leaves], default=(1 if d["t"] == "list" else 0))
        if d["t"] == "list":
            multi_ok = tag == "x" and cls == "Concat" and op in ("call", "run")
            seqs_ok = op in ("fit", "partial_fit")
            if not (multi_ok or seqs_ok) or maxdepth > 1:
                rs.append(("list", tag))
        # feature size against the node's dims (declared, or inferred earlier)
        if dims is not None:
            if len(dims) == 1:
                for leaf, depth in leaves:
                    if leaf["t"] in ("arr", "num") and _feat(leaf) != dims[0]:
                        rs.append(("wrong-feature-count", "%s:%dd-array" % (tag, _ndim(leaf))))
            elif d["t"] == "list":
                for k, it in enumerate(d["items"][:len(dims)]):
                    if it["t"] in ("arr", "num") and _feat(it) != dims[k]:
                        rs.append(("wrong-feature-count", "%s:%dd-array" % (tag, _ndim(it))))
                if len(d["items"]) > len(dims):          # more inputs than the node has: total feature size differs
                    rs.append(("wrong-feature-count", "%s:extra-input" % tag))
        elif JUDGE_RAGGED_UNINITIALISED and d["t"] == "list" and op in ("fit", "partial_fit"):
            fs = {_feat(l) for l, _ in leaves if l["t"] in ("arr", "num")}
            if len(fs) > 1:
                rs.append(("ragged-feature-count", "%s:uninitialised" % tag))
    return rs


def wellformed_rows(nd, o):
    """Number of timesteps T if the input is a well-formed one for this operation (1-D step / 2-D sequence), else None."""
    x, op = o["x"], o["op"]
    if op not in ("call", "run", "train"):
        return None
    if x["t"] == "num":
        return 1
    if x["t"] == "list":
        if nd["cls"] != "Concat" or not x["items"] or any(i["t"] != "arr" or len(i["shape"]) != 2 for i in x["items"]):
            return None
        rows = {i["shape"][0] for i in x["items"]}
        if len(rows) != 1 or len(x["items"]) < 2:
            return None
        T = rows.pop()
    elif x["t"] == "arr":
        sh = x["shape"]
        if len(sh) > 2 or 0 in sh:
            return None
        T = 1 if len(sh) < 2 else sh[0]
    else:
        return None
    if op == "call" and T != 1:
        return None
    if op == "train":
        y = o.get("y")
        if y is not None and y["t"] == "teacher":
            return T if y["dim"] is not None else None
        if y is None or y["t"] != "arr" or len(y["shape"]) != 2 or y["shape"][0] != T:
            return None
    return T


def _viol(key, what, c, k, expected=None, observed=None):
    sc = jsonable(c)
    sc["ops"] = sc["ops"][:k + 1]
    return {"key": key, "what": what, "scenario": sc, "expected": jsonable(expected), "observed": jsonable(observed)}


def short(cls):
    return {"ScikitLearnNode": "sklearn"}.get(cls, cls.lower())


def _judge(c):
    """Decide the property's statement directly on the real code (no Coq model involved). Returns a list of violations."""
    out = []
    try:
        obs = run_impl(c)
    except Exception as e:  # noqa: BLE001
        return [_viol("harness:exception", "scenario could not be run: %r" % e, c, len(c["ops"]))]
    nd = c["node"]
    taint = None      # key of an earlier accepted irregular input: its delayed symptoms (e.g. a 3-D block leaving a Delay line) belong to it
    for k, (o, r) in enumerate(zip(c["ops"], obs[1:])):
        b, a = obs[k]["after"], r["after"]
        desc = "%s.%s(%s%s)" % (nd["cls"], o["op"], _brief(o["x"]), "" if o.get("y") is None else ", " + _brief(o["y"]))
        # (i) dimensions never change once known
        for f in ("ind", "outd"):
            if b[f] is not None and a[f] != b[f]:
                out.append(_viol("dims-changed:%s" % short(nd["cls"]), "%s changed %s from %s to %s" % (desc, f, b[f], a[f]), c, k, b[f], a[f]))
        if b["init"] and not a["init"]:
            out.append(_viol("dims-changed:uninitialised", "%s un-initialised the node" % desc, c, k))
        # (vi) no operation — accepted or rejected — leaves a teacher registered on the node; and a valid train with
        #      array targets is never refused because of what an earlier rejected call left behind
        if a["teacher"] and not b["teacher"]:
            rs0 = reject_reasons(nd, o, b)
            key = "late-rejection:teacher-stays-registered"
            if rs0 and rs0[0][1] == "y:teacher":
                key = "late-rejection:wrong-feature-count:teacher"      # a teacher that had to be rejected was registered first
            out.append(_viol(key,
                             "%s %s and leaves the teacher node registered on the node (node._teacher is not None): later train calls "
                             "ignore their Y array" % (desc, "raises %s" % r["msg"] if r["exc"] else "is accepted"), c, k,
                             "node._teacher is None", {"exc": r["msg"], "after": a}))
            continue
        if b["teacher"] and r["exc"] is not None and o["op"] == "train" and not reject_reasons(nd, o, b):
            continue          # consequence of the registration reported above (the stale teacher is used instead of Y)
        # (ii) clean rejection
        rs = reject_reasons(nd, o, b)
        if rs:
            reason, detail = rs[0]
            tail = detail.split(":")[-1] if reason == "wrong-feature-count" else None
            if reason == "ragged-feature-count":
                # no cross-sequence validation before initialisation: the node is initialised from the first sequence and the
                # failure comes from numpy (or, for the default buffers, only at the next fit)
                if r["exc"] is None or not r["same"]:
                    out.append(_viol("late-rejection:ragged-feature-count:uninitialised-fit",
                                     "%s: sequences with different feature counts given to an uninitialised node are %s; node before %s, after %s"
                                     % (desc, "accepted" if r["exc"] is None else "rejected (%s) only after the node was initialised" % r["msg"],
                                        _bs(b), _bs(a)), c, k, "an exception, node untouched", {"exc": r["msg"], "after": a}))
                continue
            if r["exc"] is None:
                key = "accepted:%s" % reason + (":%s" % tail if tail else "")
                out.append(_viol(key, "%s is accepted although it must be rejected (%s %s); node before %s, after %s"
                                 % (desc, reason, detail, _bs(b), _bs(a)), c, k, "an exception, node untouched", {"out": r["out"], "after": a}))
            elif not r["same"]:
                key = "late-rejection:%s" % reason + (":%s" % tail if tail else "")
                out.append(_viol(key, "%s raises %s only after the node was modified (%s %s); node before %s, after %s"
                                 % (desc, r["msg"], reason, detail, _bs(b), _bs(a)), c, k, b, a))
            continue
        if taint is None and r["phase"] >= 2 and o["op"] in ("call", "run", "train") and wellformed_rows(nd, o) is None \
                and o["x"]["t"] == "arr" and len(o["x"]["shape"]) >= 3:
            taint = irregular_key(nd, o)
        if r["exc"] is not None and valid_train(nd, o, b) and taint is None:
            out.append(_viol("rejected:valid-train:%s" % short(nd["cls"]), "%s is a valid training call but raises %s" % (desc, r["msg"]),
                             c, k, "accepted", r["msg"]))
        # (iii) accepted well-formed input of T steps -> T rows of width output_dim (a 1-D output that goes with a 1-D
        #       state is the same defect and is reported once, under the state key below)
        T = wellformed_rows(nd, o)
        state_bad = r["exc"] is None and a["init"] and a["state"] != [1, a["outd"]]
        if r["exc"] is None and T is not None and a["init"] and not state_bad:
            if r["out"] != [T, a["outd"]]:
                out.append(_viol(taint or "rows:%s:%s" % (o["op"], short(nd["cls"])), "%s returns shape %s instead of (%d, %s)"
                                 % (desc, r["out"], T, a["outd"]), c, k, [T, a["outd"]], r["out"]))
        # (iv) the state is a (1, output_dim) array after any accepted operation
        if r["exc"] is None and a["init"]:
            if a["state"] != [1, a["outd"]]:
                if T is not None or o["op"] in ("fit", "partial_fit"):
                    out.append(_viol(taint or "state-not-2d:%s" % short(nd["cls"]), "after %s the state has shape %s, not (1, %s)"
                                     % (desc, a["state"], a["outd"]), c, k, [1, a["outd"]], a["state"]))
                elif JUDGE_IRREGULAR_3D:
                    out.append(_viol(irregular_key(nd, o), "%s (not a step / sequence layout) is accepted and leaves a state of shape %s, not (1, %s)"
                                     % (desc, a["state"], a["outd"]), c, k, [1, a["outd"]], a["state"]))
        elif JUDGE_IRREGULAR_3D and r["exc"] is not None and r["phase"] == 2 and a["init"] and a["state"] != [1, a["outd"]] \
                and (not b["init"] or b["state"] == [1, b["outd"]]):
            out.append(_viol(taint or irregular_key(nd, o), "%s raises %s but leaves a state of shape %s, not (1, %s)"
                             % (desc, r["msg"], a["state"], a["outd"]), c, k, [1, a["outd"]], a["state"]))
    return out


def valid_train(nd, o, b):
    """A train call that is well-formed in every respect for an online node with the dims it has (or none yet)."""
    x, y = o["x"], o.get("y")
    if nd["cls"] not in ONLINE or o["op"] != "train" or y is None or x["t"] != "arr" or y["t"] != "arr":
        return False
    if x["dtype"] not in "fi" or y["dtype"] not in "fi" or len(x["shape"]) != 2 or len(y["shape"]) != 2:
        return False
    if x["shape"][0] != y["shape"][0] or 0 in x["shape"] or 0 in y["shape"]:
        return False
    return (b["ind"] is None or b["ind"] == [x["shape"][1]]) and (b["outd"] is None or b["outd"] == y["shape"][1])


def irregular_key(nd, o):
    x = o["x"]
    if x["t"] == "arr" and len(x["shape"]) >= 3:
        return "state-not-2d:3d-input"
    if x["t"] == "list" and any(i["t"] == "arr" and len(i["shape"]) >= 3 for i in x["items"]):
        return "state-not-2d:3d-input"
    if x["t"] == "list" and nd["cls"] == "Concat" and len(x["items"]) == 1:
        return "state-not-2d:concat-singleton-list"
    if o["op"] == "call" and x["t"] == "list" and all(i["t"] == "arr" and len(i["shape"]) == 2 for i in x["items"]):
        return "state-not-2d:multi-timestep-call"
    return "state-not-2d:irregular:%s" % short(nd["cls"])


def _brief(d):
    if d["t"] == "arr":
        return "%s%s" % ({"f": "float", "i": "int", "o": "object", "s": "str", "b": "bool"}[d["dtype"]], tuple(d["shape"]))
    if d["t"] == "list":
        return "[" + ", ".join(_brief(i) for i in d["items"]) + "]"
    if d["t"] == "teacher":
        return "teacher-node(out=%s)" % d["dim"]
    return "number" if d["t"] == "num" else d["v"]


def _bs(s):
    return "(init=%s in=%s out=%s state=%s)" % (s["init"], s["ind"], s["outd"], s["state"])


def judge(case):
    sc = case.get("scenario", {})
    if "link" in sc:
        return judge_link(sc["link"])
    if "model" in sc:
        return judge_model(sc["model"])
    v = _judge(sc) if "ops" in sc else []
    return v[0] if v else None


def directed_cases():
    """The two historical defects and the combinations that expose them, always part of the oracle run."""
    cs = []
    for delay in (1, 2, 3):
        for dim in (1, 2):
            cs.append({"node": {"cls": "Delay", "delay": delay},
                       "ops": [{"op": "call", "x": arr([1, dim], "f", 1)}, {"op": "run", "x": arr([delay + 2, dim], "f", 2)}]})
            cs.append({"node": {"cls": "Delay", "delay": delay}, "ops": [{"op": "run", "x": arr([1, dim], "f", 3)}]})
    for d in (1, 3):
        cs.append({"node": {"cls": "ScikitLearnNode", "outd": 1},
                   "ops": [{"op": "fit", "x": arr([5, d], "f", 4), "y": arr([5, 1], "f", 5)},
                           {"op": "call", "x": arr([1, d], "f", 6)}, {"op": "run", "x": arr([3, d], "f", 7)}]})
    # arrays with too many axes and a wrong feature count (accepted / rejected late before ad5a298)
    for cls in ("Identity", "Delay", "Reservoir"):
        nd = {"cls": cls, "delay": 2, "units": 3, "seed": 1}
        cs.append({"node": dict(nd), "ops": [{"op": "run", "x": arr([2, 3], "f", 8)}, {"op": "call", "x": arr([1, 2, 2, 5], "f", 9)}]})
        cs.append({"node": dict(nd), "ops": [{"op": "run", "x": arr([2, 3], "f", 8)}, {"op": "run", "x": arr([1, 1, 1, 5], "f", 9)}]})
    # Concat given a one-element list (3-D output before e9d4225)
    cs.append({"node": {"cls": "Concat"}, "ops": [{"op": "call", "x": {"t": "list", "items": [arr([1, 2], "f", 10)]}}]})
    cs.append({"node": {"cls": "Concat"}, "ops": [{"op": "run", "x": {"t": "list", "items": [arr([4, 3], "f", 11)]}}]})
    # a multi-input node given more inputs than it has (accepted before 7992b77)
    two = {"t": "list", "items": [arr([1, 2], "f", 18), arr([1, 2], "f", 19)]}
    three = {"t": "list", "items": [arr([1, 2], "f", 18), arr([1, 2], "f", 19), arr([1, 3], "f", 20)]}
    cs.append({"node": {"cls": "Concat"}, "ops": [{"op": "call", "x": two}, {"op": "call", "x": three}, {"op": "call", "x": two}]})
    # an INITIALISED multi-input node: call takes one timestep per input; per-input feature sizes; differing lengths
    ok1 = {"t": "list", "items": [arr([1, 3], "f", 21), arr([1, 2], "f", 22)]}
    for bad in ([arr([2, 3], "f", 23), arr([2, 2], "f", 24)], [arr([1, 3], "f", 23), arr([1, 4], "f", 24)],
                [arr([1, 2], "f", 23), arr([1, 3], "f", 24)], [arr([1, 3], "o", 23), arr([1, 2], "f", 24)]):
        cs.append({"node": {"cls": "Concat"}, "ops": [{"op": "call", "x": ok1}, {"op": "call", "x": {"t": "list", "items": bad}},
                                                       {"op": "run", "x": {"t": "list", "items": [arr([4, 3], "f", 25), arr([4, 2], "f", 26)]}}]})
    cs.append({"node": {"cls": "Concat"}, "ops": [{"op": "call", "x": ok1},
                                                   {"op": "run", "x": {"t": "list", "items": [arr([4, 3], "f", 25), arr([5, 2], "f", 26)]}},
                                                   {"op": "call", "x": {"t": "list", "items": [arr([3], "f", 27), arr([2], "f", 28)]}}]})
    cs.append({"node": {"cls": "Concat"}, "ops": [{"op": "call", "x": {"t": "list", "items": [arr([2, 3], "f", 23), arr([2, 2], "f", 24)]}}]})
    # targets given as a teacher node to an online readout: matching, mismatching (must leave no trace: the following valid
    # train must be accepted), never-initialised teacher
    for cls in ("RLS", "FORCE", "LMS"):
        tr = {"op": "train", "x": arr([4, 3], "f", 30), "y": arr([4, 2], "f", 31)}
        for dim in (2, 3, None):
            cs.append({"node": {"cls": cls}, "ops": [tr, {"op": "train", "x": arr([2, 3], "f", 32), "y": {"t": "teacher", "dim": dim}},
                                                      dict(tr, x=arr([4, 3], "f", 33)), {"op": "run", "x": arr([3, 3], "f", 34)}]})
        cs.append({"node": {"cls": cls, "outd": 2}, "ops": [{"op": "train", "x": arr([2, 3], "f", 32), "y": {"t": "teacher", "dim": 3}}, tr]})
        cs.append({"node": {"cls": cls}, "ops": [{"op": "train", "x": arr([2, 3], "f", 32), "y": {"t": "teacher", "dim": 2}}, tr]})
    cs.append({"node": {"cls": "Ridge"}, "ops": [{"op": "fit", "x": arr([4, 3], "f", 30), "y": {"t": "teacher", "dim": 2}}]})
    # a Python number as the target of a fresh online readout: passes check_xy but gives no output dimension (hasattr(Y, "__iter__"))
    cs.append({"node": {"cls": "LMS"}, "ops": [{"op": "train", "x": arr([1, 1], "f", 35), "y": {"t": "num", "v": "2"}},
                                                {"op": "train", "x": arr([1, 1], "f", 36), "y": arr([1, 2], "f", 37)}]})
    cs.append({"node": {"cls": "RLS", "outd": 1}, "ops": [{"op": "train", "x": arr([1, 2], "f", 35), "y": {"t": "num", "v": "2"}}]})
    cs.append({"node": {"cls": "Identity"}, "ops": [{"op": "call", "x": {"t": "teacher", "dim": 3}}]})
    # the two open findings: 3-D array to call / run of an initialised node; ragged feature counts on an uninitialised node
    cs.append({"node": {"cls": "Identity"}, "ops": [{"op": "run", "x": arr([2, 3], "f", 12)}, {"op": "call", "x": arr([2, 1, 3], "f", 13)}]})
    cs.append({"node": {"cls": "Identity"}, "ops": [{"op": "run", "x": arr([2, 3], "f", 12)}, {"op": "run", "x": arr([4, 3, 3], "f", 13)}]})
    cs.append({"node": {"cls": "Ridge"}, "ops": [{"op": "fit", "x": {"t": "list", "items": [arr([4, 3], "f", 14), arr([4, 4], "f", 15)]},
                                                   "y": {"t": "list", "items": [arr([4, 2], "f", 16), arr([4, 2], "f", 17)]}}]})
    return cs


def directed_links():
    out = []
    for lf in LEFT_FORMS:
        for rf in RIGHT_FORMS:
            if lf == "list" and rf == "list":
                continue
            for dl, dr in ((3, 3), (5, 4)):
                out.append({"left": {"form": lf, "nodes": [[dl, True]] * (2 if lf in ("model2", "list") else 1)},
                            "right": {"form": rf, "nodes": [[dr, True]] * (2 if rf in ("model2", "list") else 1)}, "how": ">>"})
    out.append({"left": {"form": "model", "nodes": [[5, True]]}, "right": {"form": "node", "nodes": [[4, True]]}, "how": ">>="})
    out.append({"left": {"form": "model", "nodes": [[5, True]]}, "right": {"form": "model", "nodes": [[4, True]]}, "how": "link"})
    return out


def concat_exposure():
    """Delay / single-target ScikitLearnNode feeding a Concat: the combination in which a 1-D state breaks a model."""
    rpy()
    from reservoirpy.nodes import Concat, Delay, Input, ScikitLearnNode
    from sklearn.linear_model import LinearRegression
    out = []
    try:
        src = Input(name=uname("in"))
        model = [src >> Delay(delay=2, name=uname("dl")), src] >> Concat(name=uname("cc"))
        r = model.run(np.arange(8.0).reshape(4, 2))
        if np.shape(r) != (4, 4):
            out.append(("state-not-2d:delay", "Input >> [Delay, Input] >> Concat returns shape %s" % (np.shape(r),)))
    except Exception as e:  # noqa: BLE001
        out.append(("state-not-2d:delay", "Input >> [Delay(2), Input] >> Concat cannot run: %s: %s" % (type(e).__name__, str(e)[:100])))
    try:
        src = Input(name=uname("in"))
        sk = ScikitLearnNode(model=LinearRegression, name=uname("sk"))
        X = np.arange(12.0).reshape(6, 2) % 5
        sk.fit(X, X[:, :1] * 2 + 1)
        model = [src >> sk, src] >> Concat(name=uname("cc"))
        r = model.run(X)
        if np.shape(r) != (6, 3):
            out.append(("state-not-2d:sklearn", "[Input >> sklearn, Input] >> Concat returns shape %s" % (np.shape(r),)))
    except Exception as e:  # noqa: BLE001
        out.append(("state-not-2d:sklearn", "[Input >> single-target ScikitLearnNode, Input] >> Concat cannot run: %s: %s"
                    % (type(e).__name__, str(e)[:100])))
    return out


# ------------------------------------------------------------------------------------------ models: unsupported operations
MODEL_KINDS = ["Reservoir", "RLS", "LMS", "FORCE", "Identity", "Tanh", "Delay", "NVAR", "Input", "Ridge", "IPReservoir"]


def gen_model_case(rng):
    """A chain a >> b (>> c) of fresh nodes and an operation on the Model; most chains hold NO offline learner."""
    k = rng.randint(2, 3)
    head = rng.choice(["Reservoir", "Reservoir", "Identity", "Input", "Delay", "NVAR", "Tanh", "IPReservoir"])
    if rng.random() < 0.75:
        tail_pool = ["RLS", "LMS", "FORCE", "Identity", "Tanh", "Delay"]
        head = head if head != "IPReservoir" else "Reservoir"
    else:
        tail_pool = ["Ridge", "RLS", "Identity"]
    kinds = [head] + [rng.choice(tail_pool) for _ in range(k - 1)]
    # at most one readout, at the end, so that the targets have a single destination
    kinds = [c for c in kinds[:-1] if c not in READOUT] + [kinds[-1]]
    if len(kinds) < 2:
        kinds = ["Reservoir"] + kinds
    return {"kinds": kinds, "op": "fit" if rng.random() < 0.8 else "train",
            "d": rng.randint(1, 4), "m": rng.randint(1, 3), "d2": rng.randint(1, 4), "m2": rng.randint(1, 3), "T": rng.randint(2, 6),
            "seed": rng.randint(0, 10 ** 6)}


def _mk_model(kinds):
    nodes = []
    for c in kinds:
        nd = {"cls": c, "units": 3, "seed": 1, "delay": 1, "order": 1}
        nodes.append(make_node(nd))
    m = nodes[0]
    for n in nodes[1:]:
        m = m >> n
    return m, nodes


def run_model_case(mc):
    """Observation: exception of the operation, per-node snapshots before/after, and whether a following well-formed
    operation with OTHER dimensions goes through with the right shapes."""
    rs = np.random.RandomState(mc["seed"])
    model, nodes = _mk_model(mc["kinds"])
    before = [snapshot(n) for n in nodes]
    X, Y = rs.randint(-4, 5, (mc["T"], mc["d"])) / 4.0, rs.randint(-4, 5, (mc["T"], mc["m"])) / 4.0
    rec = {"exc": None, "msg": None}
    try:
        getattr(model, mc["op"])(X, Y)
    except Exception as e:  # noqa: BLE001
        rec["exc"] = exc_class(e)
        rec["msg"] = ("%s: %s" % (type(e).__name__, e))[:140]
    after = [snapshot(n) for n in nodes]
    rec["untouched"] = before == after and not model.is_initialized and not any(a["init"] for a in after)
    rec["after"] = after
    rec["model_initialized"] = bool(model.is_initialized)
    if rec["exc"] is not None:
        # the dimensions must still be free: the first accepted data decides them
        X2, Y2 = rs.randint(-4, 5, (mc["T"] + 1, mc["d2"])) / 4.0, rs.randint(-4, 5, (mc["T"] + 1, mc["m2"])) / 4.0
        has_online = any(c in ONLINE for c in mc["kinds"])
        has_offline = any(c in OFFLINE for c in mc["kinds"])
        try:
            if has_online and not has_offline:
                r = model.train(X2, Y2)
                rec["then"] = {"op": "train", "out": list(np.shape(r)), "ok": list(np.shape(r)) == [mc["T"] + 1, mc["m2"]]}
            elif not has_offline:
                r = model.run(X2)
                rec["then"] = {"op": "run", "out": list(np.shape(r)), "ok": np.shape(r)[0] == mc["T"] + 1}
            else:
                model.fit(X2, Y2)
                r = model.run(X2)
                rec["then"] = {"op": "fit+run", "out": list(np.shape(r)), "ok": list(np.shape(r)) == [mc["T"] + 1, mc["m2"]]}
            rec["then"]["in_dim"] = nodes[0].input_dim
            rec["then"]["ok"] = bool(rec["then"]["ok"] and nodes[0].input_dim == mc["d2"])
        except Exception as e:  # noqa: BLE001
            rec["then"] = {"ok": False, "exc": ("%s: %s" % (type(e).__name__, e))[:140]}
    return rec


def model_term(mc, rec):
    ks = coqlist([coq_kind({"cls": c, "units": 3, "delay": 1, "order": 1}) for c in mc["kinds"]])
    if mc["op"] != "fit":
        return "true"
    return "chk_model_fit %s %s %s" % (ks, coqbool(rec["exc"] == "TypeError"), coqbool(rec["untouched"]))


def judge_model(mc):
    """An operation the model does not support — offline fit without offline learner; online train while an offline learner is
    still unfitted — is rejected (fit: TypeError-class, as documented) with every node untouched and uninitialised, and the
    model then accepts well-formed data of other dimensions."""
    rec = run_model_case(mc)
    has_offline = any(c in OFFLINE for c in mc["kinds"])
    sc = {"model": mc}
    what = "(%s).%s(X%s, Y%s)" % (" >> ".join(mc["kinds"]), mc["op"], (mc["T"], mc["d"]), (mc["T"], mc["m"]))
    unsupported = (mc["op"] == "fit" and not has_offline) or (mc["op"] == "train" and any(c == "Ridge" for c in mc["kinds"]))
    if not unsupported:
        return None
    tag = "model-%s" % mc["op"]
    if rec["exc"] is None:
        return {"key": "accepted:unsupported-op:%s" % tag, "what": "%s is accepted although the model has no %s learner"
                % (what, "offline" if mc["op"] == "fit" else "fitted/online-only"), "scenario": sc, "expected": "an exception", "observed": rec}
    if not rec["untouched"]:
        return {"key": "late-rejection:unsupported-op:%s" % tag,
                "what": "%s raises %s only after nodes were initialised / modified: %s" % (what, rec["msg"], [_bs(a) for a in rec["after"]]),
                "scenario": sc, "expected": "exception with every node untouched", "observed": rec}
    if mc["op"] == "fit" and rec["exc"] != "TypeError":
        return {"key": "wrong-exception:unsupported-op:%s" % tag, "what": "%s raises %s instead of the documented TypeError" % (what, rec["msg"]),
                "scenario": sc, "expected": "TypeError", "observed": rec}
    if not rec.get("then", {}).get("ok", False):
        return {"key": "rejected:valid-op-after-unsupported:%s" % tag,
                "what": "after the rejected %s, well-formed data of other dimensions is not handled correctly: %s" % (what, rec.get("then")),
                "scenario": sc, "expected": "accepted, dims taken from this data", "observed": rec}
    return None


def directed_models():
    out = []
    for kinds in (["Reservoir", "RLS"], ["Reservoir", "LMS"], ["Reservoir", "FORCE"], ["Identity", "Tanh"], ["Reservoir", "Identity"],
                  ["Delay", "NVAR"], ["Input", "Reservoir", "RLS"], ["Reservoir", "Ridge"], ["IPReservoir", "Identity"]):
        out.append({"kinds": kinds, "op": "fit", "d": 3, "m": 2, "d2": 5, "m2": 1, "T": 6, "seed": 7})
    out.append({"kinds": ["Reservoir", "Ridge"], "op": "train", "d": 3, "m": 2, "d2": 5, "m2": 1, "T": 6, "seed": 7})
    return out


def esn_probe():
    """ESN (the optimised FrozenModel): after fit, and after run, its reservoir and readout hold single-row 2-D states."""
    rpy()
    from reservoirpy.nodes import ESN
    out = []
    rs = np.random.RandomState(3)
    X, Y = rs.uniform(-1, 1, (12, 2)), rs.uniform(-1, 1, (12, 1))
    for workers, seqs in ((1, False), (1, True)):
        try:
            esn = ESN(units=5, ridge=1e-3, workers=workers, name=uname("esn"), seed=1)
            esn.fit([X, X[:8]] if seqs else X, [Y, Y[:8]] if seqs else Y)
            sh = np.shape(esn.reservoir.state())
            if sh != (1, 5):
                out.append(("state-not-2d:esn-fit-reservoir", "after ESN.fit the reservoir state has shape %s, not (1, 5)" % (sh,)))
            r = esn.run(X[:4])
            shs = (np.shape(r), np.shape(esn.reservoir.state()), np.shape(esn.readout.state()))
            if shs != ((4, 1), (1, 5), (1, 1)) and sh == (1, 5):      # (a 1-D state left by fit is reported once, above)
                out.append(("state-not-2d:esn-run", "after ESN.run: output / reservoir state / readout state shapes %s" % (shs,)))
        except Exception as e:  # noqa: BLE001
            out.append(("esn:exception", "ESN fit/run raised %s: %s" % (type(e).__name__, str(e)[:100])))
    return out


def ragged_model_probe():
    """A never-run MODEL given sequences whose feature counts disagree (inputs or targets; fit or run): refused, with every node as it was.
    (For a single node this is what commit 7fd0837 repaired; Model.fit / Model.run validate lazily, sequence by sequence.)"""
    rpy()
    from reservoirpy.nodes import Reservoir, Ridge
    out = []

    def probe(tag, build, op):
        nodes, m = build()
        before = [(n.is_initialized, n.input_dim, n.output_dim) for n in nodes]
        try:
            op(m)
            exc = None
        except Exception as e:  # noqa: BLE001
            exc = e
        after = [(n.is_initialized, n.input_dim, n.output_dim) for n in nodes]
        if exc is None or before != after:
            out.append(("late-rejection:ragged-feature-count:uninitialised-model",
                        "%s on a never-run model: sequences with different feature counts are %s; nodes before %s, after %s"
                        % (tag, "accepted" if exc is None else "refused (%s) only after the model was initialised and the first sequence processed" % type(exc).__name__,
                           before, after)))

    def chain():
        r, o = Reservoir(4, name=uname("rgm")), Ridge(ridge=0.5, name=uname("rgm"))
        return [r, o], r >> o
    probe("Model.fit([x3, x4], [y, y])", chain, lambda m: m.fit([np.ones((6, 3)), np.ones((6, 4))], [np.ones((6, 1)), np.ones((6, 1))]))
    probe("Model.fit([x, x], [y1, y2])", chain, lambda m: m.fit([np.ones((6, 3)), np.ones((6, 3))], [np.ones((6, 1)), np.ones((6, 2))]))

    def two():
        r, r2 = Reservoir(4, name=uname("rgm")), Reservoir(3, name=uname("rgm"))
        return [r, r2], r >> r2
    probe("Model.run([x3, x4])", two, lambda m: m.run([np.ones((6, 3)), np.ones((6, 4))]))
    return out[:1]


def delay_initial_values_probe():
    """Delay built with user-supplied initial values (an array, a list of rows, a tuple of rows) of width 3: the node's dimension is declared by
    them, so 2-wide data must be refused before the state is touched, and 3-wide data gives rows / a state of width 3."""
    rpy()
    from reservoirpy.nodes import Delay
    out = []
    iv = [[1.0, 2.0, 3.0], [4.0, 5.0, 6.0]]
    for form, val in (("array", np.array(iv)), ("list", iv), ("tuple", tuple(tuple(r) for r in iv))):
        try:
            node = Delay(delay=2, initial_values=val, name=uname("dliv"))
            try:
                node.run(np.ones((5, 2)))
                raised = None
            except Exception as e:  # noqa: BLE001
                raised = type(e).__name__
            st = node.state() if node.is_initialized else None
            if raised is None or (st is not None and (np.ndim(st) != 2 or np.shape(st) != (1, node.output_dim))):
                out.append(("delay:initial-values-width-unchecked", "Delay(delay=2, initial_values=<%s of two 3-wide rows>).run(2-wide data): %s; "
                            "input_dim=%r output_dim=%r state shape %s" % (form, "accepted" if raised is None else "raised " + raised,
                                                                           node.input_dim, node.output_dim, None if st is None else np.shape(st))))
                continue
            node2 = Delay(delay=2, initial_values=val, name=uname("dliv"))
            r = node2.run(np.ones((4, 3)))
            if np.shape(r) != (4, 3) or np.shape(node2.state()) != (1, 3):
                out.append(("delay:initial-values-shape", "Delay with 3-wide initial values (%s) on 3-wide data: output %s, state %s"
                            % (form, np.shape(r), np.shape(node2.state()))))
        except Exception as e:  # noqa: BLE001
            out.append(("delay:initial-values:exception", "Delay initial-values probe (%s) raised %s: %s" % (form, type(e).__name__, str(e)[:100])))
    return out


def later_sequence_type_probe():
    """dimensions already fixed, data = a LIST of sequences whose LATER element is not numeric (bool / str / object array) although it has exactly
    the shape of the valid sequence before it: the whole call is refused, and nothing was accumulated / no state advanced"""
    rpy()
    from reservoirpy.nodes import Reservoir, Ridge
    out = []
    rs = np.random.RandomState(5)
    T = 6
    X0, Y0, X1, Y1, Y2 = (rs.randint(-8, 9, (T, 3)) / 4.0, rs.randint(-8, 9, (T, 2)) / 4.0, rs.randint(-8, 9, (T, 3)) / 4.0,
                          rs.randint(-8, 9, (T, 2)) / 4.0, rs.randint(-8, 9, (T, 2)) / 4.0)
    bads = {"bool": rs.randint(0, 2, (T, 3)) > 0, "str": np.full((T, 3), "0.5"), "object": np.full((T, 3), None, dtype=object)}
    for lab, bad in bads.items():
        try:
            ref = Ridge(ridge=0.125, name=uname("lsr")); ref.partial_fit(X0, Y0); ref.fit()
            node = Ridge(ridge=0.125, name=uname("lsn")); node.partial_fit(X0, Y0)
            try:
                node.partial_fit([X1, bad], [Y1, Y2]); raised = False
            except Exception:  # noqa: BLE001
                raised = True
            node.fit()
            if not raised:
                out.append(("accepted:non-numeric:later-sequence-of-list", "Ridge.partial_fit([X, <%s array of the same shape>], ...) on an initialised node is accepted" % lab))
            elif not (np.array_equal(node.Wout, ref.Wout) and np.array_equal(node.bias, ref.bias)):
                out.append(("late-rejection:non-numeric:later-sequence-of-list", "Ridge.partial_fit([X, <%s array of the same shape>], ...) is refused only after the "
                            "first sequence was accumulated: the following fit() differs from the fit without the refused call" % lab))
            res = Reservoir(4, seed=1, rc_connectivity=1.0, input_connectivity=1.0, name=uname("lsv"))
            rd = Ridge(ridge=0.125, name=uname("lsw"))
            m = res >> rd
            m.fit(X0, Y0); m.run(X0)
            before = (res.state().copy(), rd.state().copy())
            try:
                m.run([X1, bad]); raised = False
            except Exception:  # noqa: BLE001
                raised = True
            same = np.array_equal(before[0], res.state()) and np.array_equal(before[1], rd.state())
            if not raised:
                out.append(("accepted:non-numeric:later-sequence-of-list", "Model.run([X, <%s array of the same shape>]) on an initialised model is accepted" % lab))
            elif not same:
                out.append(("late-rejection:non-numeric:later-sequence-of-list", "Model.run([X, <%s array of the same shape>]) is refused only after the first sequence "
                            "was run: node states moved" % lab))
        except Exception as e:  # noqa: BLE001
            out.append(("later-sequence-type:exception", "probe (%s) raised %s: %s" % (lab, type(e).__name__, str(e)[:100])))
    return out


def delay_after_stateless_probe():
    """An initialised Delay (delay 1..3) that went through an operation asked NOT to be remembered -- run(X, stateful=False), call(x, stateful=False),
    or, inside a Model, model.run(X, stateful=False, reset=True): on each of the following delay+1 steps call() on one timestep returns a
    (1, output_dim) array and state() is (1, output_dim); a Concat fed by that Delay inside a model still runs."""
    rpy()
    from reservoirpy.nodes import Concat, Delay, Input
    key = "state-not-2d:delay-after-stateless"
    out = []
    rs = np.random.RandomState(12)
    T, N = 6, 3
    X, X2 = rs.randint(-8, 9, (T, N)) / 4.0, rs.randint(-8, 9, (T, N)) / 4.0

    def follow(tag, D, step, node):
        """the next D+1 one-timestep operations: shapes of the returned array and of the node's state"""
        for t in range(D + 1):
            r = step(X[t:t + 1])
            shr, shs = np.shape(r), np.shape(node.state())
            if not isinstance(r, np.ndarray) or shr != (1, N) or shs != (1, N):
                return "%s: step %d afterwards returns an array of shape %s and leaves a state of shape %s, expected (1, %d) for both" % (tag, t + 1, shr, shs, N)
        return None

    for D in (1, 2, 3):
        def alone_run():
            node = Delay(delay=D, name=uname("das"))
            node.run(X)
            r = node.run(X2, stateful=False)
            if np.shape(r) != (T, N) or np.shape(node.state()) != (1, N):
                return "Delay(delay=%d).run(X, stateful=False) returns shape %s, state shape %s" % (D, np.shape(r), np.shape(node.state()))
            return follow("Delay(delay=%d) after run(X, stateful=False)" % D, D, node.call, node)

        def alone_call():
            node = Delay(delay=D, name=uname("das"))
            node.run(X)
            r = node.call(X2[:1], stateful=False)
            if np.shape(r) != (1, N) or np.shape(node.state()) != (1, N):
                return "Delay(delay=%d).call(x, stateful=False) returns shape %s, state shape %s" % (D, np.shape(r), np.shape(node.state()))
            return follow("Delay(delay=%d) after call(x, stateful=False)" % D, D, node.call, node)

        def in_model():
            src, node = Input(name=uname("dasin")), Delay(delay=D, name=uname("das"))
            model = src >> node
            model.run(X)
            r = model.run(X2, stateful=False, reset=True)
            if np.shape(r) != (T, N) or np.shape(node.state()) != (1, N):
                return "Input >> Delay(delay=%d): run(X, stateful=False, reset=True) returns shape %s, Delay state shape %s" % (D, np.shape(r), np.shape(node.state()))
            return follow("Input >> Delay(delay=%d) after model.run(X, stateful=False, reset=True)" % D, D, model.call, node)

        def with_concat():
            src, node = Input(name=uname("dasin")), Delay(delay=D, name=uname("das"))
            model = [src >> node, src] >> Concat(name=uname("dascc"))
            model.run(X)
            model.run(X2, stateful=False, reset=True)
            try:
                r = model.run(X[:D + 1])
            except Exception as e:  # noqa: BLE001
                return ("Input >> [Delay(delay=%d), Input] >> Concat cannot run any more after model.run(X, stateful=False, reset=True): %s: %s"
                        % (D, type(e).__name__, str(e)[:100]))
            if np.shape(r) != (D + 1, 2 * N) or np.shape(node.state()) != (1, N):
                return ("Input >> [Delay(delay=%d), Input] >> Concat after model.run(X, stateful=False, reset=True): the next run on %d timesteps returns "
                        "shape %s, Delay state shape %s" % (D, D + 1, np.shape(r), np.shape(node.state())))
            return None
        for fn in (alone_run, alone_call, in_model, with_concat):
            try:
                what = fn()
            except Exception as e:  # noqa: BLE001
                what = "%s (delay=%d) raised %s: %s" % (fn.__name__, D, type(e).__name__, str(e)[:100])
            if what:
                out.append((key, what))
    return out


def model_teacher_probe():
    """Model.train on `res >> f1 & res >> f2` (two online readouts) with a target mapping that gives ONE readout a teacher node and the OTHER an array of
    the wrong width (either order): refused, no readout keeps a registered teacher, and the next well-formed train with the same array targets for both
    gives both readouts the same weights"""
    rpy()
    from reservoirpy.nodes import LMS, Input, Reservoir
    out = []
    rs = np.random.RandomState(11)
    X, Y = rs.randint(-8, 9, (12, 3)) / 8.0, np.ones((12, 1))
    for swap in (False, True):
        try:
            r = Reservoir(4, seed=1, rc_connectivity=1.0, input_connectivity=1.0, name=uname("mtr"))
            f1, f2 = LMS(output_dim=1, alpha=0.125, name=uname("mtf")), LMS(output_dim=1, alpha=0.125, name=uname("mtg"))
            teacher = Input(input_dim=1, name=uname("mtt")).initialize(np.zeros((1, 1)))
            m = r >> f1 & r >> f2
            m.initialize(X[:1], {f1.name: Y[:1], f2.name: Y[:1]})
            first, second = [n.name for n in m.trainable_nodes][::-1 if swap else 1]
            try:
                m.train(X, {first: teacher, second: rs.randint(-8, 9, (12, 3)) / 8.0})      # width 3 for an output_dim of 1
                raised = False
            except Exception:  # noqa: BLE001
                raised = True
            left = [n.name for n in (f1, f2) if getattr(n, "_teacher", None) is not None]
            if not raised:
                out.append(("accepted:wrong-feature-count:model-train-mapping", "Model.train with a 3-wide target array for a readout of output_dim 1 is accepted"))
                continue
            if left:
                out.append(("late-rejection:teacher-stays-registered:model", "Model.train({A: <teacher node>, B: <array of the wrong width>}) is refused but the teacher stays "
                            "registered on %s: the next train ignores the targets it is given for that readout" % left))
                continue
            m.train(X, {f1.name: Y, f2.name: Y})
            if not np.allclose(f1.Wout, f2.Wout, atol=1e-12):
                out.append(("late-rejection:teacher-stays-registered:model", "after a refused Model.train mixing a teacher node and a bad array, training both readouts on the "
                            "same targets gives different weights (|Wout| %.3g vs %.3g)" % (np.abs(f1.Wout).sum(), np.abs(f2.Wout).sum())))
        except Exception as e:  # noqa: BLE001
            out.append(("model-teacher:exception", "model teacher probe raised %s: %s" % (type(e).__name__, str(e)[:100])))
    return out


def ragged_mixed_containers_probe():
    """fit / partial_fit of an UNinitialised offline node where inputs and targets come in DIFFERENT containers (one a 3-D array, the other a list of 2-D arrays)
    and the list's sequences disagree on their feature count: refused with the node exactly as built, and a following well-formed fit behaves as on a fresh node"""
    rpy()
    from reservoirpy.nodes import Ridge
    out = []
    rs = np.random.RandomState(31)
    key = "late-rejection:ragged-feature-count:mixed-containers"
    T = 6
    X3 = rs.randint(-8, 9, (2, T, 3)) / 4.0
    cases = (("X 3-D array, Y ragged list", X3, [rs.randint(-8, 9, (T, 2)) / 4.0, rs.randint(-8, 9, (T, 3)) / 4.0], X3, [rs.randint(-8, 9, (T, 3)) / 4.0 for _ in range(2)]),
             ("X ragged list, Y 3-D array", [rs.randint(-8, 9, (T, 2)) / 4.0, rs.randint(-8, 9, (T, 3)) / 4.0], rs.randint(-8, 9, (2, T, 2)) / 4.0,
              [rs.randint(-8, 9, (T, 3)) / 4.0 for _ in range(2)], rs.randint(-8, 9, (2, T, 2)) / 4.0))
    for label, Xb, Yb, Xg, Yg in cases:
        for how in ("fit", "partial_fit"):
            try:
                node = Ridge(ridge=0.125, name=uname("rmc"))
                try:
                    getattr(node, how)(Xb, Yb); raised = False
                except Exception:  # noqa: BLE001
                    raised = True
                if not raised:
                    out.append(("accepted:ragged-feature-count:mixed-containers", "%s: %s accepts sequences of different feature counts" % (label, how)))
                    continue
                if node.is_initialized or node.input_dim is not None or node.output_dim is not None or len(node._buffers) > 0:
                    out.append((key, "%s: %s is refused, but the node was initialised first (is_initialized %r, input_dim %r, output_dim %r)"
                                % (label, how, node.is_initialized, node.input_dim, node.output_dim)))
                    continue
                node.fit(Xg, Yg)
                ref = Ridge(ridge=0.125, name=uname("rmr")).fit(Xg, Yg)
                if not np.allclose(node.Wout, ref.Wout, rtol=1e-9, atol=1e-9):
                    out.append((key, "%s: after the refused %s, a well-formed fit differs from the same fit on a fresh node" % (label, how)))
            except Exception as e:  # noqa: BLE001
                out.append((key, "%s: after a refused %s, a well-formed fit raises %r" % (label, how, e)))
    seen, uniq = set(), []
    for k, w in out:
        if k not in seen:
            seen.add(k); uniq.append((k, w))
    return uniq


def refused_initializer_probe():
    """a call refused BY THE INITIALIZER (user-supplied Win / Wout of another width than the data; an initializer that raises after setting a dimension) leaves the
    node as built: no dimension inferred, not initialised, and a following well-formed call of the right width is accepted"""
    rpy()
    from reservoirpy.node import Node
    from reservoirpy.nodes import Reservoir, Ridge
    out = []
    rs = np.random.RandomState(21)
    key = "late-rejection:initializer-refusal-keeps-dimensions"

    def custom():
        def init(node, x=None, y=None):
            node.set_input_dim(x.shape[1]); node.set_output_dim(x.shape[1])
            if x.shape[1] != 3:
                raise ValueError("this node wants 3 features")
        return Node(forward=lambda n, x: 2.0 * x, initializer=init, name=uname("rip"))
    cases = (("reservoir-user-Win", lambda: Reservoir(W=rs.randint(-4, 5, (5, 5)) / 8.0, Win=rs.randint(-4, 5, (5, 3)) / 4.0, input_bias=False, name=uname("rir")), 5),
             ("reservoir-user-Win-bias", lambda: Reservoir(W=rs.randint(-4, 5, (5, 5)) / 8.0, Win=rs.randint(-4, 5, (5, 3)) / 4.0, bias=rs.randint(-4, 5, (5, 1)) / 4.0, name=uname("rib")), 5),
             ("custom-initializer", custom, 3))
    for label, mk, width_out in cases:
        for how in ("run", "call"):
            try:
                node = mk()
                before = (node.is_initialized, node.input_dim, node.output_dim)
                bad = np.ones((4, 4)) if how == "run" else np.ones((1, 4))
                try:
                    (node.run if how == "run" else node.call)(bad); raised = False
                except Exception:  # noqa: BLE001
                    raised = True
                after = (node.is_initialized, node.input_dim, node.output_dim)
                if not raised:
                    out.append(("accepted:wrong-feature-count:initializer", "%s: %s on 4-wide data is accepted although the initializer wants 3" % (label, how)))
                    continue
                if after != before:
                    out.append((key, "%s: %s on 4-wide data is refused by the initializer, but (is_initialized, input_dim, output_dim) went from %r to %r" % (label, how, before, after)))
                    continue
                r = node.run(np.ones((4, 3)))
                if np.shape(r) != (4, width_out) or node.input_dim != 3:
                    out.append((key, "%s: after the refused %s, a well-formed 3-wide run gives shape %s, input_dim %r" % (label, how, np.shape(r), node.input_dim)))
            except Exception as e:  # noqa: BLE001
                out.append((key, "%s: after a %s refused by the initializer, a well-formed 3-wide run raises %r" % (label, how, e)))
    seen, uniq = set(), []
    for k, w in out:
        if k not in seen:
            seen.add(k); uniq.append((k, w))
    return uniq


def declared_dim_multiseq_probe():
    """never-run deep model r1 >> o1 >> r2 >> o2(output_dim=2) and never-run ESN(output_dim=2), a dataset of TWO sequences whose targets for the declared
    readout are 3 wide: refused, every node left exactly as built (not initialised, no dimension inferred), and a following well-formed dataset of other
    input width is the one that fixes the dimensions"""
    rpy()
    from reservoirpy.nodes import ESN, Reservoir, Ridge
    out = []
    rs = np.random.RandomState(12)
    T = 8

    def snap(nodes):
        return [(n.is_initialized, n.input_dim, n.output_dim, sorted(k for k, v in n.params.items() if v is not None and not callable(v))) for n in nodes]
    try:
        r1, o1 = Reservoir(4, seed=1, name=uname("ddr")), Ridge(ridge=0.125, name=uname("ddo"))
        r2, o2 = Reservoir(3, seed=2, name=uname("dds")), Ridge(ridge=0.125, output_dim=2, name=uname("ddp"))
        deep = r1 >> o1 >> r2 >> o2
        nodes = [r1, o1, r2, o2]
        X3 = [rs.randint(-8, 9, (T, 3)) / 4.0 for _ in range(2)]
        badY = {o1.name: [rs.randint(-8, 9, (T, 1)) / 4.0 for _ in range(2)], o2.name: [rs.randint(-8, 9, (T, 3)) / 4.0 for _ in range(2)]}
        before = snap(nodes)
        try:
            deep.fit(X3, badY); raised = False
        except Exception:  # noqa: BLE001
            raised = True
        if not raised:
            out.append(("accepted:wrong-feature-count:declared-dim-multiseq", "deep model fit with 3-wide targets for a readout declared with output_dim=2 is accepted"))
        elif snap(nodes) != before or deep.is_initialized:
            out.append(("late-rejection:wrong-feature-count:declared-dim-multiseq", "never-run deep model, two sequences, targets 3 wide for a readout declared with output_dim=2: "
                        "refused, but nodes were initialised first (%s -> %s)" % (before, snap(nodes))))
        else:
            X4 = [rs.randint(-8, 9, (T, 4)) / 4.0 for _ in range(2)]
            goodY = {o1.name: [rs.randint(-8, 9, (T, 2)) / 4.0 for _ in range(2)], o2.name: [rs.randint(-8, 9, (T, 2)) / 4.0 for _ in range(2)]}
            deep.fit(X4, goodY)
            r = deep.run(X4[0])
            if np.shape(r) != (T, 2) or (r1.input_dim, o1.output_dim) != (4, 2):
                out.append(("late-rejection:wrong-feature-count:declared-dim-multiseq", "after the refused fit, a well-formed fit of other widths gives run shape %s, "
                            "r1.input_dim %r, o1.output_dim %r" % (np.shape(r), r1.input_dim, o1.output_dim)))
        esn = ESN(units=4, ridge=0.125, output_dim=2, workers=2, backend="threading", seed=3, name=uname("dde"))
        en = [esn.reservoir, esn.readout]
        before = snap(en)
        try:
            esn.fit(X3, [rs.randint(-8, 9, (T, 3)) / 4.0 for _ in range(2)]); raised = False
        except Exception:  # noqa: BLE001
            raised = True
        if not raised:
            out.append(("accepted:wrong-feature-count:declared-dim-multiseq", "ESN(output_dim=2).fit with 3-wide targets is accepted"))
        elif snap(en) != before:
            out.append(("late-rejection:wrong-feature-count:declared-dim-multiseq", "never-run ESN(output_dim=2, workers=2), two sequences with 3-wide targets: refused, but its "
                        "nodes were initialised first (%s -> %s)" % (before, snap(en))))
    except Exception as e:  # noqa: BLE001
        out.append(("declared-dim-multiseq:exception", "probe raised %s: %s" % (type(e).__name__, str(e)[:120])))
    return out


def oracle(ctx, scale=1):
    rng = ctx.rng("oracle")
    cases = directed_cases() + [gen_case(rng, i) for i in range(ctx.n(300, 3000) * scale)]
    out, seen = [], set()
    for c in cases:
        for v in _judge(c):
            if v["key"] not in seen:          # one (the first) witness per key
                seen.add(v["key"])
                out.append(v)
    links = directed_links() + [gen_link(rng) for _ in range(ctx.n(60, 500) * scale)]
    for lc in links:
        v = judge_link(lc)
        if v and v["key"] not in seen:
            seen.add(v["key"])
            out.append(v)
    models = directed_models() + [gen_model_case(rng) for _ in range(ctx.n(40, 300) * scale)]
    for mc in models:
        v = judge_model(mc)
        if v and v["key"] not in seen:
            seen.add(v["key"])
            out.append(v)
    for key, what in concat_exposure():
        if key not in seen:
            seen.add(key)
            out.append({"key": key, "what": what, "scenario": {"concat_exposure": True}, "expected": None, "observed": what})
    for key, what in esn_probe():
        if key not in seen:
            seen.add(key)
            out.append({"key": key, "what": what, "scenario": {"esn_probe": True}, "expected": None, "observed": what})
    for key, what in delay_initial_values_probe():
        if key not in seen:
            seen.add(key)
            out.append({"key": key, "what": what, "scenario": {"delay_initial_values_probe": True}, "expected": "an exception, state untouched", "observed": what})
    for key, what in later_sequence_type_probe():
        if key not in seen:
            seen.add(key)
            out.append({"key": key, "what": what, "scenario": {"later_sequence_type_probe": True}, "expected": "an exception, nothing accumulated", "observed": what})
    for key, what in model_teacher_probe():
        if key not in seen:
            seen.add(key)
            out.append({"key": key, "what": what, "scenario": {"model_teacher_probe": True}, "expected": "an exception, no teacher left registered", "observed": what})
    for key, what in declared_dim_multiseq_probe():
        if key not in seen:
            seen.add(key)
            out.append({"key": key, "what": what, "scenario": {"declared_dim_multiseq_probe": True}, "expected": "an exception, every node as built", "observed": what})
    for key, what in refused_initializer_probe():
        if key not in seen:
            seen.add(key)
            out.append({"key": key, "what": what, "scenario": {"refused_initializer_probe": True}, "expected": "an exception, the node as built", "observed": what})
    for key, what in ragged_mixed_containers_probe():
        if key not in seen:
            seen.add(key)
            out.append({"key": key, "what": what, "scenario": {"ragged_mixed_containers_probe": True}, "expected": "an exception, the node as built", "observed": what})
    for key, what in ragged_model_probe():
        if key not in seen:
            seen.add(key)
            out.append({"key": key, "what": what, "scenario": {"ragged_model_probe": True}, "expected": "an exception, every node untouched", "observed": what})
    for key, what in delay_after_stateless_probe():
        if key not in seen:
            seen.add(key)
            out.append({"key": key, "what": what, "scenario": {"delay_after_stateless_probe": True},
                        "expected": "call on one timestep returns (1, output_dim) and state() is (1, output_dim)", "observed": what})
    return {"evaluations": len(cases) + len(links) + len(models) + 7 + 12, "violations": out,
            "rule": "on the real nodes, per operation: (i) dims never change once known; (ii) unsupported operations, non-array / non-numeric data, "
                    "lists where arrays are required and data whose feature size differs from the node's dims raise AND leave dims, state bytes and every "
                    "param bit-identical; (iii) accepted well-formed input of T steps returns (T, output_dim); (iv) state() is (1, output_dim) after any "
                    "accepted operation; plus Delay / single-target ScikitLearnNode feeding a Concat inside a Model, and a Delay (alone, in a Model, feeding a Concat) "
                    "on the delay+1 steps that follow a run / call with stateful=False; "
                    "(v) links (>>, >>=, link) whose operands are nodes, never-run Models or lists: refused iff an initialised sender and an "
                    "initialised receiver disagree, and no dimension changes; "
                    "(vi) Model.fit on chains without offline learner / Model.train with an unfitted offline learner: exception (TypeError for fit), "
                    "every node untouched and uninitialised, then well-formed data of other dimensions accepted"}


def replay(payload):
    sc = payload["scenario"]
    if sc.get("concat_exposure"):
        v = [k for k, _ in concat_exposure() if k == payload.get("key")]
        return {"violates": bool(v), "detail": v}
    if "link" in sc:
        v = judge_link(sc["link"])
        return {"violates": bool(v), "detail": v}
    if "model" in sc:
        v = judge_model(sc["model"])
        return {"violates": bool(v), "detail": v}
    if sc.get("esn_probe"):
        v = [k for k, _ in esn_probe() if k == payload.get("key")]
        return {"violates": bool(v), "detail": v}
    if sc.get("delay_initial_values_probe"):
        v = [k for k, _ in delay_initial_values_probe() if k == payload.get("key")]
        return {"violates": bool(v), "detail": v}
    if sc.get("later_sequence_type_probe"):
        v = [k for k, _ in later_sequence_type_probe() if k == payload.get("key")]
        return {"violates": bool(v), "detail": v}
    if sc.get("model_teacher_probe"):
        v = [k for k, _ in model_teacher_probe() if k == payload.get("key")]
        return {"violates": bool(v), "detail": v}
    if sc.get("declared_dim_multiseq_probe"):
        v = [k for k, _ in declared_dim_multiseq_probe() if k == payload.get("key")]
        return {"violates": bool(v), "detail": v}
    if sc.get("ragged_mixed_containers_probe"):
        v = [(k, w) for k, w in ragged_mixed_containers_probe() if k == payload.get("key")]
        return {"violates": bool(v), "detail": v}
    if sc.get("refused_initializer_probe"):
        v = [(k, w) for k, w in refused_initializer_probe() if k == payload.get("key")]
        return {"violates": bool(v), "detail": v}
    if sc.get("ragged_model_probe"):
        v = ragged_model_probe()
        return {"violates": bool(v), "detail": v}
    if sc.get("delay_after_stateless_probe"):
        v = [(k, w) for k, w in delay_after_stateless_probe() if k == payload.get("key")]
        return {"violates": bool(v), "detail": v}
    vs = [v for v in _judge(sc) if payload.get("key") in (None, v["key"])]
    return {"violates": bool(vs), "detail": vs[:1]}
