"""C06 — training a model equals the explicit node-by-node procedure (Model.fit staging, Model.train loop, ESN.fit):
correspondence with model/FitSem.v (run/RunC06.v) and implementation oracle."""
import copy
import itertools
import json
from fractions import Fraction

import numpy as np

from vlib import core, scen, scengen
from props import fitfb
from vlib.core import q, qmat, qvec, nat, coqbool, coqlist

IMPORTS = ("From Coq Require Import List QArith.\n"
           "From RV Require Import base.Num base.LA model.ModelSem model.Kinds model.Online model.FitSem run.RunC06.\n"
           "Import ListNotations.\nOpen Scope Q_scope.")
TRUSTED = fitfb.TRUSTED + [
    "LAPACK solve (scipy.linalg.solve assume_a='sym') is replaced by exact Gauss-Jordan over Q (base/LA.v qsolve) in the runner; "
    "the learner is abstract (any a_fit / a_pred) in the theorems",
    "FitSem.v evaluates a forward sub-model node by node over whole datasets (a_run), reservoirpy evaluates it timestep by timestep: "
    "the two agree for feedback-free DAGs (each node's trajectory depends on its own state and its sources only; C02 / C07); "
    "this step is tied by the correspondence run (observed Wout of every readout), not by a theorem of this file",
    "the iteration order of the Python sets / dicts in _get_links / dist_states_to_next_subgraph is unspecified; the model fails "
    "(None) exactly when the result would depend on it (a node of the next stage fed by two relations)",
    "ESN.fit is decided by the implementation oracle and the correspondence run (chain with per-sequence reset), no separate theorem",
    "oracle: the explicit procedure is executed with the real nodes (Node.run / Node.fit / Node.call / Node.train) on fresh copies",
]
ASSUMPTIONS = fitfb.ASSUMPTIONS + [
    "no feedback connections in trained models (feedback / forced teachers are C05), except family fb-noforce: reservoir <<= unfitted readout "
    "fitted with force_teachers=False, where the value received is the readout's own state, zeros (model: NFwdFb feeds zeros to KResFb; "
    "oracle: the same reservoir without the connection); forward nodes keep no memory outside their state",
    "successive Model.train calls: each call is Model.train from the states / parameters left by the previous one, the learn_every gate "
    "(and the one-timestep exception) restarting at i = 0 of each call",
    "weights, inputs and targets are small dyadic rationals, ridge in [1/4, 4], RLS alpha in [1/4, 4], LMS rates <= 1/16: float64 agrees with "
    "exact arithmetic far below the 1e-9 relative tolerance",
    "activations are exactly computable callables (identity, relu, hard-tanh, x/2)",
    "history before the checked fit (earlier fit of the same object, run before fit, ESN from_state): the states the nodes hold when fit() is "
    "called are OBSERVED on the real nodes and given to the Q model as initial states (the earlier run / fit itself is C02/C07 and an "
    "unchecked first pass); a Model trains from them (default flags) or from zero (reset=True, or first fit of a not yet initialised model, "
    "whose initialisation zeroes the states); the ESN node trains every sequence from the null reservoir state whatever its history",
    "state between sequences: Model.fit default (stateful=True, reset=False) carries every node's state from one sequence to the next; "
    "the explicit procedure does the same (Node.run is stateful); reset=True zeroes it at the start of every sequence in both",
]

_uid = itertools.count()
RIDGES = [Fraction(1, 4), Fraction(1, 2), Fraction(1), Fraction(2), Fraction(4)]


def rpy():
    import reservoirpy
    reservoirpy.verbosity(0)
    return reservoirpy


def fl(rows):
    return np.array([[float(Fraction(v)) for v in r] for r in rows], dtype=float).reshape(len(rows), -1)


def jsonable(x):
    return json.loads(json.dumps(x, default=str))


def rows(rng, T, dim, lim=4, maxpow=1):
    return [[str(core.dyadic(rng, lim, maxpow)) for _ in range(dim)] for _ in range(T)]


# ------------------------------------------------------------------------------------------ scenario generation (fit)
def mk_res(rng, i, name, idim, units=None):
    nd = scengen.make_node(rng, i, "res", idim)
    while units is not None and len(nd["W"]) != units:
        nd = scengen.make_node(rng, i, "res", idim)
    nd["name"] = name
    if nd["act"] != "hardtanh":
        # identity / relu / x/2 are unbounded: keep the recurrence contractive (row sums < 1) so that the states, hence the
        # conditioning of the ridge systems, stay O(1) and float64 stays within the tolerance
        nd["W"] = [[str(Fraction(v) / 8) for v in r] for r in nd["W"]]
    return nd


def mk_ridge(rng, i, name, out):
    return {"id": i, "name": name, "kind": "ridge", "ridge": str(rng.choice(RIDGES)), "bias": rng.random() < 0.7, "odim": out}


def mk_input(i, name, d):
    return {"id": i, "name": name, "kind": "input", "idim": d, "odim": d}


FIT_FAMILIES = ["chain", "inchain", "deep", "shortcut", "parallel", "entry-readout", "deep3", "esn", "cross-ok", "esn+hist", "model+hist", "fb-noforce"]
# histories before the fit that is checked: the nodes then hold a non-zero state when fit() is called
HISTORIES = ["refit", "run-then-fit", "refit-run-fit", "from_state"]
EXOTIC = ["early-output-readout", "cross-stage-concat-order", "cross-stage-multi-source", "entry-readout-with-forward"]


def gen_fit(rng, family):
    hist = None
    if family == "esn+hist":
        family, hist = "esn", rng.choice(HISTORIES)
    elif family == "model+hist":
        family, hist = rng.choice(["chain", "inchain", "shortcut", "parallel", "deep"]), rng.choice(HISTORIES[:3])
        if family == "deep":
            hist = "refit"      # an unfitted first readout feeding a second reservoir: nothing to run before the first fit
    d = rng.randint(1, 2)
    o = rng.randint(1, 2)
    nodes, edges = [], []
    expect = "valid"
    if family in ("chain", "esn"):
        nodes = [mk_res(rng, 0, "a_res", d), mk_ridge(rng, 1, "b_rd", o)]
        edges = [[0, 1]]
    elif family == "fb-noforce":
        # reservoir <<= readout, fitted with force_teachers=False: the reservoir receives the unfitted readout's own state (zeros)
        r = mk_res(rng, 0, "a_res", d)
        u = len(r["W"])
        r.update(kind="resfb", Wfb=scengen.mat(rng, u, o, 2, 1), fbact=rng.choice(["id", "relu", "half"]), fb={"node": 1})
        nodes = [r, mk_ridge(rng, 1, "b_rd", o)]
        edges = [[0, 1]]
    elif family == "inchain":
        nodes = [mk_input(0, "a_in", d), mk_res(rng, 1, "b_res", d), mk_ridge(rng, 2, "c_rd", o)]
        edges = [[0, 1], [1, 2]]
    elif family == "deep":
        r1 = mk_res(rng, 0, "a_res1", d)
        nodes = [r1, mk_ridge(rng, 1, "b_rd1", o), mk_res(rng, 2, "c_res2", o, 2), mk_ridge(rng, 3, "d_rd2", o)]
        edges = [[0, 1], [1, 2], [2, 3]]
    elif family == "deep3":
        o = 1        # exact rational arithmetic through three successive ridge solutions: keep the sizes small
        nodes = [mk_res(rng, 0, "a_res1", d, 2), mk_ridge(rng, 1, "b_rd1", o), mk_res(rng, 2, "c_res2", o, 2), mk_ridge(rng, 3, "d_rd2", o),
                 mk_res(rng, 4, "e_res3", o, 2), mk_ridge(rng, 5, "f_rd3", o)]
        edges = [[0, 1], [1, 2], [2, 3], [3, 4], [4, 5]]
    elif family == "shortcut":
        nm = rng.choice([("a_in", "b_res"), ("z_in", "b_res")])       # both fan-in orders of the inserted Concat
        nodes = [mk_input(0, nm[0], d), mk_res(rng, 1, nm[1], d), mk_ridge(rng, 2, "c_rd", o)]
        edges = [[0, 1], [0, 2], [1, 2]]
    elif family == "parallel":
        nodes = [mk_res(rng, 0, "a_res", d), mk_ridge(rng, 1, "b_rd1", o), mk_ridge(rng, 2, "c_rd2", o)]
        edges = [[0, 1], [0, 2]]
    elif family == "entry-readout":
        nodes = [mk_ridge(rng, 0, "a_rd0", o), mk_res(rng, 1, "b_res", o), mk_ridge(rng, 2, "c_rd1", o)]
        edges = [[0, 1], [1, 2]]
    elif family == "cross-ok":
        # res >> rd1 ; [res, rd1] >> rd2 with names such that (rd1, res) is also the fan-in order of the Concat
        nodes = [mk_res(rng, 0, "z_res", d, 2), mk_ridge(rng, 1, "b_rd1", o), mk_ridge(rng, 2, "c_rd2", o)]
        edges = [[0, 1], [0, 2], [1, 2]]
    elif family == "cross-stage-concat-order":
        nodes = [mk_res(rng, 0, "a_res", d, 2), mk_ridge(rng, 1, "b_rd1", o), mk_ridge(rng, 2, "c_rd2", o)]
        edges = [[0, 1], [0, 2], [1, 2]]
        expect = "invalid"
    elif family == "early-output-readout":
        nodes = [mk_res(rng, 0, "a_res", d), mk_ridge(rng, 1, "b_rda", o), mk_ridge(rng, 2, "c_rdb", o), mk_ridge(rng, 3, "d_rdc", o)]
        edges = [[0, 1], [0, 2], [2, 3]]
        expect = "raises"
    elif family == "cross-stage-multi-source":
        nodes = [mk_input(0, "a_in", d), mk_res(rng, 1, "b_res", d), mk_ridge(rng, 2, "c_rd1", o), mk_ridge(rng, 3, "d_rd2", o)]
        edges = [[0, 1], [1, 2], [0, 3], [1, 3], [2, 3]]
        expect = "raises"
    elif family == "entry-readout-with-forward":
        nodes = [mk_ridge(rng, 0, "a_rd0", o), mk_res(rng, 1, "b_res", d), mk_ridge(rng, 2, "c_rd1", o)]
        edges = [[1, 2]]
        expect = "raises"
        if d != o:
            pass
    else:
        raise ValueError(family)
    warm = rng.choice([0, 0, 1, 2])
    J = rng.choice([1, 1, 2, 3])
    multi_stage = family in ("deep", "deep3", "cross-ok", "cross-stage-concat-order", "entry-readout")
    if family == "deep3":
        J = 1
    elif multi_stage:
        J = min(J, 2)     # exact rationals through chained ridge solutions grow with the number of timesteps
    lens = [warm + rng.randint(2, 3 if multi_stage else 5) for _ in range(J)]
    X = [rows(rng, T, d) for T in lens]
    int_input = family not in ("esn",) and hist is None and rng.random() < 0.15
    if int_input:
        # integer-typed input arrays (one-hot / count data): the states of the forward nodes, hence what every readout is fitted on, are still floats
        X = [[[str(rng.randint(-3, 3)) for _ in range(d)] for _ in range(T)] for T in lens]
    ridges = [n["id"] for n in nodes if n["kind"] == "ridge"]
    ymode = rng.choice(["array", "mapping"])
    if ymode == "array":
        Y1 = [rows(rng, T, o) for T in lens]
        Y = {str(i): Y1 for i in ridges}
    else:
        Y = {str(i): [rows(rng, T, o) for T in lens] for i in ridges}
    sc = {"op": "fit", "family": family, "nodes": nodes, "edges": edges, "din": d, "X": X, "Y": Y,
          "xmode": rng.choice(["array", "mapping"]), "ymode": ymode, "warmup": warm,
          "reset": rng.random() < 0.3, "aslist": J > 1 or rng.random() < 0.3, "expect": expect}
    if int_input:
        sc["int_input"] = True
    if family == "esn":
        sc["reset"] = True     # ESN.fit resets the reservoir at the start of every sequence
        sc["xmode"] = "array"
    elif family == "fb-noforce" or (hist is None and rng.random() < 0.25):
        sc["force_teachers"] = False      # Model.fit(..., force_teachers=False): the targets still fit the readouts, nothing is forced
    if hist is not None:
        sc["hist"] = hist
        pre = []
        if hist in ("refit", "refit-run-fit"):
            pre.append({"op": "fit"})                                   # the same data, default flags
        if hist in ("run-then-fit", "refit-run-fit"):
            pre.append({"op": "run", "X": rows(rng, rng.randint(2, 4), d)})
        sc["pre"] = pre
        if hist == "from_state":                                        # ESN only: fit(..., from_state={reservoir: s})
            units = len(nodes[0]["W"])
            sc["from_state"] = {"0": [str(core.dyadic(rng, 4, 1)) for _ in range(units)]}
    return sc


# ------------------------------------------------------------------------------------------ real objects (fit)
class Built:
    def __init__(self, sc):
        rpy()
        from reservoirpy.model import Model
        from reservoirpy.nodes import ESN, Ridge
        self.sc = sc
        self.prefix = "c06v%d" % next(_uid)
        self.nodes = {}
        for nd in sc["nodes"]:
            if nd["kind"] == "ridge":
                kw = {"output_dim": nd["odim"]} if sc.get("pre") and sc["pre"][0]["op"] == "run" else {}
                self.nodes[nd["id"]] = Ridge(ridge=float(Fraction(nd["ridge"])), input_bias=nd["bias"], name="%s_%s" % (self.prefix, nd["name"]), **kw)
            else:
                self.nodes[nd["id"]] = scen.build_node(nd, self.prefix)
        for nd in sc["nodes"]:
            if nd.get("fb") is not None:
                self.nodes[nd["id"]] <<= self.nodes[nd["fb"]["node"]]
        if sc["family"] == "esn":
            self.model = ESN(reservoir=self.nodes[0], readout=self.nodes[1], workers=1, name="%s_esn" % self.prefix)
        else:
            self.model = Model([self.nodes[nd["id"]] for nd in sc["nodes"]],
                               [(self.nodes[a], self.nodes[b]) for a, b in sc["edges"]], name="%s_m" % self.prefix)
        self.ids = {n.name: i for i, n in self.nodes.items()}
        self.byid = dict(self.nodes)
        for n in self.model.nodes:
            if n.name not in self.ids:
                i = 100 + len(self.byid) - len(self.nodes)
                self.ids[n.name] = i
                self.byid[i] = n

    def nid(self, node):
        return self.ids[node.name]

    def graph(self):
        """(order, sorted edges, parents {id: [ids]}) as reservoirpy sees them."""
        from reservoirpy.utils.graphflow import find_parents_and_children
        m = self.model
        order = [self.nid(n) for n in m.nodes]
        es = sorted(list(m.edges), key=lambda e: e[0].name + e[1].name)
        edges = [(self.nid(a), self.nid(b)) for a, b in es]
        par, _ = find_parents_and_children(m.edges)
        parents = {self.nid(c): [self.nid(p) for p in ps] for c, ps in par.items() if ps}
        return order, edges, parents

    def data_args(self):
        sc = self.sc
        m = self.model
        seqs = [fl(s) for s in sc["X"]]
        if sc.get("int_input"):
            seqs = [np.rint(s).astype(np.int64) for s in seqs]
        xa = seqs if sc["aslist"] else seqs[0]
        if sc["xmode"] == "array":
            X = xa
        else:
            X = {n.name: xa for n in m.input_nodes}
        ys = {int(i): [fl(s) for s in v] for i, v in sc["Y"].items()}
        if sc["ymode"] == "array":
            y1 = next(iter(ys.values()))
            Y = y1 if sc["aslist"] else y1[0]
        else:
            Y = {self.byid[i].name: (v if sc["aslist"] else v[0]) for i, v in ys.items()}
        return X, Y


def staging_of(b):
    from reservoirpy.utils.graphflow import get_offline_subgraphs
    m = b.model
    out = []
    for (nodes, edges), rel in get_offline_subgraphs(m.nodes, m.edges):
        es = sorted(list(edges), key=lambda e: e[0].name + e[1].name)
        out.append({"nodes": [b.nid(n) for n in nodes], "edges": [[b.nid(a), b.nid(c)] for a, c in es],
                    "rel": [[b.ids[k], [b.ids[c] for c in v]] for k, v in rel.items()]})
    return out


def run_fit(sc):
    b = Built(sc)
    order, edges, parents = b.graph()
    stg = staging_of(b)
    X, Y = b.data_args()
    ok, err = True, None
    init = {}
    try:
        for op in sc.get("pre", []):
            if op["op"] == "fit":
                b.model.fit(X, Y, warmup=sc["warmup"])
            else:
                b.model.run(fl(op["X"]))
        if sc.get("pre"):
            for i, n in b.byid.items():
                if n.is_initialized and n.state() is not None:
                    init[i] = np.asarray(n.state(), dtype=float).ravel().tolist()
        if sc["family"] == "esn":
            kw = {}
            if sc.get("from_state"):
                kw["from_state"] = {b.byid[int(i)].name: fl([v]) for i, v in sc["from_state"].items()}
            b.model.fit(X, Y, warmup=sc["warmup"], **kw)
        elif "force_teachers" in sc:
            b.model.fit(X, Y, warmup=sc["warmup"], reset=sc["reset"], force_teachers=sc["force_teachers"])
        else:
            b.model.fit(X, Y, warmup=sc["warmup"], reset=sc["reset"])
    except Exception as e:  # noqa: BLE001
        ok, err = False, "%s: %s" % (type(e).__name__, e)
    par = {}
    if ok:
        for nd in sc["nodes"]:
            if nd["kind"] == "ridge":
                n = b.nodes[nd["id"]]
                par[nd["id"]] = {"W": np.asarray(n.Wout).tolist(), "b": np.asarray(n.bias).ravel().tolist()}
    return b, {"ok": ok, "err": err, "order": order, "edges": edges, "parents": parents, "staging": stg, "params": par, "init": init,
               "inputs": [b.nid(n) for n in b.model.input_nodes]}


def fit_to_coq(sc, b, o):
    nd = {n["id"]: n for n in sc["nodes"]}
    odim = {i: n["odim"] for i, n in nd.items()}
    terms = []
    for i in o["order"]:
        if i in nd:
            n = nd[i]
            if n["kind"] == "ridge":
                terms.append("(%s, NRidge %s %s %s)" % (nat(i), coqbool(n["bias"]), q(n["ridge"]), nat(n["odim"])))
            elif n["kind"] == "resfb":
                terms.append("(%s, NFwdFb %s %s %s)" % (nat(i), scen.kind_term(n), nat(n["odim"]), nat(nd[n["fb"]["node"]]["odim"])))
            else:
                terms.append("(%s, NFwd %s %s)" % (nat(i), scen.kind_term(n), nat(n["odim"])))
        else:
            odim[i] = sum(odim[p] for p in o["parents"].get(i, []))
            terms.append("(%s, NFwd KId %s)" % (nat(i), nat(odim[i])))
    offl = [i for i in o["order"] if i in nd and nd[i]["kind"] == "ridge"]
    g = "(mkG %s %s %s)" % (coqlist([nat(i) for i in o["order"]]),
                            coqlist(["(%s, %s)" % (nat(a), nat(c)) for a, c in o["edges"]]), coqlist([nat(i) for i in offl]))
    qd = lambda seqs: coqlist([qmat(s) for s in seqs])
    X0 = coqlist(["(%s, %s)" % (nat(i), qd(sc["X"])) for i in o["inputs"]])
    Y0 = coqlist(["(%s, %s)" % (nat(int(i)), qd(v)) for i, v in sorted(sc["Y"].items(), key=lambda p: int(p[0]))])
    stg = coqlist(["(mkStage %s %s %s)" % (coqlist([nat(i) for i in s["nodes"]]),
                                           coqlist(["(%s, %s)" % (nat(a), nat(c)) for a, c in s["edges"]]),
                                           coqlist(["(%s, %s)" % (nat(k), coqlist([nat(c) for c in v])) for k, v in s["rel"]]))
                   for s in o["staging"]])
    if not o["ok"]:
        return "chk_fit_raises %s %s %s %s" % (g, coqlist([nat(i) for i in o["inputs"]]),
                                               coqlist([nat(int(i)) for i in sorted(sc["Y"], key=int)]), stg)
    obs = coqlist(["(%s, (%s, %s))" % (nat(i), qmat(p["W"]), qvec(p["b"])) for i, p in sorted(o["params"].items())])
    init = coqlist(["(%s, %s)" % (nat(i), qvec(v)) for i, v in sorted(o.get("init", {}).items())])
    return "chk_fit %s %s %s %s %s %s %s %s %s %s" % (coqlist(terms), g, X0, Y0, nat(sc["warmup"]), coqbool(sc["reset"]), init, stg,
                                                  coqbool(sc["expect"] == "valid"), obs)


# ------------------------------------------------------------------------------------------ scenario generation (train)
TRAIN_FAMILIES = ["res-rls", "res-lms", "in-res-rls", "deep-rls", "shortcut-rls"]


def mk_online(rng, i, name, rule, idim, out):
    n = {"id": i, "name": name, "kind": rule, "bias": rng.random() < 0.6, "idim": idim, "odim": out}
    if rule == "rls":
        n["alpha"] = str(rng.choice([Fraction(1, 4), Fraction(1, 2), Fraction(1), Fraction(2), Fraction(4)]))
    else:
        n["alpha"] = str(rng.choice([Fraction(1, 16), Fraction(1, 32), Fraction(1, 64)]))
    return n


def gen_train(rng, family):
    d, o = rng.randint(1, 2), rng.randint(1, 2)
    if family in ("res-rls", "res-lms"):
        r = mk_res(rng, 0, "a_res", d)
        nodes = [r, mk_online(rng, 1, "b_rd", family[4:], r["odim"], o)]
        edges = [[0, 1]]
    elif family == "in-res-rls":
        r = mk_res(rng, 1, "b_res", d)
        nodes = [mk_input(0, "a_in", d), r, mk_online(rng, 2, "c_rd", "rls", r["odim"], o)]
        edges = [[0, 1], [1, 2]]
    elif family == "deep-rls":
        r1 = mk_res(rng, 0, "a_res1", d, 2)
        r2 = mk_res(rng, 2, "c_res2", o, 2)
        nodes = [r1, mk_online(rng, 1, "b_rd1", "rls", r1["odim"], o), r2, mk_online(rng, 3, "d_rd2", rng.choice(["rls", "lms"]), r2["odim"], o)]
        edges = [[0, 1], [1, 2], [2, 3]]
    elif family == "shortcut-rls":
        r = mk_res(rng, 1, "b_res", d)
        nodes = [mk_input(0, rng.choice(["a_in", "z_in"]), d), r, mk_online(rng, 2, "c_rd", "rls", r["odim"] + d, o)]
        edges = [[0, 1], [0, 2], [1, 2]]
    else:
        raise ValueError(family)
    k = rng.choice([1, 2, 2, 3, 4])
    # 1-3 successive Model.train calls on the same model; lengths that are not multiples of learn_every and one-timestep calls are
    # frequent, so that a gate counting timesteps across calls (instead of restarting at i = 0 of each call) changes which steps update
    ncalls = rng.choice([1, 2, 2, 3, 3])
    lens = [rng.choice([1, 1, 2, 3, 4, 5, 7]) for _ in range(ncalls)]
    if family == "deep-rls":
        lens = [min(T, 3) for T in lens][:2]          # exact rationals through two chained RLS recursions grow fast
    while sum(lens) > 10:
        lens = lens[:-1]
    lim = 4 if "lms" not in family and not any(n["kind"] == "lms" for n in nodes) else 2
    calls = [{"X": rows(rng, T, d, lim, 1), "Y": rows(rng, T, o, 4, 1)} for T in lens]
    return {"op": "train", "family": family, "nodes": nodes, "edges": edges, "din": d, "calls": calls, "X": calls[0]["X"], "Y": calls[0]["Y"],
            "k": k, "xmode": rng.choice(["array", "mapping", "mapping"]), "ymode": rng.choice(["array", "mapping"])}


class BuiltT:
    def __init__(self, sc):
        rpy()
        from reservoirpy.model import Model
        from reservoirpy.nodes import LMS, RLS
        self.sc = sc
        self.prefix = "c06t%d" % next(_uid)
        self.nodes = {}
        for nd in sc["nodes"]:
            nm = "%s_%s" % (self.prefix, nd["name"])
            if nd["kind"] == "rls":
                self.nodes[nd["id"]] = RLS(alpha=float(Fraction(nd["alpha"])), input_bias=nd["bias"], name=nm)
            elif nd["kind"] == "lms":
                self.nodes[nd["id"]] = LMS(alpha=float(Fraction(nd["alpha"])), input_bias=nd["bias"], name=nm)
            else:
                self.nodes[nd["id"]] = scen.build_node(nd, self.prefix)
        self.model = Model([self.nodes[nd["id"]] for nd in sc["nodes"]], [(self.nodes[a], self.nodes[b]) for a, b in sc["edges"]],
                           name="%s_m" % self.prefix)
        self.ids = {n.name: i for i, n in self.nodes.items()}
        self.byid = dict(self.nodes)
        for n in self.model.nodes:
            if n.name not in self.ids:
                i = 100 + len(self.byid) - len(self.nodes)
                self.ids[n.name] = i
                self.byid[i] = n

    nid = Built.nid
    graph = Built.graph

    def online_ids(self):
        return [nd["id"] for nd in self.sc["nodes"] if nd["kind"] in ("rls", "lms")]

    def data_args(self, xmode=None, ymode=None, call=None):
        sc = self.sc
        call = call or sc
        X = fl(call["X"])
        Y = fl(call["Y"])
        if (xmode or sc["xmode"]) == "mapping":
            X = {n.name: X for n in self.model.input_nodes}
        if (ymode or sc["ymode"]) == "mapping":
            Y = {self.byid[i].name: Y for i in self.online_ids()}
        return X, Y

    def params(self):
        out = {}
        for i in self.online_ids():
            n = self.byid[i]
            out[i] = {"W": np.asarray(n.Wout).tolist(), "b": np.asarray(n.bias).ravel().tolist(),
                      "P": np.asarray(n.P).tolist() if self.sc_kind(i) == "rls" else []}
        return out

    def sc_kind(self, i):
        return [nd for nd in self.sc["nodes"] if nd["id"] == i][0]["kind"]


def calls_of(sc):
    return sc.get("calls") or [{"X": sc["X"], "Y": sc["Y"]}]


def run_train(sc, xmode=None, ymode=None):
    b = BuiltT(sc)
    order, edges, parents = b.graph()
    outs_ids = sorted(b.nid(n) for n in b.model.output_nodes)
    obs = []
    for call in calls_of(sc):
        X, Y = b.data_args(xmode, ymode, call)
        res = b.model.train(X, Y, learn_every=sc["k"])
        if isinstance(res, dict):
            arrs = [np.asarray(res[b.byid[i].name]) for i in outs_ids]
        else:
            arrs = [np.asarray(res)]
        T = len(call["X"])
        obs.append({"outs": [[a.reshape(T, -1)[t].tolist() for a in arrs] for t in range(T)], "params": b.params()})
    return b, {"order": order, "edges": edges, "parents": parents, "outs_ids": outs_ids, "calls": obs,
               "outs": obs[0]["outs"], "params": obs[-1]["params"], "inputs": [b.nid(n) for n in b.model.input_nodes]}


def train_to_coq(sc, b, o):
    nd = {n["id"]: n for n in sc["nodes"]}
    odim = {i: n["odim"] for i, n in nd.items()}
    terms = []
    for i in o["order"]:
        if i in nd:
            n = nd[i]
            if n["kind"] == "rls":
                terms.append("(%s, TRls %s %s %s %s)" % (nat(i), coqbool(n["bias"]), nat(n["idim"]), nat(n["odim"]), q(n["alpha"])))
            elif n["kind"] == "lms":
                terms.append("(%s, TLms ([], %s) %s %s %s)" % (nat(i), q(n["alpha"]), coqbool(n["bias"]), nat(n["idim"]), nat(n["odim"])))
            else:
                terms.append("(%s, TFwd %s %s)" % (nat(i), scen.kind_term(n), nat(n["odim"])))
        else:
            odim[i] = sum(odim[p] for p in o["parents"].get(i, []))
            terms.append("(%s, TFwd KId %s)" % (nat(i), nat(odim[i])))
    online = b.online_ids()
    es = coqlist(["(%s, %s)" % (nat(a), nat(c)) for a, c in o["edges"]])
    cts = []
    for call, ob in zip(calls_of(sc), o["calls"]):
        steps = coqlist(["(%s, %s)" % (coqlist(["(%s, %s)" % (nat(i), qvec(x)) for i in o["inputs"]]),
                                       coqlist(["(%s, %s)" % (nat(i), qvec(y)) for i in online]))
                         for x, y in zip(call["X"], call["Y"])])
        par = coqlist(["(%s, (%s, %s, %s))" % (nat(i), qmat(p["W"]), qvec(p["b"]), qmat(p["P"])) for i, p in sorted(ob["params"].items())])
        cts.append("(%s, %s, %s)" % (steps, coqlist([qmat(st) for st in ob["outs"]]), par))
    expl = "None"
    if len(online) == 1 and o["order"][-1] == online[0] and o["outs_ids"] == [online[0]]:
        expl = "(Some (%s, %s))" % (coqlist([nat(i) for i in o["order"][:-1]]), nat(online[0]))
    return "chk_train_calls %s %s %s %s %s %s %s %s" % (coqlist(terms), coqlist([nat(i) for i in o["order"]]), es,
                                                        coqlist([nat(i) for i in online]), coqlist([nat(i) for i in o["outs_ids"]]),
                                                        nat(sc["k"]), expl, coqlist(cts))


# ------------------------------------------------------------------------------------------ correspondence
def gen_cases(rng, n, exotic=True):
    cases = []
    fams = FIT_FAMILIES + (EXOTIC if exotic else [])
    for i in range(n):
        if i % 3 == 2:
            cases.append(gen_train(rng, TRAIN_FAMILIES[(i // 3) % len(TRAIN_FAMILIES)]))
        else:
            cases.append(gen_fit(rng, fams[(i - i // 3) % len(fams)]))
    return cases


def nontrivial(sc, o):
    if sc["op"] == "fit":
        return o["ok"] and any(abs(v) > 1e-6 for p in o["params"].values() for r in p["W"] for v in r)
    return any(abs(v) > 1e-6 for p in o["params"].values() for r in p["W"] for v in r) and sum(len(c["X"]) for c in calls_of(sc)) > 1


def pregen(ctx):
    """tie (T) for the offline staging: re-translate get_offline_subgraphs / _get_required_nodes / _get_links (and the two helpers they
    call) of utils/graphflow.py of the tree under test into coq/gen/Gen_staging.v (a rejected translation leaves a stub that does not
    compile, so proofs/Gen_staging_eq.v and props/C06.v stop checking: tie broken)"""
    from vlib import py2coq_staging
    return py2coq_staging.pregen()


# ------------------------------------------------------------------------------------------ tie (T), executed
IMPORTS_GEN = ("From Coq Require Import List Arith Bool.\nFrom RV Require Import base.Num base.PyColl base.PyColl2 model.FitSem run.RunGenC06.\n"
               "Import ListNotations.\nClose Scope Q_scope.\nOpen Scope nat_scope.")
_GEN_EXC = (RuntimeError, KeyError, ValueError, IndexError, TypeError)


def _gnl(l):
    return "[" + ";".join(str(int(x)) for x in l) + "]"


def _gel(l):
    return "[" + ";".join("(%d,%d)" % (a, b) for a, b in l) + "]"


def _gen_term(V, E, nid, name_id):
    """call the REAL get_offline_subgraphs(V, E) -> (chk_gen_staging term, chk_gen_vs_model term, observation)"""
    from reservoirpy.utils import graphflow as gf
    Vi, Ei = [nid(n) for n in V], [(nid(a), nid(b)) for a, b in E]
    sortedE = [(nid(a), nid(b)) for a, b in sorted(list(E), key=lambda x: x[0].name + x[1].name)]     # Python's own sort
    offl = [nid(n) for n in V if n.is_trained_offline]
    onl = [nid(n) for n in V if n.is_trained_online]
    try:
        res = gf.get_offline_subgraphs(list(V), list(E))
        obs = [{"nodes": [nid(n) for n in ns], "edges": [(nid(a), nid(b)) for a, b in es],
                "rel": [(name_id[k], [name_id[c] for c in v]) for k, v in rel.items()]} for (ns, es), rel in res]
        term = "(Val [%s])" % ";".join("(%s, %s, [%s])" % (_gnl(st["nodes"]), _gel(st["edges"]),
                                                             ";".join("(%d, %s)" % (k, _gnl(v)) for k, v in st["rel"])) for st in obs)
    except _GEN_EXC as e:
        obs, term = type(e).__name__, "(Exc %s)" % type(e).__name__
    t1 = "chk_gen_staging %s %s %s %s %s %s" % (_gnl(Vi), _gel(Ei), _gel(sortedE), _gnl(offl), _gnl(onl), term)
    t2 = None if onl else "chk_gen_vs_model %s %s %s" % (_gnl(Vi), _gel(sortedE), _gnl(offl))
    return t1, t2, {"V": Vi, "E": Ei, "offline": offl, "online": onl, "returned": obs}


def gen_staging_correspondence(ctx):
    """the GENERATED staging (coq/gen/Gen_staging.v) executed by vm_compute against the real get_offline_subgraphs (sub-id C06_gen):
    the models of the fit scenarios, and random DAGs on 1-7 Node / Ridge / RLS objects (any node order) given to the function directly"""
    rpy()
    from reservoirpy.node import Node
    from reservoirpy.nodes import Ridge, RLS
    rng = ctx.rng("corr-gen")
    terms, keep, dist = [], [], {}

    def add(kind, t1, t2, obs):
        for t in (t1, t2):
            if t is not None:
                terms.append(t)
                keep.append({"scenario": {"kind": "generated-staging", "source": kind}, "observed": jsonable(obs),
                             "term": t if len(t) < 600 else t[:600] + "..."})
        k = "gen:" + kind + ":" + (obs["returned"] if isinstance(obs["returned"], str) else "%d-stage" % len(obs["returned"]))
        dist[k] = dist.get(k, 0) + 1
    for sc in [c for c in gen_cases(rng, ctx.n(36, 240)) if c["op"] == "fit" and c["family"] != "esn"]:
        try:
            b = Built(sc)
            add("scenario", *_gen_term(b.model.nodes, b.model.edges, b.nid, b.ids))
        except Exception as e:  # noqa: BLE001
            terms.append("false")
            keep.append({"scenario": jsonable(sc), "impl_error": repr(e)})
    for i in range(ctx.n(120, 1200)):
        n = rng.randint(1, 7)
        tag = "c06g%d_" % next(_uid)
        kinds = [rng.choice(["fwd", "fwd", "fwd", "ridge", "ridge"]) for _ in range(n)]
        if rng.random() < 0.1:
            kinds = ["fwd"] * n                                      # no offline node: subgraphs[-1] raises IndexError
        if rng.random() < 0.08:
            kinds[rng.randrange(n)] = "rls"                          # an online node (not offline): forward node of the staging
        objs = [Ridge(name=tag + "n%d" % j) if k == "ridge" else RLS(name=tag + "n%d" % j) if k == "rls"
                else Node(forward=lambda node, x: x, name=tag + "n%d" % j) for j, k in enumerate(kinds)]
        ids = {o.name: j for j, o in enumerate(objs)}
        dens = rng.choice([0.2, 0.35, 0.6])
        E = [(objs[a], objs[c]) for a in range(n) for c in range(a + 1, n) if rng.random() < dens]
        rng.shuffle(E)
        V = list(objs)
        if rng.random() < 0.4:
            rng.shuffle(V)                                           # not a topological order
        try:
            add("dag", *_gen_term(V, E, lambda o: ids[o.name], ids))
        except Exception as e:  # noqa: BLE001
            terms.append("false")
            keep.append({"scenario": {"kind": "generated-staging", "kinds": kinds}, "impl_error": repr(e)})
    failing, err = core.run_cases(ctx.pid + "_gen", IMPORTS_GEN, terms, chunk=200)
    return terms, keep, dist, failing, err


def correspondence(ctx):
    # the runner is not in the cone of props/C06.v: make sure it is compiled against the current model
    ok, log, failed = core.compile_cone(core.coq_cone("run/RunC06.v"))
    if not ok:
        return {"evaluations": 0, "distinct_nontrivial": 0, "rule": "", "samples": [], "distribution": {}, "failing": [],
                "error": "runner does not compile (%s):\n%s" % (failed, log[-2000:])}
    rng = ctx.rng("corr")
    cases = gen_cases(rng, ctx.n(75, 800))
    terms, keep, dist, nt = [], [], {}, set()
    for sc in cases:
        try:
            if sc["op"] == "fit":
                b, o = run_fit(sc)
                if o["ok"] != (sc["expect"] != "raises"):
                    terms.append("false")
                    keep.append({"scenario": jsonable(sc), "observed": jsonable(o), "note": "Model.fit raised / did not raise against expectation"})
                    continue
                terms.append(fit_to_coq(sc, b, o))
            else:
                b, o = run_train(sc)
                terms.append(train_to_coq(sc, b, o))
        except Exception as e:  # noqa: BLE001
            terms.append("false")
            keep.append({"scenario": jsonable(sc), "impl_error": repr(e)})
            continue
        keep.append({"scenario": jsonable(sc), "observed": jsonable(o)})
        key = "%s:%s%s" % (sc["op"], sc["family"], "+" + sc["hist"] if sc.get("hist") else "")
        dist[key] = dist.get(key, 0) + 1
        if nontrivial(sc, o):
            nt.add(repr(jsonable(sc)))
    failing, err = core.run_cases(ctx.pid, IMPORTS, terms, chunk=3)
    # offline fit of models WITH feedback and ESN.fit (coq/model/FitFb.v, run/RunC06.v chk_fit_fb / chk_esn_fit), sub-id <pid>_fitfb
    ff = fitfb.run(ctx, ctx.n(28, 280))
    dist["fitfb"] = dict({k: ff[k] for k in ("evaluations", "distinct_nontrivial", "distribution", "rule")}, disagree=len(ff["failing"]))
    if ff["error"]:
        err = (err or "") + "fitfb: " + ff["error"]
    # tie (T), executed: the generated staging against the real get_offline_subgraphs (separate runner, sub-id C06_gen)
    gterms, gkeep, gdist, gfail, gerr = gen_staging_correspondence(ctx)
    dist.update(gdist)
    dist["generated-code disagreements"] = len(gfail)
    if gerr:
        err = (err or "") + "generated-code run (tie T): " + gerr
    gfailing = [dict(gkeep[j], index=len(keep) + j) for j in gfail]
    return {"evaluations": len(cases) + ff["evaluations"] + len(gterms), "distinct_nontrivial": len(nt) + ff["distinct_nontrivial"],
            "rule": "[tie T executed: the models of the fit scenarios and random DAGs on 1-7 Node / Ridge / RLS objects (any node order, some "
                    "without offline node) given DIRECTLY to the real get_offline_subgraphs and to the code generated from graphflow.py: "
                    "stage node lists and edge lists compared exactly, relations as dictionaries, IndexError as IndexError; the same graphs "
                    "through model/FitSem.v] "
                    "Model.fit on {res>>ridge, input>>res>>ridge, deep with 2 and 3 readouts, input-to-readout shortcut (both Concat fan-in orders), "
                    "two parallel readouts, readout fed by the data, cross-stage Concat, ESN node} x {1-3 sequences, warm-up 0-2, reset on/off, "
                    "X/Y as array / list / name-keyed mapping} plus the topologies on which the staging is known to fail; Model.train on "
                    "{res>>RLS, res>>LMS, input>>res>>RLS, deep with two online readouts, shortcut} x learn_every 1-4 x T 1-7 x array/mapping; "
                    "compared: staging, validity flag, Wout/bias of every readout (P for RLS), returned outputs; "
                    "non-trivial = a learned Wout has a non-zero entry (and T > 1 for train); distinct by scenario text",
            "samples": [keep[0], keep[2]] if len(keep) > 2 else keep[:1],
            "distribution": dist, "tolerance": "1e-9 relative (qclose)",
            "failing": [dict(keep[i], index=i) for i in failing] + ff["failing"] + gfailing, "error": err}


# ------------------------------------------------------------------------------------------ oracle on the implementation
def _viol(key, what, sc, expected=None, observed=None):
    return {"key": key, "what": what, "scenario": jsonable(sc), "expected": jsonable(expected), "observed": jsonable(observed)}


def explicit_fit_real(sc):
    """The node-by-node procedure with real nodes: run every node over the data on its parents' outputs (upstream readouts already
    fitted), fit each readout on what reaches it with its targets and the warm-up, feed its predictions downstream.
    State at fit time.  A Model trains from the states its nodes hold (default flags: carried from the earlier run / fit and from one
    sequence to the next; reset=True: zero at the start of every sequence), so the history of the scenario is replayed node by node on
    the copies before the pass that is compared.  The ESN node runs EVERY training sequence from the null reservoir state whatever
    the ESN did before (run, earlier fit, from_state): its explicit procedure ignores the history."""
    esn = sc["family"] == "esn"
    if sc["family"] == "fb-noforce":
        # not forcing the targets: the receiver sees the unfitted readout's own state, zeros, i.e. Wfb @ g(0) = 0 at every step:
        # the explicit procedure runs the same reservoir WITHOUT the feedback connection
        sc = dict(sc, nodes=[dict({k: v for k, v in n.items() if k not in ("fb", "Wfb", "fbact")}, kind="res") if n["kind"] == "resfb" else n
                             for n in sc["nodes"]])
    b = Built(dict(sc, family="chain" if esn else sc["family"]))
    from reservoirpy.utils.graphflow import find_parents_and_children
    m = b.model
    par, _ = find_parents_and_children(m.edges)
    ys = {int(i): [fl(s) for s in v] for i, v in sc["Y"].items()}
    inputs = set(n.name for n in m.input_nodes)
    kinds = {nd["id"]: nd["kind"] for nd in sc["nodes"]}

    def one_pass(seqs, fit, reset):
        traj, out = {}, {}
        for node in m.nodes:
            i = b.nid(node)
            srcs = [traj[p.name] for p in par.get(node, [])]
            if node.name in inputs:
                srcs.append(seqs)
            ins = [np.hstack([s[j] for s in srcs]) for j in range(len(seqs))]
            if kinds.get(i) == "ridge":
                if fit:
                    node.fit(ins if len(ins) > 1 else ins[0], ys[i] if len(ins) > 1 else ys[i][0], warmup=sc["warmup"])
                    out[i] = {"W": np.asarray(node.Wout).tolist(), "b": np.asarray(node.bias).ravel().tolist()}
                traj[node.name] = [node.run(x) for x in ins]
            elif i >= 100:                       # inserted Concat: side-by-side concatenation of its parents
                traj[node.name] = [np.vstack([node.call([s[j][t:t + 1] for s in srcs]) for t in range(len(seqs[j]))]) for j in range(len(seqs))]
            else:
                traj[node.name] = [node.run(x, reset=reset) for x in ins]
        return out

    seqs = [fl(s) for s in sc["X"]]
    if not esn:
        for op in sc.get("pre", []):
            if op["op"] == "fit":
                one_pass(seqs, True, False)
            else:
                one_pass([fl(op["X"])], False, False)
    return one_pass(seqs, True, True if esn else sc["reset"])


def _close(a, b):
    a, b = np.asarray(a, dtype=float), np.asarray(b, dtype=float)
    return a.shape == b.shape and np.allclose(a, b, rtol=1e-9, atol=1e-9)


EXOTIC_KEYS = {"early-output-readout": "fit-staging:early-stage-output-readout",
               "cross-stage-concat-order": "fit-staging:cross-stage-concat-order",
               "cross-stage-multi-source": "fit-staging:cross-stage-multi-source",
               "entry-readout-with-forward": "fit-staging:entry-readout-with-forward-nodes"}


def judge_fit(sc):
    fam = sc["family"]
    key0 = EXOTIC_KEYS.get(fam, "fit:%s" % fam)
    hist = sc.get("hist")
    try:
        exp = explicit_fit_real(sc)
    except Exception as e:  # noqa: BLE001
        return _viol("oracle:explicit-procedure-raises", "the explicit procedure itself raises %r" % e, sc)
    b, o = run_fit(sc)
    if not o["ok"]:
        return _viol(key0 if fam in EXOTIC_KEYS else "fit:raises:%s" % fam,
                     "%s.fit raises (%s) on a model the explicit node-by-node procedure trains without error"
                     % ("ESN" if fam == "esn" else "Model", o["err"]), sc, exp, o["err"])
    for i, p in exp.items():
        got = o["params"].get(i)
        if got is None or not _close(p["W"], got["W"]) or not _close(p["b"], got["b"]):
            if hist and fam == "esn":
                return _viol("esn-fit:depends-on-prior-state",
                             "ESN.fit after history '%s' does not run every training sequence from the null reservoir state" % hist, sc, p, got)
            return _viol(key0 if fam in EXOTIC_KEYS else "fit:params-differ:%s%s" % (fam, ":after-" + hist if hist else ""),
                         "%s.fit gives readout %s other parameters than the explicit node-by-node procedure%s"
                         % ("ESN" if fam == "esn" else "Model", [n["name"] for n in sc["nodes"] if n["id"] == i][0],
                            " (history before the fit: %s)" % hist if hist else ""), sc, p, got)
    # array vs mapping: the other way of passing the same data gives the same parameters
    if fam != "esn":
        sc2 = dict(sc, xmode="mapping" if sc["xmode"] == "array" else "array")
        if sc["ymode"] == "array":
            sc2["ymode"] = "mapping"
        b2, o2 = run_fit(sc2)
        if not o2["ok"] or any(not _close(o["params"][i]["W"], o2["params"][i]["W"]) or not _close(o["params"][i]["b"], o2["params"][i]["b"])
                               for i in o["params"]):
            return _viol("fit:array-vs-mapping", "Model.fit gives different parameters when the same data is passed as array / as mapping",
                         sc, o["params"], o2["params"] if o2["ok"] else o2["err"])
    return None


def explicit_train_real(sc):
    """For every Model.train call of the scenario, on the same real nodes: per timestep, call every node in order on its sources, then
    (steps with i % learn_every == 0, i counted from the start of THIS call, or the only step of the call)
    readout.train(x_t, y_t, call=False) for every online node.  Returns [(outputs of the output nodes, params after the call)]."""
    b = BuiltT(sc)
    from reservoirpy.utils.graphflow import find_parents_and_children
    m = b.model
    par, _ = find_parents_and_children(m.edges)
    inputs = set(n.name for n in m.input_nodes)
    online = set(b.online_ids())
    outs_ids = sorted(b.nid(n) for n in m.output_nodes)
    res = []
    for call in calls_of(sc):
        X, Y = fl(call["X"]), fl(call["Y"])
        outs = []
        T = len(X)
        for t in range(T):
            cur, xin = {}, {}
            for node in m.nodes:
                srcs = [cur[p.name] for p in par.get(node, [])]
                if node.name in inputs:
                    srcs.append(X[t:t + 1])
                i = b.nid(node)
                if i >= 100:
                    cur[node.name] = node.call(srcs)
                else:
                    x = np.hstack(srcs)
                    xin[i] = x
                    if i in online and not node.is_initialized:
                        node.initialize(x, Y[t:t + 1])
                        node.initialize_buffers()
                    cur[node.name] = node.call(x)
            outs.append([np.asarray(cur[b.byid[i].name]).ravel().tolist() for i in outs_ids])
            if t % sc["k"] == 0 or T == 1:
                for node in m.nodes:
                    i = b.nid(node)
                    if i in online:
                        node.train(xin[i], Y[t:t + 1], call=False)
        res.append((outs, b.params()))
    return res


def _same_call(exp, ob):
    eo, ep = exp
    return _close(np.array(eo), np.array(ob["outs"])) and all(
        _close(ep[i]["W"], ob["params"][i]["W"]) and _close(ep[i]["b"], ob["params"][i]["b"]) and _close(ep[i]["P"], ob["params"][i]["P"]) for i in ep)


def judge_train(sc):
    try:
        exp = explicit_train_real(sc)
    except Exception as e:  # noqa: BLE001
        return _viol("oracle:explicit-loop-raises", "the explicit per-timestep loop itself raises %r" % e, sc)
    for xm in ("array", "mapping"):
        try:
            b, o = run_train(sc, xmode=xm)
        except Exception as e:  # noqa: BLE001
            return _viol("train:raises:%s-input" % xm, "Model.train raises %r" % e, sc)
        for c, (ex, ob) in enumerate(zip(exp, o["calls"])):
            if _same_call(ex, ob):
                continue
            lens = [len(cl["X"]) for cl in calls_of(sc)]
            if c == 0:
                # classify: did it behave as if learn_every were 1?
                e1 = explicit_train_real(dict(sc, k=1))
                every = sc["k"] > 1 and all(_close(e1[0][1][i]["W"], ob["params"][i]["W"]) for i in e1[0][1])
                key = ("learn_every-ignored:%s-input" % xm) if every else ("train:differs-from-loop:%s-input" % xm)
                what = "Model.train(X as %s, learn_every=%d) differs from the explicit per-timestep loop%s" \
                       % (xm, sc["k"], " (it updated at every step)" if every else "")
            else:
                key = "train:later-call-differs-from-loop:%s-input" % xm
                what = ("successive Model.train calls of lengths %s with learn_every=%d: call %d differs from the explicit per-timestep loop "
                        "whose gate restarts at i = 0 of each call" % (lens, sc["k"], c + 1))
            return _viol(key, what, sc, {"call": c, "outs": ex[0], "params": ex[1]}, {"call": c, "outs": ob["outs"], "params": ob["params"]})
    return None


def judge(case):
    if case.get("kind") == "fitfb":        # a fit-with-feedback scenario (props/fitfb.py): decided by the correspondence only
        return None
    sc = case["scenario"]
    return judge_fit(sc) if sc["op"] == "fit" else judge_train(sc)


def judge_esn_raw_inputs(seed):
    """ESN(use_raw_inputs=True) = Input >> reservoir >> readout plus Input >> readout: fit must equal the explicit procedure
    (added by the lead; on the pinned tree the ESN node cannot even be fitted in this configuration - open finding)."""
    import numpy as np
    import reservoirpy as rpy
    rpy.verbosity(0)
    from reservoirpy.nodes import ESN, Reservoir, Ridge
    rng = np.random.default_rng(seed)
    X = rng.integers(-4, 5, size=(8, 2)) / 4.0
    Y = rng.integers(-4, 5, size=(8, 1)) / 4.0
    W = rng.integers(-2, 3, size=(3, 3)) / 8.0
    Win = rng.integers(-2, 3, size=(3, 2)) / 2.0
    tag = "raw%d_%d" % (seed, int(rng.integers(1 << 30)))
    sc = {"op": "fit", "family": "esn-raw-inputs", "kind": "esn-raw-inputs", "seed": seed}
    try:
        e = ESN(reservoir=Reservoir(3, W=W, Win=Win, bias=np.zeros((3, 1)), lr=0.5, name=tag + "_r"), readout=Ridge(ridge=0.5, name=tag + "_o"),
                use_raw_inputs=True, name=tag)
        e.fit(X, Y)
        r2 = Reservoir(3, W=W, Win=Win, bias=np.zeros((3, 1)), lr=0.5, name=tag + "_r2")
        S = r2.run(X, reset=True)
        ref = Ridge(ridge=0.5, name=tag + "_o2").fit(np.hstack([S, X]), Y)
        got = np.vstack([np.asarray(e.readout.bias).reshape(1, -1), np.asarray(e.readout.Wout)])
        exp = np.vstack([np.asarray(ref.bias).reshape(1, -1), np.asarray(ref.Wout)])
        if got.shape != exp.shape or not (np.allclose(np.sort(got, axis=0), np.sort(exp, axis=0), atol=1e-9)):
            return {"key": "fit:params-differ:esn-raw-inputs", "what": "ESN(use_raw_inputs=True).fit differs from the explicit procedure", "scenario": sc,
                    "expected": exp.tolist(), "observed": got.tolist()}
    except Exception as ex:  # noqa: BLE001
        return {"key": "esn:use_raw_inputs-unusable", "what": "ESN(use_raw_inputs=True).fit raises %s: %s" % (type(ex).__name__, ex), "scenario": sc,
                "expected": None, "observed": None}
    return None


def judge_offline_and_online_node(seed):
    """a custom node carrying BOTH an offline and an online rule inside a model that is fitted offline (targets given for every trainable node):
    Model.fit must terminate, and the Ridge readout downstream gets the parameters of the explicit procedure (the custom node is the identity)"""
    import signal
    import reservoirpy as rpy
    from reservoirpy.node import Node
    from reservoirpy.nodes import Reservoir, Ridge
    rpy.verbosity(0)
    tag = "bo%d" % seed
    sc = {"kind": "offline-and-online-node", "seed": seed}
    rs = np.random.RandomState(seed)
    W = rs.randint(-4, 5, (3, 3)) / 8.0
    Win = rs.randint(-4, 5, (3, 2)) / 4.0
    X, Y = rs.randint(-8, 9, (8, 2)) / 4.0, rs.randint(-8, 9, (8, 1)) / 4.0

    def init(n, x=None, y=None):
        n.set_input_dim(x.shape[1]); n.set_output_dim(x.shape[1])
    both = Node(forward=lambda n, x: x, initializer=init, partial_backward=lambda n, X_, Y_=None, **k: None,
                backward=lambda n, X_=None, Y_=None: None, train=lambda n, x, y=None: None, name=tag + "_both")
    res = Reservoir(3, W=W, Win=Win, bias=np.zeros((3, 1)), lr=0.5, name=tag + "_r")
    rd = Ridge(ridge=0.5, name=tag + "_o")

    def onalarm(*a):
        raise TimeoutError("Model.fit did not return within 20 s")
    old = signal.signal(signal.SIGALRM, onalarm)
    signal.alarm(20)
    try:
        (res >> both >> rd).fit(X, {rd.name: Y, both.name: np.zeros((8, 3))})
    except TimeoutError as ex:
        return {"key": "fit-staging:offline-and-online-node-hangs", "what": "reservoir >> (custom node with an offline AND an online rule) >> Ridge: %s "
                "(get_offline_subgraphs: `offlines` excludes such a node but `trained` receives it, so `while trained != offlines` never ends)" % ex,
                "scenario": sc, "expected": "fit returns", "observed": "hang"}
    except Exception as ex:  # noqa: BLE001
        return {"key": "fit-staging:offline-and-online-node:exception", "what": "fit raises %s: %s" % (type(ex).__name__, ex), "scenario": sc,
                "expected": None, "observed": None}
    finally:
        signal.alarm(0)
        signal.signal(signal.SIGALRM, old)
    r2 = Reservoir(3, W=W, Win=Win, bias=np.zeros((3, 1)), lr=0.5, name=tag + "_r2")
    ref = Ridge(ridge=0.5, name=tag + "_o2").fit(r2.run(X, reset=True), Y)
    if not (np.allclose(rd.Wout, ref.Wout, atol=1e-9) and np.allclose(rd.bias, ref.bias, atol=1e-9)):
        return {"key": "fit:params-differ:offline-and-online-node", "what": "the Ridge downstream of an identity node with both rules differs from the explicit procedure",
                "scenario": sc, "expected": np.asarray(ref.Wout).tolist(), "observed": np.asarray(rd.Wout).tolist()}
    return None


def judge_esn_memoryful_reservoirs(seed):
    """the ESN convenience node with a reservoir that keeps memory OUTSIDE state() (NVAR window; Reservoir(equation='external') internal_state), fitted on
    several sequences of different lengths with the default workers / backend: the readout gets the parameters of the explicit procedure (every sequence through
    a reservoir in its initial condition, the readout accumulating the outputs after the warm-up)"""
    import reservoirpy as rpy
    from reservoirpy.nodes import ESN, NVAR, Reservoir, Ridge
    rpy.verbosity(0)
    rs = np.random.RandomState(seed + 40)
    W, Win = rs.randint(-4, 5, (3, 3)) / 8.0, rs.randint(-4, 5, (3, 2)) / 4.0

    def data(lengths):
        return [rs.randint(-8, 9, (n, 2)) / 8.0 for n in lengths], [rs.randint(-8, 9, (n, 1)) / 4.0 for n in lengths]
    for what, mk_res, lengths, warmup in (
            ("nvar", lambda k: NVAR(delay=3, order=1, strides=2, name="mr%d_n%s" % (seed, k)), (7, 9, 6), 1),
            ("external", lambda k: Reservoir(3, W=W, Win=Win, bias=np.zeros((3, 1)), lr=0.5, equation="external", activation=lambda v: np.clip(v, -1, 1),
                                             name="mr%d_e%s" % (seed, k)), (6, 8), 1)):
        sc = {"kind": "esn-memoryful-reservoir", "what": what, "seed": seed}
        try:
            X, Y = data(lengths)
            esn = ESN(reservoir=mk_res("esn"), readout=Ridge(ridge=0.25, name="mr%d_o%s" % (seed, what)), name="mr%d_%s" % (seed, what))
            esn.fit(X, Y, warmup=warmup)
            ref = Ridge(ridge=0.25, name="mr%d_p%s" % (seed, what))
            for k, (x, y) in enumerate(zip(X, Y)):
                ref.partial_fit(mk_res("x%d" % k).run(x), y, warmup=warmup)
            ref.fit()
        except Exception as ex:  # noqa: BLE001
            return {"key": "esn-fit:memoryful-reservoir:exception", "what": "ESN with a %s reservoir: fit raises %s: %s" % (what, type(ex).__name__, ex), "scenario": sc,
                    "expected": None, "observed": None}
        if not (np.allclose(esn.readout.Wout, ref.Wout, atol=1e-9) and np.allclose(esn.readout.bias, ref.bias, atol=1e-9)):
            return {"key": "esn-fit:sequences-not-independent:%s" % what, "what": "ESN.fit with a %s reservoir on %d sequences differs from the explicit procedure that runs every "
                    "sequence through a reservoir in its initial condition (max |dWout| %.3g): memory kept outside state() leaks from one sequence into the next"
                    % (what, len(lengths), float(np.max(np.abs(esn.readout.Wout - ref.Wout)))), "scenario": sc,
                    "expected": np.asarray(ref.Wout).tolist(), "observed": np.asarray(esn.readout.Wout).tolist()}
    return None


def oracle(ctx, scale=1):
    rng = ctx.rng("oracle")
    cases = gen_cases(rng, ctx.n(60, 600) * scale)
    out, dist = [], {}
    for sc in cases:
        v = judge_fit(sc) if sc["op"] == "fit" else judge_train(sc)
        key = "%s:%s%s" % (sc["op"], sc["family"], "+" + sc["hist"] if sc.get("hist") else "")
        dist[key] = dist.get(key, 0) + 1
        if v:
            out.append(v)
    v = judge_esn_raw_inputs(ctx.seed)
    if v:
        out.append(v)
    v = judge_offline_and_online_node(ctx.seed)
    if v:
        out.append(v)
    v = judge_esn_memoryful_reservoirs(ctx.seed)
    if v:
        out.append(v)
    return {"evaluations": len(cases) + 2, "violations": out, "distribution": dist,
            "rule": "explicit node-by-node procedure with real nodes on fresh copies (Node.run / Ridge.fit(states, Y, warmup) / predictions fed "
                    "downstream) vs Model.fit / ESN.fit: Wout and bias of every readout to 1e-9; explicit per-timestep loop (Node.call upstream, "
                    "readout.train(x_t, y_t, call=False) on the steps selected by learn_every) vs Model.train with X as array and as mapping: "
                    "returned outputs, Wout, bias, P; array vs mapping data give identical parameters"}


def replay(payload):
    ff = [c for c in payload.get("corr_cases", []) if c.get("kind") == "fitfb"]
    if ff:                                 # a disagreeing fit-with-feedback scenario stored by the correspondence
        return fitfb.replay(ff[0])
    sc = payload["scenario"]
    if sc.get("kind") == "esn-memoryful-reservoir":
        v = judge_esn_memoryful_reservoirs(sc.get("seed", 0))
        return {"violates": bool(v), "detail": v}
    if sc.get("kind") == "offline-and-online-node":
        v = judge_offline_and_online_node(sc.get("seed", 0))
        return {"violates": bool(v), "detail": v}
    if sc.get("kind") == "esn-raw-inputs":
        v = judge_esn_raw_inputs(sc.get("seed", 0))
        return {"violates": bool(v), "detail": v}
    v = judge_fit(sc) if sc["op"] == "fit" else judge_train(sc)
    return {"violates": bool(v), "detail": v}
