"""C19 — metrics (mse, rmse, nrmse, rsquare, dimensionwise, _check_arrays) and spectral radius:
correspondence with coq/model/Metrics.v and an implementation oracle on reservoirpy.observables."""
import json
import math
from fractions import Fraction

import numpy as np

from vlib import core
from vlib.core import q, qmat, qvec, nat, coqbool, coqlist

IMPORTS = ("From Coq Require Import List QArith.\nFrom RV Require Import base.Num model.Metrics run.RunC19.\n"
           "Import ListNotations.\nOpen Scope Q_scope.")
IMPORTS_GEN = ("From Coq Require Import List QArith.\nFrom RV Require Import base.Num model.Metrics run.RunC19 run.RunGenC19.\n"
               "Import ListNotations.\nOpen Scope Q_scope.")
GEN_RENAMES = {"chk_%s " % n: "chk_gen_%s " % n for n in ("mse", "rmse", "nrmse", "nrmse_nv", "rsquare", "effmat")}
TRUSTED = [
    "numpy elementwise arithmetic, np.mean/np.sum/np.ptp/ndarray.var/np.quantile: not assumed - compared with the model on every run",
    "np.sqrt: the model has no square root; rmse/nrmse are tied through their squares and their sign (theorems use Coq's Reals sqrt)",
    "spectral radius: ARPACK (scipy.sparse.linalg.eigs), LAPACK (scipy.linalg.eig) and np.linalg.eigvals are numerical libraries that "
    "are NOT modelled in Coq; 'sparse = dense = largest eigenvalue modulus' is decided only by the implementation oracle "
    "(tolerance 1e-6, structured matrices with exactly known spectral radius)",
    "effective_spectral_radius: the matrix it hands to spectral_radius is captured by wrapping observables.spectral_radius and compared with the model",
    "tie (T): tools/vlib/py2coq_nd.py (fail-closed partial evaluator of observables.py over rank and dimensionwise) and coq/base/NDPrelude.v "
    "(the meaning given to np.mean/np.sum/.var/np.ptp/np.quantile with axis in {None, 0, (0,1)}: the 1-D reduction of every lane; "
    "ndarray.shape; element-wise arithmetic with scalar / trailing-vector broadcasting) are trusted as the reading of the source; the "
    "generated definitions are proved equal to model/Metrics.v (proofs/Gen_metrics_eq.v) and additionally executed at Q on every run",
]
ASSUMPTIONS = [
    "arrays are rectangular nested lists of small dyadic rationals (depth 1-3, at least one element); float64 results accurate to 1e-9 relative",
    "a zero denominator (constant y_true for minmax/var/q1q3/R^2, zero mean for norm='mean') is 'not finite' on the numpy side "
    "and an explicit guard (<> 0 hypothesis / qzero test) on the Coq side",
    "theorems about rmse/nrmse are stated with sqrt from Coq's Reals applied to the model's mse (standard Reals axioms)",
]

NORMS = ["minmax", "var", "mean", "q1q3"]
NORMK = {"minmax": "Minmax", "var": "Var", "mean": "Mean", "q1q3": "Q1Q3"}


def obsmod():
    import reservoirpy
    reservoirpy.verbosity(0)
    from reservoirpy import observables
    return observables


# ------------------------------------------------------------------------------------------ nested-list helpers
def depth(a):
    d = 0
    while isinstance(a, list):
        d += 1
        a = a[0] if a else None
    return d


def fmap(a, f):
    return [fmap(x, f) for x in a] if isinstance(a, list) else f(a)


def flat(a):
    return [z for x in a for z in flat(x)] if isinstance(a, list) else [a]


def to_np(a, dtype=None):
    if dtype and dtype != "float64":                       # integer / boolean arrays hold the same numbers
        return np.array(fmap(a, lambda v: int(Fraction(v))), dtype=dtype)
    return np.array(fmap(a, lambda v: float(Fraction(v))), dtype=float)


def sig(a):
    """Full structure of a nested list (lengths at every node): equal for rectangular arrays iff the shapes are equal,
    and different for ragged lists whose pieces do not line up."""
    return tuple([len(a)] + [sig(x) for x in a]) if isinstance(a, list) else ()


def rows_of(a):
    """2-D view used by the dimensionwise branch: all the rows of a 2-D / 3-D nested list."""
    d = depth(a)
    if d == 2:
        return a
    if d == 3:
        return [r for s in a for r in s]
    return None


def shape_of(a):
    s = []
    while isinstance(a, list):
        s.append(len(a))
        a = a[0] if a else None
    return s


def coq_arr(a):
    d = depth(a)
    if d == 1:
        return "(A1 %s)" % qvec(a)
    if d == 2:
        return "(A2 %s)" % qmat(a)
    return "(A3 %s)" % coqlist([qmat(m) for m in a])


def coq_oq(x):
    x = float(x)
    if not math.isfinite(x):
        return "None"
    return "(Some %s)" % q(x)


def coq_obs(o):
    if isinstance(o, dict):
        return "(OV [])"                                   # result of an illegal shape: matches no model output of a non-empty array
    if o == "ValueError":
        return "OErr"
    if isinstance(o, list):
        return "(OV %s)" % coqlist([coq_oq(x) for x in o])
    return "(OS %s)" % coq_oq(o)


def jsonable(c):
    return json.loads(json.dumps(c, default=lambda f: str(f)))


# ------------------------------------------------------------------------------------------ scenarios
def rand_shape(rng):
    nd = rng.choice([1, 2, 2, 3])
    if nd == 1:
        return [rng.randint(1, 12)]
    if nd == 2:
        return [rng.randint(1, 9), rng.randint(1, 4)]
    return [rng.randint(1, 3), rng.randint(1, 5), rng.randint(1, 3)]


def rand_arr(rng, shape, lim=8, maxpow=2, pool=None):
    if len(shape) == 1:
        if pool:
            return [rng.choice(pool) for _ in range(shape[0])]
        return [core.dyadic(rng, lim, maxpow) for _ in range(shape[0])]
    return [rand_arr(rng, shape[1:], lim, maxpow, pool) for _ in range(shape[0])]


def gen_metric_case(rng, i):
    fn = ["mse", "rmse", "nrmse", "rsquare", "nrmse"][i % 5]
    shape = rand_shape(rng)
    style = rng.random()
    pool = [core.dyadic(rng, 6, 2) for _ in range(rng.randint(2, 4))] if style < 0.25 else None   # ties in the sort
    y = rand_arr(rng, shape, pool=pool)
    r = rng.random()
    if r < 0.08:
        y = fmap(y, lambda v: flat(y)[0])               # constant target: every scale-type norm is 0
    r = rng.random()
    if r < 0.08:
        p = fmap(y, lambda v: v)                          # perfect prediction
    elif r < 0.5:
        p = fmap(y, lambda v: v + core.dyadic(rng, 4, 3))  # target + small error
    else:
        p = rand_arr(rng, shape)
    c = {"kind": "metric", "fn": fn, "dw": rng.random() < 0.5, "y": y, "p": p}
    if fn == "nrmse":
        c["norm"] = rng.choice(NORMS)
        if rng.random() < 0.15:
            nv = core.dyadic(rng, 8, 2)
            c["norm_value"] = nv if nv != 0 else Fraction(3, 2)
    c["layout"] = LAYOUTS[(i // 3) % len(LAYOUTS)]
    c["form"] = ["ndarray", "list2d", "ndarray", "nested", "tuple2d", "ndarray"][(i // 2) % 6]
    return c


def gen_mismatch_case(rng, i):
    fn = ["mse", "rmse", "nrmse", "rsquare"][i % 4]
    shape = rand_shape(rng)
    how = rng.choice(["len", "ndim+", "ndim-", "bcast", "perm"])
    s2 = list(shape)
    if how == "len":
        k = rng.randrange(len(s2))
        s2[k] = s2[k] + rng.choice([1, 2])
    elif how == "ndim+":
        s2 = s2 + [1] if len(s2) < 3 else s2[:-1]
    elif how == "ndim-":
        s2 = s2[:-1] if len(s2) > 1 else s2 + [1]
    elif how == "bcast":                                   # numpy would happily broadcast these
        k = rng.randrange(len(s2))
        s2[k] = 1 if s2[k] != 1 else 2
    else:
        s2 = list(reversed(s2))
        if s2 == shape:
            s2[0] += 1
    c = {"kind": "metric", "fn": fn, "dw": rng.random() < 0.5, "y": rand_arr(rng, shape), "p": rand_arr(rng, s2)}
    if fn == "nrmse":
        c["norm"] = rng.choice(NORMS)
    c["layout"] = LAYOUTS[(i // 3) % len(LAYOUTS)]
    return c


def gen_partition_case(rng, i):
    """y_true and y_pred given as LISTS of 2-D arrays with the same total number of timesteps and features but cut into
    sequences differently: stacked shapes differ (or the pieces are ragged and do not line up) -> must be rejected."""
    fn = ["mse", "rmse", "nrmse", "rsquare"][i % 4]
    F_ = rng.randint(1, 3)
    if rng.random() < 0.5:                                 # S sequences of T steps  vs  T sequences of S steps (S != T)
        S, T = rng.sample([1, 2, 3, 4, 5, 6], 2)
        ly, lp = [T] * S, [S] * T
    else:                                                  # ragged, same lengths in another order
        ly = rng.sample([1, 2, 3, 4, 5, 6], rng.randint(2, 3))
        lp = ly[1:] + ly[:1]
    y = [rand_arr(rng, [n_, F_]) for n_ in ly]
    p = [rand_arr(rng, [n_, F_]) for n_ in lp]
    c = {"kind": "metric", "fn": fn, "dw": rng.random() < 0.5, "y": y, "p": p, "form": rng.choice(["list2d", "list2d", "tuple2d"]),
         "layout": "C"}
    if fn == "nrmse":
        c["norm"] = rng.choice(NORMS)
    return c


INT_RANGES = {"uint8": (0, 255), "int8": (-128, 127), "uint16": (0, 65535), "int16": (-32768, 32767), "int32": (-40000, 40000),
              "int64": (-50, 50), "bool": (0, 1)}


def gen_int_case(rng, i):
    """Integer / boolean arrays: the metrics are about the numbers, whatever the storage type."""
    fn = ["mse", "rmse", "nrmse", "rsquare", "nrmse"][i % 5]
    dt = rng.choice(sorted(INT_RANGES))
    lo, hi = INT_RANGES[dt]
    shape = rand_shape(rng)

    def ints(sh):
        if len(sh) == 1:
            return [Fraction(rng.choice([lo, hi, rng.randint(lo, hi), rng.randint(lo, hi)])) for _ in range(sh[0])]
        return [ints(sh[1:]) for _ in range(sh[0])]
    c = {"kind": "metric", "fn": fn, "dw": rng.random() < 0.5, "y": ints(shape), "p": ints(shape), "dtype": dt,
         "layout": LAYOUTS[(i // 3) % len(LAYOUTS)]}
    if rng.random() < 0.25:
        c["dtype_p"] = "float64"
    if fn == "nrmse":
        c["norm"] = rng.choice(NORMS)
    return c


def gen_effmat_case(rng):
    n = rng.randint(1, 5)
    W = [[core.dyadic(rng, 6, 2) if rng.random() < 0.7 else Fraction(0) for _ in range(n)] for _ in range(n)]
    lr = rng.choice([Fraction(1), Fraction(1, 2), Fraction(1, 4), Fraction(3, 8), Fraction(0), Fraction(7, 8), Fraction(3, 2)])
    return {"kind": "effmat", "W": W, "lr": lr, "storage": rng.choice(["dense", "csr", "csc"])}


def gen_quantile_case(rng):
    n = rng.randint(1, 14)
    pool = [core.dyadic(rng, 8, 2) for _ in range(rng.randint(2, 5))] if rng.random() < 0.3 else None
    return {"kind": "quantile", "v": rand_arr(rng, [n], pool=pool), "a": rng.choice([1, 3, 2]), "b": 4}


def gen_cases(rng, n):
    cases = []
    for i in range(n):
        k = i % 20
        if k == 17:
            cases.append(gen_effmat_case(rng))
        elif k == 18:
            cases.append(gen_quantile_case(rng))
        elif k in (5, 11, 19):
            cases.append(gen_mismatch_case(rng, i))
        elif k == 13:
            cases.append(gen_partition_case(rng, i))
        elif k == 7:
            cases.append(gen_int_case(rng, i))
        else:
            cases.append(gen_metric_case(rng, i))
    return cases


def store(W, storage):
    import scipy.sparse as sp
    A = np.array([[float(Fraction(v)) for v in r] for r in W], dtype=float)
    if storage == "csr":
        return sp.csr_matrix(A)
    if storage == "csc":
        return sp.csc_matrix(A)
    return A


LAYOUTS = ["C", "F", "Tview", "strided", "Fstrided"]


class ArgumentModified(Exception):
    """A function of observables.py changed the contents of an array supplied by the caller."""


def layout_of(A, layout):
    """The same values as the ndarray A held in another memory layout (all of them perfectly valid ndarrays)."""
    A = np.asarray(A)
    if layout == "F":
        return np.asfortranarray(A.copy())
    if layout == "Tview" and A.ndim >= 2:                  # column-major *view* of a C-ordered buffer
        return np.ascontiguousarray(A.T).T
    if layout in ("strided", "Fstrided"):                  # every second entry of a twice larger buffer: non-contiguous
        big = np.full(tuple(2 * k for k in A.shape), 1, dtype=A.dtype, order="F" if layout == "Fstrided" else "C")
        view = big[tuple(slice(None, None, 2) for _ in A.shape)]
        view[...] = A
        return view
    return np.ascontiguousarray(A.copy())


def snapshot(W):
    return np.array(W.toarray() if hasattr(W, "toarray") else W, dtype=float, order="C", copy=True).tobytes()


def as_input(c, which):
    """The argument handed to the metric: one ndarray (default), a list / tuple of 2-D ndarrays (one per sequence, what Model.run
    returns for several sequences), or nested Python lists of floats; integer / boolean dtypes when the scenario says so."""
    a, form, lay = c[which], c.get("form", "ndarray"), c.get("layout", "C")
    dt = c.get("dtype_p", c.get("dtype")) if which == "p" else c.get("dtype")
    if form in ("list2d", "tuple2d") and depth(a) == 3:
        seqs = [layout_of(to_np(sq_, dt), lay) for sq_ in a]
        return seqs if form == "list2d" else tuple(seqs)
    if form == "nested":
        return fmap(a, lambda v: int(Fraction(v)) if (dt and dt != "float64" and dt != "bool") else (bool(Fraction(v)) if dt == "bool" else float(Fraction(v))))
    return layout_of(to_np(a, dt), lay)


def snap_input(x):
    if isinstance(x, (list, tuple)):
        return repr([snap_input(e) if isinstance(e, (list, tuple)) else (snapshot(e) if isinstance(e, np.ndarray) else e) for e in x])
    return snapshot(x)


def call_metric(c):
    O = obsmod()
    y, p = as_input(c, "y"), as_input(c, "p")
    by, bp = snap_input(y), snap_input(p)
    snapshot_ = snap_input
    fn = c["fn"]
    try:
        with np.errstate(all="ignore"):
            if fn == "mse":
                return O.mse(y, p, dimensionwise=c["dw"])
            if fn == "rmse":
                return O.rmse(y, p, dimensionwise=c["dw"])
            if fn == "rsquare":
                return O.rsquare(y, p, dimensionwise=c["dw"])
            nv = c.get("norm_value")
            return O.nrmse(y, p, norm=c["norm"], norm_value=None if nv is None else float(Fraction(nv)), dimensionwise=c["dw"])
    finally:
        if snapshot_(y) != by or snapshot_(p) != bp:
            raise ArgumentModified("%s modified %s" % (fn, "y_true" if snapshot_(y) != by else "y_pred"))


def run_impl(c):
    """Run one scenario on the real library; the observation is 'ValueError', a float, or a list of floats."""
    if c["kind"] == "metric":
        try:
            r = call_metric(c)
        except ValueError:
            return "ValueError"
        r = np.asarray(r)
        if r.ndim >= 2:                                    # never a legal result: neither a scalar nor one value per feature
            return {"badshape": list(r.shape)}
        return float(r) if r.ndim == 0 else [float(x) for x in r.tolist()]
    if c["kind"] == "effmat":
        O = obsmod()
        seen = []
        orig = O.spectral_radius

        def rec(W, maxiter=None):
            seen.append(np.asarray(W.todense() if hasattr(W, "todense") else W, dtype=float))
            return 0.0
        O.spectral_radius = rec
        try:
            O.effective_spectral_radius(store(c["W"], c["storage"]), lr=float(Fraction(c["lr"])))
        finally:
            O.spectral_radius = orig
        return {"matrix": seen[0].tolist(), "calls": len(seen)}
    if c["kind"] == "quantile":
        return float(np.quantile(to_np(c["v"]), float(Fraction(c["a"], c["b"]))))
    raise ValueError(c["kind"])


def to_coq(c, o):
    if c["kind"] == "metric":
        args = "%s %s %s %s" % (coqbool(c["dw"]), coq_arr(c["y"]), coq_arr(c["p"]), coq_obs(o))
        if c["fn"] == "nrmse":
            if c.get("norm_value") is not None:
                return "chk_nrmse_nv %s %s %s %s %s" % (coqbool(c["dw"]), q(c["norm_value"]), coq_arr(c["y"]), coq_arr(c["p"]), coq_obs(o))
            return "chk_nrmse %s %s %s %s %s" % (coqbool(c["dw"]), NORMK[c["norm"]], coq_arr(c["y"]), coq_arr(c["p"]), coq_obs(o))
        return "chk_%s %s" % (c["fn"], args)
    if c["kind"] == "effmat":
        if o["calls"] != 1:
            return "false"
        return "chk_effmat %s %s %s" % (q(c["lr"]), qmat(c["W"]), qmat(o["matrix"]))
    if c["kind"] == "quantile":
        return "chk_quantile %s %s %s %s" % (nat(c["a"]), nat(c["b"]), qvec(c["v"]), q(o))


def label(c):
    if c["kind"] != "metric":
        return c["kind"]
    if sig(c["y"]) != sig(c["p"]):
        return "mismatch" + (":partition" if c.get("form") in ("list2d", "tuple2d") and depth(c["y"]) == 3 else "")
    if c.get("dtype"):
        return "%s:integer-dtype" % c["fn"]
    nm = c["fn"] + ((":" + ("value" if c.get("norm_value") is not None else c["norm"])) if c["fn"] == "nrmse" else "")
    return "%s:%dD:%s" % (nm, depth(c["y"]), "dimwise" if c["dw"] else "global")


def nontrivial(c, o):
    if c["kind"] == "metric":
        if o == "ValueError":
            return True
        if isinstance(o, dict):
            return False
        vals = o if isinstance(o, list) else [o]
        return len(flat(c["y"])) >= 2 and any(math.isfinite(v) and v != 0 for v in vals)
    if c["kind"] == "effmat":
        return len(c["W"]) >= 2 and c["lr"] not in (0, 1)
    return len(set(c["v"])) >= 2


def pregen(ctx):
    """tie (T): re-translate reservoirpy/observables.py (_check_arrays, mse, rmse, nrmse, rsquare, effective_spectral_radius) of the
    tree under test into coq/gen/Gen_metrics.v; returns an error text when the translator rejects the source"""
    from vlib import py2coq_nd
    return py2coq_nd.pregen()


def correspondence(ctx):
    rng = ctx.rng("corr")
    cases = gen_cases(rng, ctx.n(400, 4000))
    terms, keep, dist, nt = [], [], {}, set()
    for c in cases:
        try:
            o = run_impl(c)
            err = None
        except Exception as e:
            o, err = None, repr(e)
        if err is not None:
            terms.append("false")
            keep.append({"scenario": jsonable(c), "impl_error": err})
            continue
        terms.append(to_coq(c, o))
        keep.append({"scenario": jsonable(c), "observed": jsonable(o)})
        dist[label(c)] = dist.get(label(c), 0) + 1
        if nontrivial(c, o):
            nt.add(repr(jsonable(c)))
    failing, err = core.run_cases(ctx.pid, IMPORTS, terms)
    # tie (T), dynamic side: the definitions GENERATED from the current source (coq/gen/Gen_metrics.v) executed at Q on the same
    # scenarios against the same observations (run/RunGenC19.v; separate runner: a rejected translation only fails this part)
    from vlib import gen
    gfail, gerr, gn = gen.rerun_generated(ctx.pid, IMPORTS_GEN, terms, GEN_RENAMES)
    dist["generated-definition runs"] = gn
    dist["generated-definition disagreements"] = len(gfail)
    if gerr:
        err = (err or "") + "generated metrics: " + gerr
    failing = sorted(set(failing) | set(gfail))
    return {"evaluations": len(cases) + gn, "distinct_nontrivial": len(nt),
            "rule": "seeded pairs of 1-D/2-D/3-D dyadic arrays (with ties, constant targets, perfect predictions; given as ndarrays in 5 memory "
                    "layouts, lists/tuples of 2-D arrays, nested lists; float, integer and boolean dtypes) through mse/rmse/nrmse"
                    "(4 norms + norm_value)/rsquare with dimensionwise on/off, shape-mismatched pairs (incl. broadcastable ones and lists of sequences with equal total length but another partition), the matrix "
                    "effective_spectral_radius builds (dense/csr/csc), np.quantile; non-trivial = >=2 entries and a finite non-zero "
                    "result, or a rejected mismatch, or a >=2x2 matrix with lr not in {0,1}; distinct by scenario text",
            "samples": [keep[0], keep[2], keep[min(17, len(keep) - 1)]],
            "distribution": dist, "tolerance": "1e-9 relative (qclose); squares compared where sqrt is involved",
            "failing": [dict(keep[i], index=i) for i in failing], "error": err}


# ------------------------------------------------------------------------------------------ oracle on the implementation
def F_mean(v):
    return sum(v, Fraction(0)) / len(v)


def F_mse(y, p):
    return sum(((a - b) ** 2 for a, b in zip(y, p)), Fraction(0)) / len(y)


def F_var(v):
    m = F_mean(v)
    return sum(((x - m) ** 2 for x in v), Fraction(0)) / len(v)


def F_quant(v, qq):
    s = sorted(v)
    pos = qq * (len(v) - 1)
    lo = math.floor(pos)
    hi = min(lo + 1, len(v) - 1)
    return s[lo] + (s[hi] - s[lo]) * (pos - lo)


def F_norm(norm, v):
    if norm == "minmax":
        return max(v) - min(v)
    if norm == "var":
        return F_var(v)
    if norm == "mean":
        return F_mean(v)
    return F_quant(v, Fraction(3, 4)) - F_quant(v, Fraction(1, 4))


def expected_1d(c, y, p):
    """('val', Fraction) exact value / ('sq', Fraction, sign) value whose square and sign are known / ('nonfinite',)."""
    fn = c["fn"]
    if fn == "mse":
        return ("val", F_mse(y, p))
    if fn == "rmse":
        return ("sq", F_mse(y, p), 1)
    if fn == "rsquare":
        m = F_mean(y)
        D = sum(((a - m) ** 2 for a in y), Fraction(0))
        if D == 0:
            return ("nonfinite",)
        return ("val", 1 - sum(((a - b) ** 2 for a, b in zip(y, p)), Fraction(0)) / D)
    nv = c.get("norm_value")
    n = Fraction(nv) if nv is not None else F_norm(c["norm"], y)
    if n == 0:
        return ("nonfinite",)
    return ("sq", F_mse(y, p) / n ** 2, 1 if n > 0 else -1)


def agrees(e, o, tol=1e-9):
    if e[0] == "nonfinite":
        return not math.isfinite(o)
    if not math.isfinite(o):
        return False
    if e[0] == "val":
        x = float(e[1])
        return abs(x - o) <= tol * max(1.0, abs(x))
    x = float(e[1])
    return abs(x - o * o) <= tol * max(1.0, abs(x)) and (o * e[2] >= 0)


def fr(a):
    return fmap(a, Fraction)


def show(e):
    if e[0] == "nonfinite":
        return "nan/inf"
    if e[0] == "val":
        return float(e[1])
    return e[2] * math.sqrt(float(e[1]))


def _viol(key, what, c, expected=None, observed=None):
    return {"key": key, "what": what, "scenario": jsonable(c), "expected": jsonable(expected), "observed": jsonable(observed)}


def fnkey(c):
    return c["fn"] + ((":" + ("norm_value" if c.get("norm_value") is not None else c["norm"])) if c["fn"] == "nrmse" else "")


def _judge_metric(c):
    v = _judge_metric_core(c)
    if v and c.get("dtype"):
        # the same numbers stored as float64 are scored correctly: the defect is the integer / boolean arithmetic
        c2 = {k: x for k, x in c.items() if k not in ("dtype", "dtype_p")}
        if _judge_metric_core(c2) is None:
            v = dict(v, key="metrics:integer-wraparound",
                     what="on %s arrays (same numbers as float64 are fine): %s" % (c["dtype"], v["what"]))
    return v


def _judge_metric_core(c):
    y, p = fr(c["y"]), fr(c["p"])
    try:
        o = run_impl(c)
    except ArgumentModified as e:
        return _viol("%s:argument-modified" % c["fn"], "%s (layout %s): a metric must not write into its arguments" % (e, c.get("layout", "C")), c)
    except Exception as e:
        return _viol("%s:exception" % c["fn"], "%s raises %r on arrays of shapes %s / %s" % (c["fn"], e, shape_of(y), shape_of(p)), c)
    if sig(y) != sig(p):
        if o != "ValueError":
            how = " given as %s of 2-D arrays with sequence lengths %s / %s" % (c["form"], [len(s_) for s_ in y], [len(s_) for s_ in p]) \
                if c.get("form") in ("list2d", "tuple2d") and depth(y) == 3 else ""
            return _viol("shape-mismatch:accepted", "%s accepts arrays of different shapes %s and %s%s"
                         % (c["fn"], shape_of(y), shape_of(p), how), c, "ValueError", o)
        return None
    if o == "ValueError":
        return _viol("%s:rejected" % c["fn"], "%s rejects equal-shaped arrays" % c["fn"], c, None, o)
    if isinstance(o, dict):
        return _viol("%s:result-shape" % fnkey(c), "%s returns an array of shape %s (neither a scalar nor one value per feature)"
                     % (c["fn"], o["badshape"]), c, None, o)
    ry, rp = rows_of(y), rows_of(p)
    if c["dw"] and ry is not None:
        nf = len(ry[0])
        exp = [expected_1d(c, [r[j] for r in ry], [r[j] for r in rp]) for j in range(nf)]
        if not isinstance(o, list) or len(o) != nf:
            return _viol("%s:dimwise:shape" % fnkey(c), "dimensionwise %s does not return one value per feature" % c["fn"], c, nf, o)
        for j in range(nf):
            if not agrees(exp[j], o[j]):
                return _viol("%s:dimwise:formula" % fnkey(c), "dimensionwise %s of feature %d differs from the documented formula on that column"
                             % (fnkey(c), j), c, [show(e) for e in exp], o)
        return None
    exp = expected_1d(c, flat(y), flat(p))
    if isinstance(o, list):
        return _viol("%s:global:shape" % fnkey(c), "%s without dimensionwise does not return a scalar" % c["fn"], c, show(exp), o)
    if not agrees(exp, o):
        return _viol("%s:formula" % fnkey(c), "%s differs from its documented formula" % fnkey(c), c, show(exp), o)
    return None


def _close(a, b, tol=1e-9):
    a, b = np.asarray(a, dtype=float), np.asarray(b, dtype=float)
    if a.shape != b.shape:
        return False
    fin = np.isfinite(a) & np.isfinite(b)
    if not np.array_equal(np.isfinite(a), np.isfinite(b)):
        return False
    return bool(np.all(np.abs(a[fin] - b[fin]) <= tol * np.maximum(1.0, np.abs(a[fin]))))


def _judge_laws(c):
    """Algebraic consequences, checked on the real functions only (c: {'kind':'laws', y, p, a, b, dw})."""
    O = obsmod()
    y, p = layout_of(to_np(c["y"]), c.get("layout", "C")), layout_of(to_np(c["p"]), c.get("layout", "C"))
    by, bp = snapshot(y), snapshot(p)
    v = _judge_laws_body(O, c, y, p)
    if v is None and (snapshot(y) != by or snapshot(p) != bp):
        return _viol("metrics:argument-modified", "mse/rmse/nrmse/rsquare wrote into y_true / y_pred (layout %s)" % c.get("layout", "C"), c)
    return v


def _judge_laws_body(O, c, y, p):
    a, b, dw = float(Fraction(c["a"])), float(Fraction(c["b"])), c["dw"]
    kw = {"dimensionwise": dw}
    with np.errstate(all="ignore"):
        m, r = O.mse(y, p, **kw), O.rmse(y, p, **kw)
        if not (_close(np.square(r), m) and np.all(np.asarray(r) >= 0)):
            return _viol("rmse:sq", "rmse^2 != mse or rmse < 0", c, np.asarray(m).tolist(), np.asarray(r).tolist())
        if not _close(O.mse(a * y + b, a * p + b, **kw), a * a * np.asarray(m)):
            return _viol("mse:scale", "mse(a y + b, a p + b) != a^2 mse(y, p)", c)
        if not _close(O.rmse(a * y + b, a * p + b, **kw), abs(a) * np.asarray(r)):
            return _viol("rmse:scale", "rmse(a y + b, a p + b) != |a| rmse(y, p)", c)
        ry = rows_of(c["y"])
        if dw and ry is not None:
            ycols = [np.array([float(Fraction(rw[j])) for rw in ry]) for j in range(len(ry[0]))]
        else:
            ycols = [y.ravel()]
        # guards: what each law needs to be meaningful
        nonconst = all(np.ptp(col) != 0 for col in ycols)
        if nonconst:
            r2 = np.asarray(O.rsquare(y, y, **kw))
            if not _close(r2, np.ones_like(r2)):
                return _viol("rsquare:perfect", "R^2 of a perfect prediction is not 1", c, 1.0, r2.tolist())
            if dw and ry is not None:
                axis = (0, 1) if y.ndim == 3 else 0
                mp = np.broadcast_to(y.mean(axis=axis), y.shape)
            else:
                mp = np.full_like(y, y.mean())
            r2 = np.asarray(O.rsquare(y, mp, **kw))
            if not _close(r2, np.zeros_like(r2)):
                return _viol("rsquare:mean-predictor", "R^2 of the mean predictor is not 0", c, 0.0, r2.tolist())
            r2 = O.rsquare(y, p, **kw)
            if not _close(O.rsquare(a * y + b, a * p + b, **kw), r2):
                return _viol("rsquare:affine", "R^2 changes under a common affine map of both arrays", c)
            if not np.all(np.asarray(r2) <= 1 + 1e-12):
                return _viol("rsquare:le1", "R^2 > 1", c, None, np.asarray(r2).tolist())
            if a > 0:
                for nm in ("minmax", "q1q3"):
                    base = O.nrmse(y, p, norm=nm, **kw)
                    if np.all(np.isfinite(base)) and not _close(O.nrmse(a * y + b, a * p + b, norm=nm, **kw), base):
                        return _viol("nrmse:%s:affine" % nm, "nrmse(norm=%s) changes under a common positive affine map" % nm, c)
                base = O.nrmse(y, p, norm="var", **kw)
                if not _close(O.nrmse(a * y + b, a * p + b, norm="var", **kw), np.asarray(base) / a):
                    return _viol("nrmse:var:scale", "nrmse(norm=var)(a y + b, a p + b) != nrmse(y, p) / a  (variance scales by a^2)", c)
        if a > 0 and all(col.mean() != 0 for col in ycols):
            base = O.nrmse(y, p, norm="mean", **kw)
            if not _close(O.nrmse(a * y, a * p, norm="mean", **kw), base):
                return _viol("nrmse:mean:scale", "nrmse(norm=mean) changes under a common positive scaling", c)
            if all(col.mean() + b != 0 for col in ycols):
                mu = np.array([col.mean() for col in ycols]) if (dw and ry is not None) else y.mean()
                if not _close(O.nrmse(y + b, p + b, norm="mean", **kw), np.asarray(r) / (mu + b)):
                    return _viol("nrmse:mean:shift", "nrmse(norm=mean)(y + b, p + b) != rmse(y, p) / (mean(y) + b)", c)
        nv = 1.75
        if not _close(O.nrmse(y, p, norm_value=nv, **kw), np.asarray(r) / nv):
            return _viol("nrmse:norm_value", "nrmse(norm_value=v) != rmse / v", c)
        # dimensionwise = the same metric on each column separately
        if dw and ry is not None:
            rp = rows_of(c["p"])
            for j in range(len(ry[0])):
                yc = np.array([float(Fraction(rw[j])) for rw in ry])
                pc = np.array([float(Fraction(rw[j])) for rw in rp])
                got = [np.asarray(O.mse(y, p, **kw))[j], np.asarray(O.rsquare(y, p, **kw))[j]] + \
                      [np.asarray(O.nrmse(y, p, norm=nm, **kw))[j] for nm in NORMS]
                want = [O.mse(yc, pc), O.rsquare(yc, pc)] + [O.nrmse(yc, pc, norm=nm) for nm in NORMS]
                if not _close(got, want):
                    return _viol("dimwise:not-columnwise", "a dimensionwise metric differs from the metric of column %d alone" % j, c,
                                 np.asarray(want).tolist(), np.asarray(got).tolist())
    return None


# ---- spectral radius
def gen_sr_case(rng, i):
    fam = ["random", "sparse", "ring", "nilpotent", "diagonal", "rotation", "rowsum", "perron", "triangular", "zerosum",
           "tiny", "jordan", "lowtri", "blockzerosum"][i % 14]
    n = rng.randint(3, 10)
    Z = Fraction(0)
    if fam == "random":
        W = [[core.dyadic(rng, 8, 2) for _ in range(n)] for _ in range(n)]
        rho = None
    elif fam == "sparse":
        W = [[core.dyadic(rng, 8, 2) if rng.random() < 0.35 else Z for _ in range(n)] for _ in range(n)]
        rho = None
    elif fam == "ring":
        cst = core.dyadic(rng, 8, 2) or Fraction(1)
        W = [[cst if j == (i2 + 1) % n else Z for j in range(n)] for i2 in range(n)]
        rho = abs(cst)
    elif fam == "nilpotent":
        # W^2 = 0: only the top-right block is non-zero
        h = n // 2
        W = [[core.dyadic(rng, 4, 1) if (i2 < h and j >= h) else Z for j in range(n)] for i2 in range(n)]
        rho = Z
    elif fam == "diagonal":
        d = rng.sample(range(-12, 13), n)
        W = [[Fraction(d[i2], 4) if i2 == j else Z for j in range(n)] for i2 in range(n)]
        rho = max(abs(Fraction(x, 4)) for x in d)
    elif fam == "rotation":
        # a 2x2 block [[u,-v],[v,u]] (eigenvalues u +- iv, modulus sqrt(u^2+v^2)) and smaller real eigenvalues, some of them
        # larger than the real part u
        u, v = Fraction(rng.randint(0, 4), 4), Fraction(rng.randint(8, 12), 4)
        W = [[Z] * n for _ in range(n)]
        W[0][0], W[0][1], W[1][0], W[1][1] = u, -v, v, u
        for k in range(2, n):
            W[k][k] = Fraction(rng.randint(5, 7), 4) * rng.choice([1, -1])
        rho = ("sqrt", u * u + v * v)
    elif fam == "rowsum":
        # constant row sums: the ARPACK start vector (ones) is an eigenvector of a NON-dominant eigenvalue
        big = Fraction(rng.randint(3, 6))
        W = [[Z] * n for _ in range(n)]
        W[0][0], W[0][1], W[1][0], W[1][1] = (big + 1) / 2, (1 - big) / 2, (1 - big) / 2, (big + 1) / 2   # eigenvalues 1 and big
        for k in range(2, n):
            W[k][k] = Fraction(1)
        rho = big
    elif fam == "perron":
        n = rng.randint(12, 40)
        W = [[Fraction(rng.randint(1, 8), 8) if rng.random() < 0.3 else Z for _ in range(n)] for _ in range(n)]
        for k in range(n):
            W[k][k] = Fraction(1, 2)                        # irreducible-ish, aperiodic: a simple dominant eigenvalue
        rho = None
    elif fam == "tiny":
        # 1x1 and 2x2: ARPACK can not be asked for k = 1 eigenvalue of these (k < N - 1)
        n = rng.randint(1, 2)
        W = [[core.dyadic(rng, 8, 2) or Fraction(1) for _ in range(n)] for _ in range(n)]
        rho = None
    elif fam == "jordan":
        # one nilpotent Jordan block (ones on the sub-diagonal): every eigenvalue is 0, maximally defective
        n = rng.choice([19, 19, 30, 50])
        W = [[Fraction(1) if j == i2 - 1 else Z for j in range(n)] for i2 in range(n)]
        rho = Z
    elif fam == "lowtri":
        # strictly lower-triangular (nilpotent), long chains
        n = rng.choice([10, 14, 25, 50])
        W = [[core.dyadic(rng, 8, 2) if (j < i2 and rng.random() < 0.3) else Z for j in range(n)] for i2 in range(n)]
        rho = Z
    elif fam == "blockzerosum":
        # block-diagonal: a DOMINANT circulant block c (I - P) whose rows sum to 0 (eigenvalues c (1 - w^k), radius c sqrt(3) for 3x3)
        # next to a small positive block: a structured ARPACK start vector (ones) has no component along the dominant eigenvectors
        cst = Fraction(rng.randint(2, 4))
        m = rng.randint(20, 30)             # below ~20 rows ARPACK's Krylov space is the whole space and rounding noise finds the block
        n = 3 + m
        W = [[Z] * n for _ in range(n)]
        for k in range(3):
            W[k][k] = cst
            W[k][(k + 1) % 3] = -cst
        for i2 in range(3, n):
            for j in range(3, n):
                W[i2][j] = Fraction(rng.randint(1, 8), 64)
        rho = None
    elif fam == "zerosum":
        # every row sums to 0 (e.g. a graph Laplacian): the vector of ones is in the kernel
        W = [[core.dyadic(rng, 8, 2) if rng.random() < 0.6 else Z for _ in range(n)] for _ in range(n)]
        for k in range(n):
            W[k][k] -= sum(W[k])
        rho = None
    else:
        W = [[core.dyadic(rng, 8, 2) if j > i2 else Z for j in range(n)] for i2 in range(n)]
        d = rng.sample(range(-12, 13), n)
        for k in range(n):
            W[k][k] = Fraction(d[k], 4)
        rho = max(abs(Fraction(x, 4)) for x in d)
    lr = rng.choice([Fraction(1), Fraction(1, 2), Fraction(1, 4), Fraction(3, 4), Fraction(1, 8)])
    return {"kind": "sr", "family": fam, "W": W, "rho": rho if not isinstance(rho, tuple) else ["sqrt", rho[1]], "lr": lr,
            "layout": LAYOUTS[(i // 14) % len(LAYOUTS)]}


def _judge_sr(c, tol=1e-6, zero=1e-3):
    O = obsmod()
    A = store(c["W"], "dense")
    ref = float(np.max(np.abs(np.linalg.eigvals(A))))
    exact = c.get("rho")
    if exact is not None:
        exact = math.sqrt(float(Fraction(exact[1]))) if isinstance(exact, list) else float(Fraction(exact))

    def same(x, y):
        x, y = float(x), float(y)
        if abs(y) < zero:
            return abs(x) < zero
        return abs(x - y) <= tol * max(1.0, abs(y))
    import scipy.sparse as sp
    n_ = len(c["W"])
    # strictly lower- or strictly upper-triangular: nilpotent, spectral radius exactly 0 (decided on the exact entries)
    nilpotent = all(Fraction(c["W"][i][j]) == 0 for i in range(n_) for j in range(i, n_)) or \
        all(Fraction(c["W"][i][j]) == 0 for i in range(n_) for j in range(0, i + 1))
    layout = c.get("layout", "C")
    W = layout_of(A, layout)                               # the caller's matrix object, in the requested memory layout
    before = snapshot(W)
    got = {}
    # dense FIRST, then the sparse formats built from the same object, then the same dense object a second time
    for st in ("dense", "csr", "csc", "dense2"):
        try:
            if st in ("dense", "dense2"):
                arg = W
            else:
                arg = sp.csr_matrix(W) if st == "csr" else sp.csc_matrix(W)
            sb = snapshot(arg)
            got[st] = float(np.real(O.spectral_radius(arg)))
        except Exception as e:
            if st not in ("dense", "dense2") and len(c["W"]) < 3:
                return _viol("sr:sparse:tiny-exception", "spectral_radius raises %r on a %dx%d %s matrix (ARPACK needs k < N - 1); the dense "
                             "path returns %r" % (e, len(c["W"]), len(c["W"]), st, got.get("dense")), c, got.get("dense"), repr(e))
            if st not in ("dense", "dense2") and nilpotent and not all(sum(Fraction(v) for v in r) == 0 for r in c["W"]):
                return _viol("sr:sparse-nilpotent-misestimated", "spectral_radius of a sparse (%s) strictly triangular, hence nilpotent, %dx%d "
                             "matrix raises %s through ARPACK; the dense path returns %r" % (st, len(c["W"]), len(c["W"]), type(e).__name__,
                                                                                            got.get("dense")), c, got.get("dense"), repr(e))
            if st not in ("dense", "dense2") and all(sum(Fraction(v) for v in r) == 0 for r in c["W"]):
                return _viol("sr:sparse:ones-in-kernel", "spectral_radius raises %r on a sparse matrix whose rows all sum to 0 (the start "
                             "vector v0 = ones is mapped to 0); the dense path returns %r" % (e, got.get("dense")), c, got.get("dense"), repr(e))
            return _viol("sr:%s:exception" % st, "spectral_radius raises %r on a %s %s matrix" % (e, st, c["family"]), c)
        if snapshot(arg) != sb or snapshot(W) != before:
            return _viol("sr:argument-modified", "spectral_radius overwrote the %s matrix it was given (memory layout %s, %s family): "
                         "later measurements of the same object see another matrix" % (st.rstrip("2"), layout, c["family"]), c,
                         "argument unchanged", {"first_result": got[st], "max_abs_change":
                                                float(np.max(np.abs(np.asarray(W, dtype=float) - A)))})
    target = exact if exact is not None else ref
    if not same(got["dense"], target):
        return _viol("sr:dense-vs-eigvals", "dense spectral_radius differs from the largest eigenvalue modulus (%s matrix)" % c["family"],
                     c, target, got)
    for st in ("csr", "csc"):
        if not same(got[st], got["dense"]) and nilpotent:
            return _viol("sr:sparse-nilpotent-misestimated", "spectral_radius of a sparse (%s) strictly triangular, hence nilpotent, %dx%d "
                         "matrix is %r through ARPACK; the dense path (and the exact value) is 0" % (st, n_, n_, got[st]), c, got["dense"], got)
        if not same(got[st], got["dense"]) and c["family"] == "blockzerosum":
            return _viol("sr:sparse:start-vector-blind-spot", "spectral_radius of a %s block-diagonal matrix whose dominant block has zero row sums is %r; "
                         "the dense path gives %r (ARPACK started from a structured vector never leaves the other block)" % (st, got[st], got["dense"]),
                         c, got["dense"], got)
        if not same(got[st], got["dense"]):
            return _viol("sr:sparse-vs-dense", "spectral_radius of the %s matrix differs from that of the same dense matrix (%s)"
                         % (st, c["family"]), c, got["dense"], got)
    if not same(got["dense2"], got["dense"]):
        return _viol("sr:repeat-call-differs", "measuring the same dense matrix object twice gives two different radii (%s, layout %s)"
                     % (c["family"], layout), c, got["dense"], got)
    # the SAME sparse object measured, edited in place (W.data *= 3, as users rescale or prune weights), measured again: the second
    # value is the radius of the matrix it holds NOW (3 x the first), not a remembered one
    if n_ >= 3 and not nilpotent and abs(got["dense"]) >= zero:
        for st in ("csr", "csc"):
            try:
                arg = sp.csr_matrix(W) if st == "csr" else sp.csc_matrix(W)
                r0 = float(np.real(O.spectral_radius(arg)))
                arg.data *= 3.0
                r1 = float(np.real(O.spectral_radius(arg)))
            except Exception:  # noqa: BLE001 -- ARPACK failures are judged above
                continue
            if same(r0, got["dense"]) and not same(r1, 3.0 * got["dense"]):
                return _viol("sr:stale-after-in-place-edit", "spectral_radius of a %s matrix object measured, rescaled in place by 3 and measured again: "
                             "got %r then %r, expected %r then %r" % (st, r0, r1, got["dense"], 3.0 * got["dense"]), c, 3.0 * got["dense"], r1)
    lr = float(Fraction(c["lr"]))
    M = lr * A + (1 - lr) * np.eye(len(A))
    eref = float(np.max(np.abs(np.linalg.eigvals(M))))
    for st in ("dense", "csr"):
        arg = W if st == "dense" else sp.csr_matrix(W)
        sb = snapshot(arg)
        try:
            e = float(np.real(O.effective_spectral_radius(arg, lr=lr)))
        except Exception as ex:
            return _viol("esr:exception", "effective_spectral_radius raises %r (%s)" % (ex, st), c)
        if snapshot(arg) != sb:
            return _viol("esr:argument-modified", "effective_spectral_radius overwrote the %s matrix it was given (layout %s)" % (st, layout), c)
        if not same(e, eref):
            return _viol("esr:matrix", "effective_spectral_radius(W, lr) is not the spectral radius of lr*W + (1-lr)*I (%s)" % st, c, eref, e)
    return None


def _judge(c):
    if c["kind"] == "metric":
        return _judge_metric(c)
    if c["kind"] == "laws":
        return _judge_laws(c)
    if c["kind"] == "sr":
        return _judge_sr(c)
    if c["kind"] == "effmat":
        o = run_impl(c)
        lr = Fraction(c["lr"])
        n = len(c["W"])
        exp = [[float(lr * Fraction(c["W"][i][j]) + (1 - lr) * (1 if i == j else 0)) for j in range(n)] for i in range(n)]
        if o["calls"] != 1 or not _close(o["matrix"], exp):
            return _viol("esr:matrix", "effective_spectral_radius does not evaluate spectral_radius on lr*W + (1-lr)*I", c, exp, o)
        return None
    if c["kind"] == "quantile":
        return None
    raise ValueError(c["kind"])


def judge(case):
    return _judge(case["scenario"])


_lawn = [0]


def gen_law_case(rng):
    shape = rand_shape(rng)
    y = rand_arr(rng, shape)
    p = fmap(y, lambda v: v + core.dyadic(rng, 4, 2)) if rng.random() < 0.5 else rand_arr(rng, shape)
    a = rng.choice([Fraction(1, 2), Fraction(2), Fraction(3), Fraction(-2), Fraction(5, 4), Fraction(-1, 2)])
    c = {"kind": "laws", "y": y, "p": p, "a": a, "b": core.dyadic(rng, 8, 1), "dw": rng.random() < 0.5}
    _lawn[0] += 1
    c["layout"] = LAYOUTS[_lawn[0] % len(LAYOUTS)]
    return c


def oracle(ctx, scale=1):
    rng = ctx.rng("oracle")
    n_metric, n_law, n_sr = ctx.n(300, 3000) * scale, ctx.n(120, 1200) * scale, ctx.n(130, 1040) * scale
    cases = [c for c in gen_cases(rng, n_metric) if c["kind"] in ("metric", "effmat")]
    cases += [gen_law_case(rng) for _ in range(n_law)]
    cases += [gen_sr_case(rng, i) for i in range(n_sr)]
    out, dist = [], {}
    for c in cases:
        k = c["kind"] + (":" + c["family"] if c["kind"] == "sr" else "")
        dist[k] = dist.get(k, 0) + 1
        v = _judge(c)
        if v:
            out.append(v)
    return {"evaluations": len(cases), "violations": out, "distribution": dist,
            "rule": "metrics recomputed with Python fractions (global and per column; squares compared for rmse/nrmse); ValueError on every "
                    "shape mismatch; algebraic laws on the real functions (rmse^2=mse, mse/rmse/R^2/nrmse under a y + b, perfect and mean "
                    "predictor, dimensionwise = per-column call); spectral_radius dense vs csr vs csc vs np.linalg.eigvals / exactly known "
                    "radius on random, sparse, ring, nilpotent, diagonal, triangular, rotation-pair, constant-row-sum, zero-row-sum, 1x1/2x2, nilpotent Jordan-block / strictly triangular and Perron matrices "
                    "(tol 1e-6, |rho|<1e-3 counts as 0); effective_spectral_radius vs eigvals(lr W + (1-lr) I); every array / matrix is supplied in C, Fortran, "
                    "transposed-view and strided (non-contiguous) memory layouts, the dense matrix object is measured first, then csr/csc built "
                    "from the same object, then the same object again, and no function may change the bytes of its arguments"}


def replay(payload):
    v = _judge(payload["scenario"])
    return {"violates": bool(v), "detail": v}
