"""C07 — time-compositionality: one run = successive calls = any chunking."""
import numpy as np

from vlib import core, scen, scengen
from props import c05, trainmodel

IMPORTS = scen.IMPORTS
TRUSTED = ["chunked training of single online NODES and the ESN node are decided on the implementation by the oracle; for nodes the Coq side proves the "
           "generic fold law (C07_train_app) and relies on C10's model for the learning rules themselves"] + trainmodel.TRUSTED
ASSUMPTIONS = ["no operation is nested inside another one (proxies are None at rest); forced feedback is excluded from chunked training by the property itself "
               "(C07_modeltrain_forced_* state what holds and what does not)"] + trainmodel.ASSUMPTIONS


def cuts(rng, T):
    pts = sorted(set(rng.sample(range(1, T), rng.randint(0, min(3, T - 1))))) if T > 1 else []
    out, a = [], 0
    for p in pts + [T]:
        out.append((a, p))
        a = p
    return out


def gen_scenario(rng, i):
    r0 = rng.random()
    if r0 < 0.12:
        # a STAND-ALONE node of every kind, driven one timestep at a time (Node.call), the returned arrays being kept as they are
        kind = rng.choice(["fun", "acc", "res", "resext", "delay", "nvar", "lin"])
        din = rng.randint(1, 2)
        nodes = [scengen.make_node(rng, 0, kind, din)]
        sc = {"nodes": nodes, "models": scengen.chain_models(nodes, []), "ops": [], "entries": [0], "din": din, "tag": i, "family": "single-" + kind}
        X = scengen.rows(rng, rng.randint(3, 7), din)
        sc["X"] = X
        sc["ops"] = [{"op": "call", "model": 0, "x": x} for x in X]
        return sc
    if rng.random() < 0.4:
        sc = c05.gen_scenario(rng, i, rng.choice(["down", "up", "sub-up", "sub-down", "resfb", "esn-fb"]))
        sc["ops"] = []
        d = sc["dim"]
        sc["entries"], sc["din"] = None, d
    else:
        nodes, edges, entries, din = scengen.gen_dag(rng)
        sc = {"nodes": nodes, "models": scengen.chain_models(nodes, edges), "ops": [], "entries": entries, "din": din, "tag": i, "family": "dag"}
        d = din
    T = rng.randint(2, 7)
    X = scengen.rows(rng, T, d)
    sc["X"] = X
    for a, b in cuts(rng, T):
        if b - a == 1 and rng.random() < 0.6:
            sc["ops"].append({"op": "call", "model": 0, "x": X[a]})
        else:
            sc["ops"].append({"op": "run", "model": 0, "X": X[a:b]})
    return sc


def correspondence(ctx):
    rng = ctx.rng("corr")
    n = ctx.n(120, 1200)
    terms, keep, nt, dist = [], [], set(), {}
    for i in range(n):
        sc = gen_scenario(rng, i)
        try:
            b, obs = scen.run_history(sc)
            term = scen.to_coq(sc, b, obs)
        except Exception as e:
            terms.append("false")
            keep.append({"scenario": scen.jsonable(sc), "harness_error": repr(e)})
            continue
        terms.append(term)
        keep.append({"scenario": scen.jsonable(sc), "observed": scen.jsonable(obs)})
        dist[sc["family"]] = dist.get(sc["family"], 0) + 1
        dist["chunks=%d" % len(sc["ops"])] = dist.get("chunks=%d" % len(sc["ops"]), 0) + 1
        if len(sc["ops"]) >= 2:
            nt.add(repr(scen.jsonable(sc)))
    failing, err = core.run_cases(ctx.pid, IMPORTS, terms, chunk=60)
    # online training of a model in successive calls (coq/model/TrainModel.v, run/RunTrain.v), evaluated under the sub-id <pid>_modeltrain
    mt = trainmodel.run(ctx, ctx.n(40, 300))
    dist["modeltrain"] = dict({k: mt[k] for k in ("evaluations", "distinct_nontrivial", "distribution", "rule")}, disagree=len(mt["failing"]))
    if mt["error"]:
        err = (err or "") + "modeltrain: " + mt["error"]
    return {"evaluations": n + mt["evaluations"], "distinct_nontrivial": len(nt) + mt["distinct_nontrivial"],
            "rule": "a sequence of 2-7 steps cut at random points (pieces of length one run as single calls) on random DAG models (incl. hidden-memory nodes) "
                    "and feedback loops; every piece is compared with the model, which carries states and hidden memory across pieces; "
                    "non-trivial = at least two pieces; distinct by scenario text",
            "samples": keep[:2], "distribution": dist, "tolerance": "1e-9 relative (qclose)",
            "failing": [dict(keep[i], index=i) for i in failing] + mt["failing"], "error": err}


# ------------------------------------------------------------------------------------------ oracle on the implementation
def _viol(key, what, sc, expected=None, observed=None):
    return {"key": key, "what": what, "scenario": scen.jsonable(sc), "expected": scen.jsonable(expected), "observed": scen.jsonable(observed)}


def _flat(res, names):
    if isinstance(res, dict):
        return np.hstack([np.asarray(res[n]).reshape(len(res[n]), -1) if np.asarray(res[n]).ndim > 1 else np.asarray(res[n]).reshape(1, -1) for n in names])
    return np.atleast_2d(res)


def _judge(sc):
    """whole run on one copy vs chunked run/calls on another copy of the same real objects"""
    whole = dict(sc, ops=[])
    A, B = scen.Built(whole), scen.Built(whole)
    X = scen.fl(sc["X"])
    mA, mB = A.models[0], B.models[0]
    try:
        namesA = [n.name for n in mA.output_nodes] if hasattr(mA, "nodes") else None
        namesB = [n.name for n in mB.output_nodes] if hasattr(mB, "nodes") else None
        oa = _flat(mA.run(X), sorted(namesA) if namesA else None)
        parts = []
        for o in sc["ops"]:
            if o["op"] == "call":
                parts.append(_flat(mB.call(scen.fl([o["x"]])), sorted(namesB) if namesB else None))
            else:
                parts.append(_flat(mB.run(scen.fl(o["X"])), sorted(namesB) if namesB else None))
        ob = np.vstack(parts)
        # continuation exposes any difference in hidden memory
        Xc = scen.fl(scengen.rows(core.random.Random(str(sc["tag"])), 3, X.shape[1]))
        ca = _flat(mA.run(Xc), sorted(namesA) if namesA else None)
        cb = _flat(mB.run(Xc), sorted(namesB) if namesB else None)
    except Exception as e:
        return _viol("run:exception", "valid scenario raises %r" % (e,), sc)
    if oa.shape != ob.shape or not np.allclose(oa, ob, rtol=1e-12, atol=1e-12):
        return _viol("chunked-run:outputs-differ:%s" % sc["family"], "chunked run differs from the single run", sc, oa.tolist(), ob.tolist())
    for i in A.nodes:
        sa, sb = A.nodes[i].state(), B.nodes[i].state()
        if (sa is None) != (sb is None) or (sa is not None and not np.allclose(sa, sb, rtol=1e-12, atol=1e-12)):
            return _viol("chunked-run:final-state-differs:%s" % sc["family"], "node %d final state differs" % i, sc,
                         None if sa is None else np.asarray(sa).tolist(), None if sb is None else np.asarray(sb).tolist())
    if not np.allclose(ca, cb, rtol=1e-12, atol=1e-12):
        return _viol("chunked-run:continuation-differs:%s" % sc["family"], "runs continue differently after a chunked run (hidden memory)", sc,
                     ca.tolist(), cb.tolist())
    return None


def _judge_special(rng, tag):
    """ESN node and online training"""
    import reservoirpy as rpy
    rpy.verbosity(0)
    from reservoirpy.nodes import ESN, LMS, RLS, Reservoir
    out = []
    T, d = 9, 2
    X = scen.fl(scengen.rows(rng, T, d)); Y = scen.fl(scengen.rows(rng, T, 1))
    W = scen.fl(scengen.mat(rng, 3, 3, 2, 2)); Win = scen.fl(scengen.mat(rng, 3, d, 2, 1))
    cut = sorted(rng.sample(range(1, T), 2))
    pieces = [(0, cut[0]), (cut[0], cut[1]), (cut[1], T)]
    # ESN node (with and without feedback)
    for fb in (False, True):
        def mk(t):
            kw = dict(units=3, W=W.copy(), Win=Win.copy(), lr=0.5, seed=5, ridge=0.125, feedback=fb, name="esn%s_%s_%d" % (tag, t, fb))
            if fb:
                kw["Wfb"] = scen.fl(scengen.mat(core.random.Random(tag), 3, 1, 2, 1))
            return ESN(**kw)
        ea, eb = mk("a"), mk("b")
        for e in (ea, eb):
            e.fit(X, Y)
            e.reservoir.reset(); e.readout.reset()
        oa = ea.run(X)
        ob = np.vstack([eb.run(X[a:b]) for a, b in pieces])
        if not np.allclose(oa, ob, rtol=1e-10, atol=1e-10) or not np.allclose(ea.reservoir.state(), eb.reservoir.state(), atol=1e-10):
            out.append(_viol("esn-run:state-not-advanced", "ESN(feedback=%s): chunked run differs from the single run" % fb,
                             {"tag": tag, "kind": "esn", "fb": fb, "cut": cut}, oa.tolist(), ob.tolist()))
    # ESN resumed from saved states: run(X[:k]); save states; reset; run(X[k:], from_state=saved) == tail of the whole run
    for fb in (False, True):
        kw = dict(units=3, W=W.copy(), Win=Win.copy(), lr=0.5, seed=5, ridge=0.125, feedback=fb)
        if fb:
            kw["Wfb"] = scen.fl(scengen.mat(core.random.Random(tag), 3, 1, 2, 1))
        ea = ESN(name="esnfs%s_a%d" % (tag, fb), **kw); eb = ESN(name="esnfs%s_b%d" % (tag, fb), **kw)
        for e in (ea, eb):
            e.fit(X, Y); e.reservoir.reset(); e.readout.reset()
        oa = ea.run(X)
        k = cut[0]
        o1 = eb.run(X[:k])
        saved = {eb.reservoir.name: eb.reservoir.state().copy(), eb.readout.name: eb.readout.state().copy()}
        eb.reservoir.reset(); eb.readout.reset()
        o2 = eb.run(X[k:], from_state=saved)
        if not np.allclose(oa, np.vstack([o1, o2]), rtol=1e-10, atol=1e-10):
            out.append(_viol("esn-run:from_state-ignored", "ESN(feedback=%s): resuming a run with from_state=<states saved after the first chunk> differs from the single run" % fb,
                             {"tag": tag, "kind": "esn-from-state", "fb": fb, "k": k}, oa[k:].tolist(), o2.tolist()))
    # ESN whose reservoir keeps hidden memory (NVAR store): ESN.run carries only the states over (open finding)
    from reservoirpy.nodes import NVAR, Ridge, Delay
    def mk_nv(t):
        return ESN(reservoir=NVAR(delay=2, order=1, strides=1, name="nv%s_%s" % (tag, t)), readout=Ridge(ridge=1.0, name="nvo%s_%s" % (tag, t)), name="nvesn%s_%s" % (tag, t))
    na, nb = mk_nv("a"), mk_nv("b")
    for e in (na, nb):
        e.fit(X, Y); e.reservoir.reset(); e.readout.reset()
        e.reservoir.set_param("store", np.zeros_like(e.reservoir.store))
    oa = na.run(X); ob = np.vstack([nb.run(X[a:b]) for a, b in pieces])
    if not np.allclose(oa, ob, rtol=1e-10, atol=1e-10):
        out.append(_viol("esn-run:hidden-memory-not-advanced", "ESN with an NVAR reservoir: chunked run differs from the single run (the store is not carried over)",
                         {"tag": tag, "kind": "esn-nvar", "cut": cut}, oa.tolist(), ob.tolist()))
    # Delay must not alias the caller's arrays: successive chunks passed through one re-used buffer array
    da, db = Delay(delay=2, name="dl%s_a" % tag), Delay(delay=2, name="dl%s_b" % tag)
    wa = da.run(X[:8])
    buf = np.empty((2, d)); parts = []
    for k in range(4):
        buf[:] = X[2 * k:2 * k + 2]
        parts.append(db.run(buf))
    if not np.array_equal(wa, np.vstack(parts)):
        out.append(_viol("delay:buffer-aliases-caller-array", "Delay: chunks passed through a re-used input array give different outputs than the single run",
                         {"tag": tag, "kind": "delay-alias"}, wa.tolist(), np.vstack(parts).tolist()))
    # online nodes and an online model: learn_every = 1 any cut; learn_every = k cuts at multiples of k
    for cls, kw in ((RLS, {}), (LMS, {"alpha": 0.125})):
        for k, pcs in ((1, pieces), (3, [(0, 3), (3, 9)])):
            a = cls(name="on%s_%s_a%d" % (tag, cls.__name__, k), **kw); b = cls(name="on%s_%s_b%d" % (tag, cls.__name__, k), **kw)
            oa = a.train(X, Y, learn_every=k)
            ob = np.vstack([b.train(X[s:e], Y[s:e], learn_every=k) for s, e in pcs])
            if not np.allclose(oa, ob, atol=1e-9) or not np.allclose(a.Wout, b.Wout, atol=1e-9) or not np.allclose(a.bias, b.bias, atol=1e-9):
                out.append(_viol("chunked-train:%s:learn_every=%d" % (cls.__name__, k), "online training in chunks differs from training on the whole sequence",
                                 {"tag": tag, "kind": "train", "cls": cls.__name__, "k": k}, np.asarray(a.Wout).tolist(), np.asarray(b.Wout).tolist()))
    # online model with a feedback whose sender sits UPSTREAM of the receiver, trained without teacher forcing
    from reservoirpy.node import Node
    def mk_fb_model(t):
        def init(node, x=None, **kw):
            node.set_input_dim(x.shape[1]); node.set_output_dim(x.shape[1])
        A = Node(forward=lambda n, x: 2 * x + n.state() / 2, initializer=init, name="fa%s_%s" % (tag, t))
        R = Node(forward=lambda n, x: x + 100 * np.asarray(n.feedback()).reshape(1, -1), initializer=init, name="fr%s_%s" % (tag, t))
        o = RLS(name="fo%s_%s" % (tag, t))
        R <<= A
        return A >> R >> o, A, R, o
    fa, A1, R1, o1 = mk_fb_model("a"); fb_, A2, R2, o2 = mk_fb_model("b")
    qa = fa.train(X, Y, force_teachers=False)
    qb = np.vstack([fb_.train(X[s:e], Y[s:e], force_teachers=False) for s, e in pieces])
    if not np.allclose(qa, qb, atol=1e-7) or not np.allclose(o1.Wout, o2.Wout, atol=1e-7) or not np.allclose(R1.state(), R2.state(), atol=1e-9):
        out.append(_viol("chunked-train:model-with-upstream-feedback", "online training (no teacher forcing) of a model whose feedback sender is upstream "
                         "of the receiver differs when done in chunks", {"tag": tag, "kind": "train-fb-model", "cut": cut},
                         np.asarray(qa).ravel().tolist(), np.asarray(qb).ravel().tolist()))
    # online model whose receiver gets feedback from the online readout itself (reservoir <<= readout), no teacher forcing: at the first step
    # of every later chunk the receiver sees the readout's last output, exactly as in the middle of the whole sequence
    def mk_loop_model(t):
        def init(node, x=None, **kw):
            node.set_input_dim(x.shape[1]); node.set_output_dim(x.shape[1])
        R = Node(forward=lambda n, x: x + np.asarray(n.feedback()).reshape(1, -1)[:, :1] / 2, initializer=init, name="lr%s_%s" % (tag, t))
        o = RLS(name="lo%s_%s" % (tag, t))
        R <<= o
        return R >> o, R, o
    la, R5, o5 = mk_loop_model("a"); lb, R6, o6 = mk_loop_model("b")
    X1 = X[:, :1]
    wa = la.train(X1, Y, force_teachers=False)
    wb = np.vstack([lb.train(X1[s:e], Y[s:e], force_teachers=False) for s, e in pieces])
    if not np.allclose(wa, wb, atol=1e-7) or not np.allclose(o5.Wout, o6.Wout, atol=1e-7) or not np.allclose(R5.state(), R6.state(), atol=1e-9):
        out.append(_viol("chunked-train:model-with-readout-feedback", "online training (no teacher forcing) of a model whose reservoir receives the online readout's "
                         "feedback differs when done in chunks", {"tag": tag, "kind": "train-loop-model", "cut": cut},
                         np.asarray(wa).ravel().tolist(), np.asarray(wb).ravel().tolist()))
    ra = Reservoir(3, W=W.copy(), Win=Win.copy(), bias=np.zeros((3, 1)), lr=0.5, name="mr%s_a" % tag) ; rb = Reservoir(3, W=W.copy(), Win=Win.copy(), bias=np.zeros((3, 1)), lr=0.5, name="mr%s_b" % tag)
    oa_, ob_ = RLS(name="mo%s_a" % tag), RLS(name="mo%s_b" % tag)
    ma, mb = ra >> oa_, rb >> ob_
    pa = ma.train(X, Y)
    pb = np.vstack([mb.train(X[s:e], Y[s:e]) for s, e in pieces])
    if not np.allclose(pa, pb, atol=1e-9) or not np.allclose(oa_.Wout, ob_.Wout, atol=1e-9) or not np.allclose(ra.state(), rb.state(), atol=1e-12):
        out.append(_viol("chunked-train:model", "online training of a model in chunks differs from training on the whole sequence",
                         {"tag": tag, "kind": "train-model"}, np.asarray(oa_.Wout).tolist(), np.asarray(ob_.Wout).tolist()))
    return out


def judge(case):
    sc = case["scenario"]
    return _judge(sc) if "X" in sc and case.get("kind") != "modeltrain" else None


def _judge_dtype(rng, tag):
    """a stateful node with a non-default dtype (its state is cast at every step): whole run == chunks == successive calls, outputs and final state"""
    import reservoirpy as rpy
    rpy.verbosity(0)
    from reservoirpy.node import Node

    def init(node, x=None, **kw):
        node.set_input_dim(x.shape[1]); node.set_output_dim(x.shape[1])

    def fwd(node, x):                           # a leaky accumulator: depends on the (cast) previous state
        return 0.5 * node.state() + 0.75 * x + 0.3
    out = []
    for dt in (np.int64, np.float32):
        sc = {"tag": tag, "kind": "dtype", "dtype": np.dtype(dt).name}
        X = scen.fl(scengen.rows(rng, 6, 2)) * 5.0
        try:
            nodes = [Node(forward=fwd, initializer=init, dtype=dt, name="c7dt%s%s_%d" % (tag, sc["dtype"], k)) for k in range(3)]
            whole = np.asarray(nodes[0].run(X), dtype=float)
            chunks = np.vstack([np.asarray(nodes[1].run(X[:2]), dtype=float), np.asarray(nodes[1].run(X[2:3]), dtype=float), np.asarray(nodes[1].run(X[3:]), dtype=float)])
            calls = np.vstack([np.asarray(nodes[2].call(X[t:t + 1]), dtype=float) for t in range(len(X))])
            finals = [np.asarray(n.state(), dtype=float) for n in nodes]
            dts = [np.asarray(n.state()).dtype for n in nodes]
        except Exception as e:  # noqa: BLE001
            out.append(_viol("dtype:exception", "run / chunks / calls of a dtype=%s node raise %r" % (sc["dtype"], e), sc)); continue
        if not (np.allclose(whole, chunks, rtol=0, atol=1e-12) and np.allclose(whole, calls, rtol=0, atol=1e-12)
                and np.allclose(finals[0], finals[1], rtol=0, atol=1e-12) and np.allclose(finals[0], finals[2], rtol=0, atol=1e-12) and len(set(map(str, dts))) == 1):
            out.append(_viol("dtype:chunked-run-differs", "a dtype=%s node: the whole run, the run in three chunks and successive calls do not give the same outputs / "
                             "final state (dtypes of the final states: %s)" % (sc["dtype"], [str(d) for d in dts]), sc, whole.tolist(), [chunks.tolist(), calls.tolist()]))
    return out


_LS_UID = [0]


def gen_list_sender(rng, tag):
    """a model whose feedback sender is a LIST of nodes: res >> [r1, r2] with res <<= [r1, r2] (documented usage)"""
    d, T = rng.randint(1, 2), rng.randint(7, 9)
    pts = list(range(1, T))
    cutsets = [[1, 2], [T - 1], sorted(rng.sample(pts, 3)), sorted(rng.sample(pts, 2))]     # pieces of length one included
    return {"kind": "list-sender", "tag": tag, "d": d, "X": scengen.rows(rng, T, d), "cutsets": cutsets,
            "k1": rng.choice([0.5, -0.5, 0.25]), "k2": rng.choice([0.25, -0.25, 0.5]), "g1": rng.choice([0.5, -0.5]), "c2": float(rng.randint(1, 3))}


def _judge_list_sender(sc):
    """exactly computable custom nodes: res = x + k1*fb[r1] + k2*fb[r2]; r1 = x + g1*state (leaky accumulator); r2 = x/2 + c2.
    One run over the whole sequence == runs over consecutive chunks (several cut sets) == successive single-step calls: outputs of both
    readouts and the final states of the three nodes"""
    import reservoirpy as rpy
    rpy.verbosity(0)
    from reservoirpy.node import Node
    d, k1, k2, g1, c2 = sc["d"], sc["k1"], sc["k2"], sc["g1"], sc["c2"]
    X = scen.fl(sc["X"])
    T = len(X)
    _n = _LS_UID           # module-wide: node names stay unique when a scenario is judged twice in one process

    def init(node, x=None, **kw):
        node.set_input_dim(x.shape[1]); node.set_output_dim(x.shape[1])

    def fb_init(node, feedback=None):
        node.set_feedback_dim(feedback.shape[1])

    def rf(node, x):
        fb = np.asarray(node.feedback()).reshape(1, -1)
        return x + k1 * fb[:, :d] + k2 * fb[:, d:2 * d]

    def build():
        _n[0] += 1
        pre = "c7ls%s_%d" % (sc["tag"], _n[0])
        res = Node(forward=rf, initializer=init, fb_initializer=fb_init, name=pre + "_res")
        r1 = Node(forward=lambda n, x: x + g1 * n.state(), initializer=init, name=pre + "_r1")
        r2 = Node(forward=lambda n, x: x / 2 + c2, initializer=init, name=pre + "_r2")
        model = res >> [r1, r2]
        res <<= [r1, r2]
        return model, (res, r1, r2)

    def flat(out, nodes):
        return np.hstack([np.asarray(out[nodes[1].name]).reshape(-1, d), np.asarray(out[nodes[2].name]).reshape(-1, d)])

    def finals(nodes):
        return [np.asarray(n.state(), dtype=float).copy() for n in nodes]
    try:
        mA, nA = build()
        whole = flat(mA.run(X), nA)
        fA = finals(nA)
        variants = []
        for cs in sc["cutsets"]:
            mB, nB = build()
            pcs = list(zip([0] + list(cs), list(cs) + [T]))
            variants.append(("consecutive chunks cut at %s" % (list(cs),), np.vstack([flat(mB.run(X[a:b]), nB) for a, b in pcs]), finals(nB)))
        mC, nC = build()
        variants.append(("successive single-step calls", np.vstack([flat(mC.call(X[t:t + 1]), nC) for t in range(T)]), finals(nC)))
    except Exception as e:  # noqa: BLE001
        return _viol("chunking:list-sender", "model res >> [r1, r2] with res <<= [r1, r2]: whole run / chunked runs / calls raise %r" % (e,), sc)
    for how, outs, fin in variants:
        if outs.shape != whole.shape or not np.allclose(whole, outs, rtol=1e-12, atol=1e-12):
            return _viol("chunking:list-sender", "model res >> [r1, r2] with feedback from the LIST [r1, r2]: %s do not give the outputs of one run over "
                         "the whole sequence" % how, sc, whole.tolist(), outs.tolist())
        for nm, a, b in zip(("res", "r1", "r2"), fA, fin):
            if a.shape != b.shape or not np.allclose(a, b, rtol=1e-12, atol=1e-12):
                return _viol("chunking:list-sender", "model res >> [r1, r2] with feedback from the LIST [r1, r2]: after %s the final state of %s differs "
                             "from the one left by one run over the whole sequence" % (how, nm), sc, a.tolist(), b.tolist())
    return None


def _judge_caller_arrays(tag):
    """the caller's own arrays between two calls: (i) chunks handed over through ONE pre-allocated buffer that is refilled before each call, model
    Input >> Reservoir with Reservoir <<= Input (the Input node's state must not be a view of the caller's buffer); (ii) successive single-step calls of a
    node, and of a model, whose RETURNED vector the caller post-processes in place (np.maximum(y, 0, out=y)): outputs equal those of one run"""
    import reservoirpy as rpy
    rpy.verbosity(0)
    from reservoirpy.nodes import Input, Reservoir
    out = []
    rs = np.random.RandomState(7)
    W, Win, Wfb = rs.randint(-4, 5, (3, 3)) / 8.0, rs.randint(-4, 5, (3, 2)) / 4.0, rs.randint(-4, 5, (3, 2)) / 4.0
    X = rs.randint(-8, 9, (9, 2)) / 4.0

    def mk(k, fb):
        kw = dict(W=W, Win=Win, bias=np.zeros((3, 1)), lr=0.5, activation=lambda v: np.clip(v, -1, 1), name="ca%s_r%s" % (tag, k))
        if fb:
            kw["Wfb"] = Wfb
        return Reservoir(3, **kw)
    # (i) one reused buffer
    sc = {"kind": "caller-arrays", "what": "reused-buffer", "tag": tag}
    try:
        i1, r1 = Input(name="ca%s_i1" % tag), mk("1", True)
        r1 <<= i1
        whole = (i1 >> r1).run(X)
        i2, r2 = Input(name="ca%s_i2" % tag), mk("2", True)
        r2 <<= i2
        m2 = i2 >> r2
        buf = np.zeros((3, 2))
        got = []
        for k in range(0, 9, 3):
            buf[:] = X[k:k + 3]
            got.append(np.array(m2.run(buf)))
        got = np.vstack(got)
        if not np.allclose(got, whole, atol=1e-12):
            out.append({"key": "chunking:state-aliases-caller-buffer", "what": "Input >> Reservoir with feedback from the Input node, chunks handed over through one refilled "
                        "buffer: outputs differ from one run over the whole sequence (max %.3g)" % float(np.max(np.abs(got - whole))), "scenario": sc,
                        "expected": whole.tolist(), "observed": got.tolist()})
    except Exception as e:  # noqa: BLE001
        out.append({"key": "caller-arrays:exception", "what": "reused-buffer probe raises %r" % (e,), "scenario": sc, "expected": None, "observed": None})
    # (ii) returned vector edited in place by the caller
    for level in ("node", "model"):
        sc = {"kind": "caller-arrays", "what": "returned-vector-edited:" + level, "tag": tag}
        try:
            ra, rb = mk("a" + level[0], False), mk("b" + level[0], False)
            whole = ra.run(X) if level == "node" else (Input(name="ca%s_ia" % tag) >> ra).run(X)
            target = rb if level == "node" else (Input(name="ca%s_ib" % tag) >> rb)
            rows = []
            for x in X:
                y = target.call(x)
                rows.append(np.array(y).ravel().copy())
                np.maximum(y, 0.0, out=y)              # the caller's own post-processing of what it was handed
            got = np.vstack(rows)
            if not np.allclose(got, whole, atol=1e-12):
                out.append({"key": "calls:returned-array-aliases-state:%s" % level, "what": "successive %s calls whose returned vector the caller edits in place "
                            "(np.maximum(y, 0, out=y)) differ from one run (max %.3g): the returned array is the stored state itself"
                            % (level, float(np.max(np.abs(got - whole)))), "scenario": sc, "expected": whole.tolist(), "observed": got.tolist()})
        except Exception as e:  # noqa: BLE001
            out.append({"key": "caller-arrays:exception", "what": "returned-vector probe (%s) raises %r" % (level, e), "scenario": sc, "expected": None, "observed": None})
    return out


def _judge_delay_standalone(tag):
    """a STAND-ALONE Delay node (delay 0, 1, 3, 4) driven through Node.run: the whole run, several cuttings into consecutive runs (length-1 pieces included) and
    single-step calls give the same outputs, the same final state and the same continuation"""
    import reservoirpy as rpy
    rpy.verbosity(0)
    from reservoirpy.nodes import Delay
    rs = np.random.RandomState(17)
    X = rs.randint(-8, 9, (9, 2)) / 4.0
    Xc = rs.randint(-8, 9, (3, 2)) / 4.0
    for d in (0, 1, 3, 4):
        sc = {"kind": "delay-standalone", "delay": d, "tag": tag}
        try:
            ref = Delay(delay=d, name="ds%s_%d_w" % (tag, d))
            whole = ref.run(X); cont = ref.run(Xc)
            for cuts in ([4], [1, 2], [3, 6], [1, 2, 3, 4, 5, 6, 7, 8]):
                n = Delay(delay=d, name="ds%s_%d_%s" % (tag, d, "_".join(map(str, cuts))))
                parts, prev = [], 0
                for c in cuts + [len(X)]:
                    parts.append(np.asarray(n.run(X[prev:c])).reshape(c - prev, -1)); prev = c
                got = np.vstack(parts)
                got_c = n.run(Xc)
                if not (np.array_equal(got, whole) and np.array_equal(np.asarray(got_c), np.asarray(cont)) and np.array_equal(n.state(), ref.state())):
                    return {"key": "chunking:delay-standalone", "what": "stand-alone Delay(delay=%d) run in consecutive pieces cut at %s differs from one run over the whole sequence "
                            "(outputs, final state or continuation)" % (d, cuts), "scenario": sc, "expected": whole.tolist(), "observed": got.tolist()}
        except Exception as e:  # noqa: BLE001
            return {"key": "delay-standalone:exception", "what": "stand-alone Delay(delay=%d) chunked runs raise %r" % (d, e), "scenario": sc, "expected": None, "observed": None}
    return None


def oracle(ctx, scale=1):
    rng = ctx.rng("oracle")
    n = ctx.n(60, 600) * scale
    out = []
    for i in range(n):
        v = _judge(gen_scenario(rng, "o%d" % i))
        if v:
            out.append(v)
    ns = ctx.n(2, 15)
    for i in range(ns):
        out += _judge_special(rng, "%d_%d" % (ctx.seed, i))
    out += _judge_dtype(rng, "%d" % ctx.seed)
    out += _judge_caller_arrays("%d" % ctx.seed)
    v = _judge_delay_standalone("%d" % ctx.seed)
    if v:
        out.append(v)
    nl = ctx.n(3, 20)
    lrng = ctx.rng("oracle-list-sender")
    for i in range(nl):
        v = _judge_list_sender(gen_list_sender(lrng, "%d_%d" % (ctx.seed, i)))
        if v:
            out.append(v)
    return {"evaluations": n + ns + 2 + nl, "violations": out,
            "rule": "whole run vs chunked runs/calls on two copies of the same real objects (outputs, final states of all nodes, a continuation run); "
                    "ESN node; RLS/LMS nodes and a reservoir>>RLS model trained in chunks; a model res >> [r1, r2] with feedback from the list "
                    "[r1, r2] (exact custom nodes): whole run == chunked runs (several cut sets, length-one pieces) == single-step calls"}


def replay(payload):
    mt = [c for c in payload.get("corr_cases", []) if c.get("kind") == "modeltrain"]
    if mt:                                     # a disagreeing Model.train history stored by the correspondence
        return trainmodel.replay(mt[0])
    sc = payload["scenario"]
    if sc.get("kind") == "delay-standalone":
        v = _judge_delay_standalone("rp")
    elif sc.get("kind") == "caller-arrays":
        v = [w for w in _judge_caller_arrays("rp") if w["key"] == payload.get("key", w["key"])]
    elif sc.get("kind") == "dtype":
        v = _judge_dtype(core.random.Random(0), "rp")
    elif sc.get("kind") == "list-sender":
        v = _judge_list_sender(sc)
    elif "X" in sc:
        v = _judge(sc)
    else:
        v = _judge_special(core.random.Random(str(sc.get("tag"))), "rp%s" % sc.get("tag"))
    return {"violates": bool(v), "detail": v}


def pregen(ctx):
    """tie (T): re-translate Node.run (node.py) of the tree under test into coq/gen/Gen_run.v (translator vlib/py2coq_run.py on top of
    vlib/py2coq_state.py, vocabulary coq/base/CtxPrelude.v + RunPrelude.v).  Its callees Node.with_state / _base.call are Section functions
    of Gen_run.v which proofs/Gen_run_eq.v instantiates with the generated functions of coq/gen/Gen_state.v, so that file is re-translated
    here too (the C08 pregen; both writers produce the same text from the same tree).  proofs/Gen_run_eq.v then proves the loop equal to
    run_op of model/ModelSem.v on the one-node model.  Returns None or the error text; on rejection a stub that does not compile replaces
    the file (never a stale model)."""
    import os
    import traceback
    from props import c08
    from vlib import py2coq_run
    errs = []
    e8 = c08.pregen(ctx)
    if e8:
        errs.append(str(e8))
    path = os.path.join(core.COQ, "gen", "Gen_run.v")
    os.makedirs(os.path.dirname(path), exist_ok=True)
    err = None
    try:
        text = py2coq_run.emit(core.REPO)
    except py2coq_run.Reject as ex:
        err = "translation rejected: %s" % ex
    except Exception:
        err = "translator exception: " + traceback.format_exc()[-1500:]
    if err is not None:
        text = "(* GENERATED: translation of the run loops FAILED -- %s *)\nDefinition translation_failed : True := 0.\n" % (
            err.replace("*)", "* )").replace("(*", "( *"))
        errs.append("unit run (Node.run): %s" % err)
    old = open(path).read() if os.path.exists(path) else None
    if old != text:               # keep the mtime (and the compiled cone) when nothing changed
        with open(path, "w") as f:
            f.write(text)
    # independent unit: Model._call (model.py) -> coq/gen/Gen_mcall.v (translator vlib/py2coq_mcall.py, vocabulary base/PyColl*.v + MCallPrelude.v).
    # proofs/Gen_mcall_eq.v instantiates its `self._forward` with the generated forward pass of coq/gen/Gen_dispatch.v, so that file is
    # re-translated here too (the C02 pregen; both writers produce the same text from the same tree) and proves the method equal to
    # ModelSem.step / the one-step run_op.  Each writer leaves its own stub on rejection; the Node.run unit above does not depend on it.
    try:
        from vlib import py2coq_dispatch, py2coq_mcall
        for unit in (py2coq_dispatch, py2coq_mcall):
            e = unit.pregen()
            if e:
                errs.append(str(e))
    except Exception:
        errs.append("unit mcall (Model._call): pregen exception: " + traceback.format_exc()[-800:])
    # independent unit: Model._run (model.py) -> coq/gen/Gen_mrun.v (translator vlib/py2coq_mrun.py, vocabulary base/CtxPrelude.v + MCallPrelude.v +
    # MRunPrelude.v).  proofs/Gen_mrun_eq.v reads its callees in the hand model as Part C of proofs/Gen_mcall_eq.v does and proves the loop equal
    # to run_op on the sequence.  The writer leaves its own stub on rejection; the units above do not depend on it.
    try:
        from vlib import py2coq_mrun
        e = py2coq_mrun.pregen()
        if e:
            errs.append(str(e))
    except Exception:
        errs.append("unit mrun (Model._run): pregen exception: " + traceback.format_exc()[-800:])
    # independent unit: Model.run (model.py, the loop over the sequences) -> coq/gen/Gen_mrun2.v (translator vlib/py2coq_mrun2.py).
    # proofs/Gen_mrun2_eq.v instantiates its `_run` with the generated Model._run of Gen_mrun.v (the unit above, re-translated there) and proves
    # the loop equal to the fold of run_op over the sequences.  The writer leaves its own stub on rejection; the units above do not depend on it.
    try:
        from vlib import py2coq_mrun2
        e = py2coq_mrun2.pregen()
        if e:
            errs.append(str(e))
    except Exception:
        errs.append("unit mrun2 (Model.run): pregen exception: " + traceback.format_exc()[-800:])
    return None if not errs else "; ".join(errs)
