"""C15 — echo-state contraction and boundedness of reservoir dynamics.

correspondence: pairs of trajectories of a real `Reservoir` (exact activations) from two start states; Coq (run/RunC01.v chk_pair)
  checks at Q that the C01 model reproduces both, that sigma is a certified bound of the operator norm (sigma^2 >= Frobenius^2)
  and that the contraction inequality / the box invariant hold on the model's own numbers at every step.
oracle: real reservoirs with W rescaled by numpy's SVD to sigma in {0.3, 0.9, 0.99}, tanh / relu / identity, random start states,
  inputs up to 1e6: distance inequality at every step, |state| <= 1 for tanh.
"""
import math
from fractions import Fraction

import numpy as np

from vlib import core
from vlib.core import q, qmat, qvec, coqbool
from props import c01
from props.c01 import EXACT, exact_fn, farr, fvec, fr, jsonable, uname, rpy

IMPORTS = c01.IMPORTS
TRUSTED = [
    "numpy.linalg.svd (oracle only): the largest singular value used to rescale W; the Coq-side runs use the exactly computed Frobenius norm instead",
    "the theorems are about model/Reservoir.v, tied to reservoirpy by C01's correspondence and by the trajectory pairs of this check",
]
ASSUMPTIONS = [
    "noise gains 0, scalar leak rate in (0,1], element-wise 1-Lipschitz activation (the property's premises)",
    "oracle slack: 1e-12 + 1e-14 * units * (|W|.|r| + |Win|.|u| + |bias|)_max, the float64 rounding of the pre-activation sum "
    "(with inputs of 1e6 the two trajectories round the common term Win.u differently)",
]


def sigma_bound(W):
    """dyadic sigma with sigma^2 >= squared Frobenius norm (exact)"""
    f2 = sum(fr(v) ** 2 for row in W for v in row)
    s = Fraction(math.isqrt(int(f2 * 4 ** 10)) + 1, 2 ** 10)
    assert s * s >= f2
    return s


def gen_pair(rng, big=False):
    n = rng.randint(1, 5 if big else 4)
    d = rng.randint(1, 2)
    T = rng.randint(2, 8)
    den = rng.choice([8, 16, 32])
    W = [[Fraction(rng.randint(-4, 4), den) for _ in range(n)] for _ in range(n)]
    act = rng.choice(["id", "relu", "hard", "hard"])
    box = act == "hard"
    lim = 1 if box else 4

    def st():
        return [Fraction(rng.randint(-4 * lim, 4 * lim), 4) for _ in range(n)]
    # lr0: the node is built and warmed up with another leak rate, then `node.lr = lr` is assigned before the two checked runs
    lr0 = Fraction(rng.randint(1, 8), 8) if rng.random() < 0.4 else None
    return {"kind": "pair", "routes": [rng.choice(ROUTES), rng.choice(ROUTES)], "lr0": lr0, "warm": c01.rrows(rng, rng.randint(1, 3), d, lim=4) if lr0 is not None else None,
            "units": n, "in_dim": d, "W": W, "Win": c01.rmat(rng, n, d, den=4, lim=8),
            "bias": [Fraction(rng.randint(-8, 8), 4) for _ in range(n)], "lr": Fraction(rng.randint(1, 8), 8),
            "act": act, "box": box, "ra": st(), "rb": st(), "X": c01.rrows(rng, T, d, lim=16 if box else 8)}


def run_pair(c, named=None):
    rpy()
    from reservoirpy.nodes import Reservoir
    n, d = c["units"], c["in_dim"]
    act = named if named else exact_fn(c["act"])
    lr0 = c.get("lr0")
    node = Reservoir(W=farr(c["W"], n), Win=farr(c["Win"], d), bias=fvec(c["bias"]).reshape(-1, 1),
                     lr=float(fr(c["lr"] if lr0 is None else lr0)),
                     activation=act, noise_rc=0.0, noise_in=0.0, noise_fb=0.0, name=uname("esp"))
    if lr0 is not None:
        node.run(farr(c["warm"], d))
        node.lr = float(fr(c["lr"]))       # attribute assignment on the initialised node
    X = farr(c["X"], d)
    routes = c.get("routes") or ["from_state", "from_state"]
    if not node.is_initialized:
        node.initialize(X[:1])
    outs = []
    for start, route in zip((c["ra"], c["rb"]), routes):
        # leave a non-zero, unrelated state behind so that a route that ignores the given start state is visible
        node.run(X[:1] + 1.0)
        outs.append(start_and_run(node, fvec(start).reshape(1, -1), X, route))
    return {"oa": outs[0].tolist(), "ob": outs[1].tolist()}


ROUTES = ["from_state", "from_state+reset", "resume", "reset_to_state", "with_state", "with_state+reset", "call", "call+reset",
          "model_call+reset", "model_call"]


def start_and_run(node, a, X, route):
    """Give the node the initial state [a] through one of the public routes, then run X.  Returns the (T, units) trajectory."""
    from reservoirpy.nodes import Input
    if route == "from_state":
        return node.run(X, from_state=a)
    if route == "from_state+reset":            # 'start from a' given together with reset=True: the explicit state wins
        return node.run(X, from_state=a, reset=True)
    if route == "resume":
        # two chunks, the second resumed from the LAST ROW of the first result, handed over as it is (a view into that array)
        k = max(1, len(X) // 2)
        S1 = node.run(X[:k], from_state=a)
        if k >= len(X):
            return S1
        S2 = node.run(X[k:], from_state=S1[-1])
        return np.vstack([S1, S2])
    if route == "reset_to_state":
        node.reset(to_state=a)
        return node.run(X)
    if route in ("with_state", "with_state+reset"):
        with node.with_state(a, stateful=False, reset=route.endswith("+reset")):
            return node.run(X)
    if route in ("call", "call+reset"):
        rows = [node.call(X[:1], from_state=a, reset=route.endswith("+reset"))]
        rows += [node.call(X[t:t + 1]) for t in range(1, len(X))]
        return np.vstack(rows)
    if route in ("model_call", "model_call+reset"):
        model = Input(name=uname("src")) >> node
        rows = [model.call(X[:1], from_state={node.name: a}, reset=route.endswith("+reset"))]
        rows += [model.call(X[t:t + 1]) for t in range(1, len(X))]
        return np.vstack(rows)
    raise ValueError(route)


def pair_to_coq(c, o):
    return "chk_pair %s %s %s %s %s %s %s %s %s %s %s %s" % (
        qmat(c["W"]), qmat(c["Win"]), qvec(c["bias"]), q(c["lr"]), q(sigma_bound(c["W"])), EXACT[c["act"]], coqbool(c["box"]),
        qvec(c["ra"]), qvec(c["rb"]), qmat(c["X"]), qmat(o["oa"]), qmat(o["ob"]))


def pregen(ctx):
    """tie (T): re-translate nodes/reservoirs/base.py + utils/random.py (noise) of the tree under test into coq/gen/Gen_reservoir.v"""
    from vlib import gen
    return gen.pregen_units(["reservoir"])


def correspondence(ctx):
    rng = ctx.rng("corr")
    cases = [gen_pair(rng, ctx.thorough) for _ in range(ctx.n(80, 800))]
    terms, keep, dist, nt = [], [], {}, set()
    for c in cases:
        try:
            o = run_pair(c)
        except Exception as e:
            terms.append("false")
            keep.append({"scenario": jsonable(c), "impl_error": repr(e)})
            continue
        terms.append(pair_to_coq(c, o))
        keep.append({"scenario": jsonable(c), "observed": o})
        sg = sigma_bound(c["W"])
        rho = (1 - fr(c["lr"])) + fr(c["lr"]) * sg
        key = "act:%s rho%s1%s" % (c["act"], "<" if rho < 1 else ">=", " lr-reassigned" if c["lr0"] is not None else "")
        dist[key] = dist.get(key, 0) + 1
        for r in c["routes"]:
            dist["route:" + r] = dist.get("route:" + r, 0) + 1
        d0 = np.linalg.norm(fvec(c["ra"]) - fvec(c["rb"]))
        dT = np.linalg.norm(np.array(o["oa"][-1]) - np.array(o["ob"][-1]))
        if rho < 1 and d0 > 0 and 0 < dT < d0:
            nt.add(repr(jsonable(c)))
    failing, err = core.run_cases(ctx.pid, IMPORTS, terms, chunk=40)
    return {"evaluations": len(terms), "distinct_nontrivial": len(nt),
            "rule": "pairs of runs of one real Reservoir (40% of them built and warmed up with another lr, then `node.lr = lr` assigned; units 1-5, identity/relu/hard-tanh callables, scalar lr in (0,1], dyadic W) from two "
                    "from_state start states on the same input, each start state injected through a random public route (from_state=, from_state= with reset=True, reset(to_state=), with_state context with/without reset, step-wise Node.call, Model.call with a from_state mapping with/without reset) after an unrelated run left another state behind; Coq checks model == observed for both, sigma^2 >= Frobenius^2(W), and "
                    "dist^2[t] <= ((1-lr)+lr*sigma)^2 dist^2[t-1] for every t (plus the [-1,1] box for hard-tanh) on the model's numbers; "
                    "non-trivial = factor < 1, distinct start states, final distance strictly between 0 and the initial one",
            "samples": keep[:3], "distribution": dist, "tolerance": "1e-9 relative (qclose); inequalities exact in Q",
            "failing": [dict(keep[i], index=i) for i in failing], "error": err}


# ------------------------------------------------------------------------------------------ oracle on the implementation
def _viol(key, what, c, expected=None, observed=None):
    return {"key": key, "what": what, "scenario": jsonable(c), "expected": jsonable(expected), "observed": jsonable(observed)}


def gen_float(rng, T):
    g = np.random.default_rng(rng.randint(0, 2 ** 31))
    n, d = rng.randint(1, 30), rng.randint(1, 4)
    W = g.normal(size=(n, n)) * (g.random((n, n)) < rng.choice([1.0, 0.5, 0.2]))
    if not np.any(W):
        W = np.eye(n)
    sigma = rng.choice([0.3, 0.9, 0.99])
    W = W * (sigma / np.linalg.svd(W, compute_uv=False)[0])
    act = rng.choice(["tanh", "tanh", "relu", "identity"])
    scale = rng.choice([1.0, 1e3, 1e6])
    st = 1.0 if act == "tanh" else rng.choice([1.0, 100.0])
    ra = g.uniform(-1, 1, n) * st
    rb = g.uniform(-1, 1, n) * st
    lr0, warm = None, None
    probe = rng.random()
    if probe < 0.4:
        lr0, warm = float(rng.choice([0.1, 0.5, 0.9, 1.0])), g.normal(size=(rng.randint(1, 20), d)).tolist()
    return {"kind": "float", "routes": [rng.choice(ROUTES), rng.choice(ROUTES)], "lr0": lr0, "warm": warm, "units": n, "in_dim": d, "W": W.tolist(), "sigma": sigma, "Win": g.normal(size=(n, d)).tolist(),
            "bias": g.normal(size=n).tolist(), "lr": float(rng.choice([1.0, 0.5, 0.1, 0.01, g.uniform(0.01, 1.0)])),
            "act": act, "ra": ra.tolist(), "rb": rb.tolist(), "X": (g.normal(size=(T, d)) * scale).tolist()}


def gen_relr(rng, T):
    """the lead's probe: a tanh reservoir first run with lr=0.1, then `node.lr = 0.9`, then huge inputs from states inside the box"""
    c = gen_float(rng, T)
    g = np.random.default_rng(rng.randint(0, 2 ** 31))
    n, d = c["units"], c["in_dim"]
    c.update({"act": "tanh", "lr0": 0.1, "lr": 0.9, "warm": g.normal(size=(20, d)).tolist(),
              "ra": g.uniform(-1, 1, n).tolist(), "rb": g.uniform(-1, 1, n).tolist(),
              "X": (g.normal(size=(T, d)) * 10.0 ** g.integers(-2, 7, size=(T, 1))).tolist()})
    return c


def _judge(c):
    """C15 quantifies over any two initial states, however they are given to the node.  A violation that disappears when both
    start states are given by plain from_state= is attributed to the route."""
    v = _judge0(c)
    routes = c.get("routes") or []
    if v is None or all(r == "from_state" for r in routes):
        return v
    if _judge0(dict(c, routes=["from_state", "from_state"])) is not None:
        return v
    for i, r in enumerate(routes):
        rr = ["from_state", "from_state"]
        rr[i] = r
        if r != "from_state" and _judge0(dict(c, routes=rr)) is not None:
            return _viol("initial-state-route:%s" % r, "the initial state given through route '%s' is not the state the trajectory starts from -- %s" % (r, v["what"]),
                         c, v.get("expected"), v.get("observed"))
    return v


def _judge0(c):
    if c.get("kind") == "pair":
        named = None
        sigma = float(np.linalg.svd(farr(c["W"], c["units"]), compute_uv=False)[0]) if np.any(farr(c["W"], c["units"])) else 0.0
        actname = {"id": "identity", "relu": "relu", "hard": "hardtanh"}[c["act"]]
    else:
        named, sigma, actname = c["act"], float(c["sigma"]), c["act"]
    try:
        o = run_pair(c, named)
    except Exception as e:
        return _viol("exception", "valid reservoir scenario raises %r" % (e,), c)
    n = c["units"]
    lr = float(fr(c["lr"]))
    rho = (1 - lr) + lr * sigma
    W, Win, b = np.abs(farr(c["W"], n)), np.abs(farr(c["Win"], c["in_dim"])), np.abs(fvec(c["bias"]))
    X = farr(c["X"], c["in_dim"])
    pa, pb = fvec(c["ra"]), fvec(c["rb"])
    box = actname in ("tanh", "hardtanh") and max(np.max(np.abs(pa)), np.max(np.abs(pb))) <= 1
    for t in range(len(X)):
        a, bb = np.array(o["oa"][t]), np.array(o["ob"][t])
        mag = np.max(W @ np.maximum(np.abs(pa), np.abs(pb)) + Win @ np.abs(X[t]) + b)
        slack = 1e-12 + 1e-14 * n * max(mag, np.max(np.abs(pa)), np.max(np.abs(pb)))
        d0, d1 = np.linalg.norm(pa - pb), np.linalg.norm(a - bb)
        if not d1 <= rho * d0 + slack:
            return _viol("contraction:%s%s" % (actname, ":after-lr-reassignment" if c.get("lr0") is not None else ""),
                         "step %d: |x1-x2| = %.17g > ((1-lr)+lr*sigma) * previous distance = %.17g (sigma=%.3g, lr=%.3g)" % (t, d1, rho * d0, sigma, lr),
                         c, rho * d0, d1)
        if box and max(np.max(np.abs(a)), np.max(np.abs(bb))) > 1 + 1e-12:
            return _viol("bounded:%s%s" % (actname, ":after-lr-reassignment" if c.get("lr0") is not None else ""), "step %d: a state component left [-1,1]" % t, c, 1.0,
                         float(max(np.max(np.abs(a)), np.max(np.abs(bb)))))
        pa, pb = a, bb
    return None


def judge(case):
    return _judge(case["scenario"])


def oracle(ctx, scale=1):
    rng = ctx.rng("oracle")
    T = ctx.n(50, 200)
    cases = ([gen_float(rng, T) for _ in range(ctx.n(60, 600) * scale)] + [gen_relr(rng, T) for _ in range(ctx.n(15, 100) * scale)]
             + [gen_pair(rng, True) for _ in range(ctx.n(40, 200) * scale)])
    out = []
    for c in cases:
        v = _judge(c)
        if v:
            out.append(v)
    return {"evaluations": len(cases), "violations": out,
            "rule": "real Reservoir, W rescaled by numpy SVD to sigma in {0.3,0.9,0.99} (units <= 30), tanh/relu/identity, lr in (0,1], inputs x{1,1e3,1e6}, 40% with lr reassigned on the initialised node after a first run + dedicated lr 0.1->0.9 tanh probes with inputs up to 1e6: "
                    "|x1[t]-x2[t]| <= ((1-lr)+lr*sigma)|x1[t-1]-x2[t-1]| + slack at every step; max|state| <= 1 + 1e-12 for tanh from inside the box"}


def replay(payload):
    v = _judge(payload["scenario"])
    return {"violates": bool(v), "detail": v}
