"""C08 — stateful=False, state contexts, reset and from_state mean what they say."""
import copy

import numpy as np

from vlib import core, scen, scengen

IMPORTS = scen.IMPORTS
TRUSTED = ["hidden memory (Reservoir equation='external' internal_state, NVAR store, Delay buffer) is modelled as a separate field that "
           "reset / with_state / stateful=False do not touch, mirroring the code (open known findings hidden-memory:*)",
           "FunctionalExtensionality.functional_extensionality_dep (standard library) is used by C08_stateless_repeatable to identify "
           "point-wise equal environments"]
ASSUMPTIONS = ["the failing node of a scenario raises at its k-th call and does not count the failed call, so a failed operation can be repeated"]
HIDDEN = {"resext": "reservoir-external", "delay": "delay", "nvar": "nvar"}


def gen_scenario(rng, i, with_boom=None):
    with_boom = rng.random() < 0.3 if with_boom is None else with_boom
    esn_models = None
    fbsc = None
    if rng.random() < 0.18 and not with_boom:
        # a model with a feedback connection (families of C05): reset / from_state / stateful=False must also govern what the
        # receiver is handed at the first step of the operation
        from props import c05
        fbsc = c05.gen_scenario(rng, i, rng.choice(["down", "up", "sub-up", "sub-down"]))
        nodes, din = fbsc["nodes"], fbsc["dim"]
        edges, entries = None, None
    elif rng.random() < 0.15 and not with_boom:
        nodes, esn_models, din = scengen.gen_esn(rng)
        edges, entries = [[0, 1]], [0]
    elif rng.random() < 0.35:
        # a stand-alone node (Node.call / Node.run themselves); with_boom: its forward function raises at its k-th call
        kind = "boom" if with_boom else rng.choice(["fun", "acc", "res", "resext", "delay", "nvar", "lin"])
        din = rng.randint(1, 2)
        nodes = [scengen.make_node(rng, 0, kind, din)]
        edges, entries = [], [0]
    else:
        nodes, edges, entries, din = scengen.gen_dag(rng, n=rng.randint(2, 4))
        if with_boom:
            j = rng.randrange(len(nodes))
            par = [a for a, c in edges if c == j]
            idim = din if not par else sum(nodes[a]["odim"] for a in par)
            if nodes[j]["odim"] == idim or not any(a == j for a, c in edges):
                nodes[j] = scengen.make_node(rng, j, "boom", idim)
            # dims downstream may change: regenerate children consistently
            for c in range(j + 1, len(nodes)):
                pc = [a for a, cc in edges if cc == c]
                if pc:
                    idc = sum(nodes[a]["odim"] for a in pc)
                    if idc != nodes[c]["idim"]:
                        nodes[c] = scengen.make_node(rng, c, "fun", idc)
    sc = {"nodes": nodes, "models": fbsc["models"] if fbsc else (esn_models or scengen.chain_models(nodes, edges)), "ops": [], "entries": entries,
          "din": din, "tag": i, "kinds": sorted(set(nd["kind"] for nd in nodes))}
    if fbsc:
        sc.update(family="fb-" + fbsc["family"], recv=fbsc["recv"], send=fbsc["send"], dim=din)
    odim = {nd["id"]: nd["odim"] for nd in nodes}
    single = len(nodes) == 1
    for _ in range(rng.randint(3, 7)):
        r = rng.random()
        if r < 0.12:
            sc["ops"].append({"op": "reset", "model": 0})
            continue
        o = {"model": 0, "stateful": rng.random() < 0.5, "reset": rng.random() < 0.25}
        if rng.random() < 0.35:
            ids = [0] if single else rng.sample(sorted(odim), rng.randint(1, len(odim)))
            o["from_state"] = {str(j): scengen.rows(rng, 1, odim[j])[0] for j in ids}
        if rng.random() < 0.3:
            o.update(op="call", x=scengen.rows(rng, 1, din)[0])
        elif rng.random() < 0.2 and not with_boom and not single:
            o.update(op="runs", Xs=[scengen.rows(rng, rng.randint(1, 3), din) for _ in range(rng.randint(2, 3))])
        else:
            o.update(op="run", X=scengen.rows(rng, rng.randint(1, 4), din))
        sc["ops"].append(o)
    return sc


def correspondence(ctx):
    rng = ctx.rng("corr")
    n = ctx.n(150, 1500)
    terms, keep, nt, dist = [], [], set(), {}
    for i in range(n):
        sc = gen_scenario(rng, i)
        try:
            b, obs = scen.run_history(sc)
            term = scen.to_coq(sc, b, obs)
        except Exception as e:
            terms.append("false")
            keep.append({"scenario": scen.jsonable(sc), "harness_error": repr(e)})
            continue
        terms.append(term)
        keep.append({"scenario": scen.jsonable(sc), "observed": scen.jsonable(obs)})
        for o, ob in zip(sc["ops"], obs):
            k = "%s stateful=%s reset=%s from=%s ok=%s" % (o["op"], o.get("stateful"), o.get("reset"), bool(o.get("from_state")), ob["ok"])
            dist[k] = dist.get(k, 0) + 1
        if any(not o.get("stateful", True) or o.get("reset") or o.get("from_state") for o in sc["ops"] if o["op"] != "reset"):
            nt.add(repr(scen.jsonable(sc)))
    failing, err = core.run_cases(ctx.pid, IMPORTS, terms, chunk=60)
    return {"evaluations": n, "distinct_nontrivial": len(nt),
            "rule": "histories of 3-7 operations (run / call / reset with every combination of stateful, reset, from_state) on single nodes of every kind and on "
                    "random DAG models, 30% with a node that raises at its k-th call; after every operation the success flag, the outputs and the state of "
                    "every node are compared with the model; non-trivial = some operation uses stateful=False, reset or from_state; distinct by scenario text",
            "samples": keep[:2], "distribution": dist, "tolerance": "1e-9 relative (qclose)",
            "failing": [dict(keep[i], index=i) for i in failing], "error": err}


# ------------------------------------------------------------------------------------------ oracle on the implementation
def _viol(key, what, sc, expected=None, observed=None):
    return {"key": key, "what": what, "scenario": scen.jsonable(sc), "expected": scen.jsonable(expected), "observed": scen.jsonable(observed)}


def _states(b):
    return {i: (None if (not n.is_initialized or n.state() is None) else np.array(n.state(), dtype=float).copy()) for i, n in b.all_nodes().items()}


def _same(a, b):
    return all((a[i] is None and b[i] is None) or (a[i] is not None and b[i] is not None and a[i].shape == b[i].shape and np.array_equal(a[i], b[i])) for i in a)


def _do(m, o, X):
    kw = dict(stateful=o.get("stateful", True), reset=o.get("reset", False))
    if o.get("from_state") is not None:
        kw["from_state"] = o["from_state"]
    try:
        r = m.run(X, **kw) if X.shape[0] > 1 or o.get("as_run") else m.call(X, **kw)
        if isinstance(r, dict):
            r = np.hstack([np.atleast_2d(r[k]) for k in sorted(r)])
        return True, np.atleast_2d(r)
    except Exception as e:  # noqa: BLE001
        return False, type(e).__name__


def _judge(sc):
    base = dict(sc, ops=[])
    hid = [HIDDEN[k] for k in sc["kinds"] if k in HIDDEN]
    rng = core.random.Random(str(sc["tag"]))
    din = sc["din"]
    b = scen.Built(base)
    m = b.models[0]
    is_model = hasattr(m, "nodes")
    warm = scen.fl(scengen.rows(rng, 3, din))
    ok, _ = _do(m, {"as_run": True}, warm)          # initialise and move away from the zero state
    if not ok and "boom" not in sc["kinds"]:
        return _viol("run:exception", "valid scenario raises", sc)
    odim = {nd["id"]: nd["odim"] for nd in sc["nodes"]}

    def fs(ids):
        vals = {j: scen.fl(scengen.rows(rng, 1, odim[j])) for j in ids}
        return ({b.nodes[j].name: v for j, v in vals.items()} if is_model else list(vals.values())[0]), vals

    # (a)+(b) stateless operations: state untouched (also on failure), and repeatable
    for trial in range(4):
        as_run = rng.random() < 0.55               # Node.run / Model.run, or the single-step call path (Node.call / Model.call)
        X = scen.fl(scengen.rows(rng, rng.randint(1, 4) if as_run else 1, din))
        o = {"stateful": False, "reset": rng.random() < 0.3, "as_run": as_run}
        if rng.random() < 0.4:
            o["from_state"], _ = fs([0] if not is_model else rng.sample(sorted(odim), 1))
        before = _states(b)
        # the failing test node counts its successful calls in a closure (harness-side hidden memory): rewind it before the repeat
        counters = {i: dict(n._verif_counter) for i, n in b.nodes.items() if hasattr(n, "_verif_counter")}
        ok1, r1 = _do(m, o, X)
        after = _states(b)
        for i, c in counters.items():
            b.nodes[i]._verif_counter.update(c)
        if not _same(before, after):
            key = "state-not-restored-on-failure" if not ok1 else "stateless:state-changed"
            return _viol(key, "a stateful=False operation (%s) changed the current state of a node" % ("failed" if not ok1 else "completed"), sc,
                         {i: None if v is None else v.tolist() for i, v in before.items()}, {i: None if v is None else v.tolist() for i, v in after.items()})
        if is_model and any(n._state_proxy is not None for n in m.nodes):
            return _viol("state-not-restored-on-failure" if not ok1 else "stateless:stale-proxy", "state proxies are left behind by the operation", sc)
        ok2, r2 = _do(m, o, X)
        if ok1 != ok2 or (ok1 and (r1.shape != r2.shape or not np.array_equal(r1, r2))) or (not ok1 and r1 != r2):
            if hid:
                return _viol("hidden-memory:%s:stateless" % hid[0], "the same stateful=False operation repeated gives a different result (hidden memory of a %s node)" % hid[0],
                             sc, r1.tolist() if ok1 else r1, r2.tolist() if ok2 else r2)
            return _viol("stateless:not-repeatable", "the same stateful=False operation repeated gives a different result", sc,
                         r1.tolist() if ok1 else r1, r2.tolist() if ok2 else r2)
    # (c) reset makes the node behave like a freshly initialised one with the same weights
    if "boom" not in sc["kinds"]:
        fresh = scen.Built(base)
        mf = fresh.models[0]
        X = scen.fl(scengen.rows(rng, 4, din))
        m.reset()
        okr, rr = _do(m, {"as_run": True}, X)
        okf, rf = _do(mf, {"as_run": True}, X)
        if okr != okf or (okr and not np.allclose(rr, rf, rtol=1e-12, atol=1e-12)):
            if hid:
                return _viol("hidden-memory:%s:reset" % hid[0], "after reset() the node does not behave like a fresh node with the same weights (hidden memory of a %s node)" % hid[0],
                             sc, rf.tolist() if okf else rf, rr.tolist() if okr else rr)
            return _viol("reset:not-fresh", "after reset() the node does not behave like a fresh node with the same weights", sc,
                         rf.tolist() if okf else rf, rr.tolist() if okr else rr)
        # reset=True flag on a second, dirty copy
        okr2, rr2 = _do(m, {"reset": True, "as_run": True}, X)
        if okr2 != okf or (okf and not np.allclose(rr2, rf, rtol=1e-12, atol=1e-12)):
            if hid:
                return _viol("hidden-memory:%s:reset" % hid[0], "run(reset=True) differs from a fresh node (hidden memory)", sc)
            return _viol("reset:flag-not-fresh", "run(reset=True) differs from a run on a fresh node", sc, rf.tolist(), rr2.tolist() if okr2 else rr2)
    return None


def _judge_from_state(sc):
    """from_state starts the operation from exactly the given state, for the named nodes (others keep theirs)."""
    if any(k in HIDDEN or k == "boom" for k in sc["kinds"]):
        return None
    base = dict(sc, ops=[])
    rng = core.random.Random("fs" + str(sc["tag"]))
    din = sc["din"]
    A, B = scen.Built(base), scen.Built(base)
    mA, mB = A.models[0], B.models[0]
    is_model = hasattr(mA, "nodes")
    warm = scen.fl(scengen.rows(rng, 3, din))
    _do(mA, {"as_run": True}, warm); _do(mB, {"as_run": True}, warm)
    odim = {nd["id"]: nd["odim"] for nd in sc["nodes"]}
    ids = [0] if not is_model else rng.sample(sorted(odim), rng.randint(1, len(odim)))
    vals = {j: scen.fl(scengen.rows(rng, 1, odim[j])) for j in ids}
    X = scen.fl(scengen.rows(rng, 3, din))
    argA = {A.nodes[j].name: v for j, v in vals.items()} if is_model else list(vals.values())[0]
    okA, rA = _do(mA, {"from_state": argA, "as_run": True}, X)
    for j, v in vals.items():
        B.nodes[j].reset(to_state=v)
    okB, rB = _do(mB, {"as_run": True}, X)
    if okA != okB or (okA and not np.allclose(rA, rB, rtol=1e-12, atol=1e-12)):
        return _viol("from_state:wrong-start", "run(from_state=s) differs from the same run on nodes whose state was set to s", sc,
                     rB.tolist() if okB else rB, rA.tolist() if okA else rA)
    return None


def _judge_esn(rng, tag):
    """the ESN convenience node obeys the same three rules: run(from_state=...) starts from exactly the given states, stateful=False leaves
    the states untouched and is repeatable, reset=True equals a run from null states"""
    import reservoirpy as rpy
    rpy.verbosity(0)
    from reservoirpy.nodes import ESN
    T, d = 5, 2
    X = scen.fl(scengen.rows(rng, T, d)); Y = scen.fl(scengen.rows(rng, T, 1)); warm = scen.fl(scengen.rows(rng, 3, d))
    W = scen.fl(scengen.mat(rng, 3, 3, 2, 2)); Win = scen.fl(scengen.mat(rng, 3, d, 2, 1)); Wfb = scen.fl(scengen.mat(rng, 3, 1, 2, 1))
    s0 = scen.fl(scengen.rows(rng, 1, 3)); y0 = scen.fl(scengen.rows(rng, 1, 1))
    for fb in (False, True):
        sc = {"tag": tag, "kind": "esn", "fb": fb}
        def mk(t):
            kw = dict(units=3, W=W.copy(), Win=Win.copy(), lr=0.5, seed=5, feedback=fb, ridge=0.5, name="c8esn%s_%s_%d" % (tag, t, fb))
            if fb:
                kw["Wfb"] = Wfb.copy()
            e = ESN(**kw)
            e.fit(X, Y)
            e.run(warm)
            return e
        try:
            a, b, c = mk("a"), mk("b"), mk("c")
            ra = a.run(X, from_state={a.reservoir.name: s0, a.readout.name: y0})
            b.reservoir.reset(to_state=s0); b.readout.reset(to_state=y0)
            rb = b.run(X)
            if not np.allclose(ra, rb, rtol=1e-10, atol=1e-10) or not np.allclose(a.reservoir.state(), b.reservoir.state(), atol=1e-10):
                return _viol("esn:from_state:wrong-start", "ESN(feedback=%s).run(from_state=s) differs from the same run on an ESN whose states were set to s" % fb,
                             sc, np.asarray(rb).tolist(), np.asarray(ra).tolist())
            before = (c.reservoir.state().copy(), c.readout.state().copy())
            r1 = c.run(X, stateful=False); r2 = c.run(X, stateful=False)
            if not np.allclose(c.reservoir.state(), before[0], atol=0) or not np.allclose(c.readout.state(), before[1], atol=0):
                return _viol("esn:stateless:state-changed", "ESN(feedback=%s).run(stateful=False) changed the node states" % fb, sc)
            if not np.allclose(r1, r2, atol=0):
                return _viol("esn:stateless:not-repeatable", "ESN(feedback=%s).run(stateful=False) twice gives different results" % fb, sc)
            r3 = c.run(X, stateful=False, from_state={c.reservoir.name: s0, c.readout.name: y0})
            if not np.allclose(r3, rb, rtol=1e-10, atol=1e-10) or not np.allclose(c.reservoir.state(), before[0], atol=0):
                return _viol("esn:from_state:wrong-start", "ESN(feedback=%s).run(stateful=False, from_state=s) does not start from s or does not restore the states" % fb, sc)
            # from_state together with reset=True: the named nodes start from the given state, the others from null
            r6 = c.run(X, reset=True, from_state={c.reservoir.name: s0})
            b.reservoir.reset(to_state=s0); b.readout.reset()
            r7 = b.run(X)
            if not np.allclose(r6, r7, rtol=1e-10, atol=1e-10):
                return _viol("esn:from_state:ignored-with-reset", "ESN(feedback=%s).run(reset=True, from_state=s) does not start the named node from s" % fb,
                             sc, np.asarray(r7).tolist(), np.asarray(r6).tolist())
            r4 = c.run(X, reset=True)
            b.reservoir.reset(); b.readout.reset()
            r5 = b.run(X)
            if not np.allclose(r4, r5, rtol=1e-10, atol=1e-10):
                return _viol("esn:reset:not-fresh", "ESN(feedback=%s).run(reset=True) differs from a run from null states" % fb, sc)
        except Exception as ex:  # noqa: BLE001
            return _viol("esn:exception", "ESN(feedback=%s) state control raises %r" % (fb, ex), sc)
    return None


def _judge_saved_state(sc):
    """The state a user SAVES (the array state() hands out, kept as it is) and gives back later through from_state, and the
    states a temporary context (with_state) is supposed to restore, must not be altered by what happens in between (reset, runs)."""
    if any(k in HIDDEN or k == "boom" for k in sc["kinds"]):
        return None
    base = dict(sc, ops=[])
    rng = core.random.Random("sv" + str(sc["tag"]))
    din = sc["din"]
    A, B = scen.Built(base), scen.Built(base)
    mA, mB = A.models[0], B.models[0]
    is_model = hasattr(mA, "nodes")
    warm = scen.fl(scengen.rows(rng, 3, din))
    _do(mA, {"as_run": True}, warm); _do(mB, {"as_run": True}, warm)
    ids = sorted(nd["id"] for nd in sc["nodes"])
    saved = {j: A.nodes[j].state() for j in ids if A.nodes[j].is_initialized}          # what the user keeps: no copy
    expect = {j: np.array(B.nodes[j].state(), dtype=float).copy() for j in saved}
    X = scen.fl(scengen.rows(rng, 3, din))
    mA.reset()
    _do(mA, {"as_run": True}, scen.fl(scengen.rows(rng, 2, din)))
    argA = {A.nodes[j].name: v for j, v in saved.items()} if is_model else saved[ids[0]]
    okA, rA = _do(mA, {"from_state": argA, "as_run": True}, X)
    for j, v in expect.items():
        B.nodes[j].reset(to_state=v)
    okB, rB = _do(mB, {"as_run": True}, X)
    if okA != okB or (okA and not np.allclose(rA, rB, rtol=1e-12, atol=1e-12)):
        return _viol("from_state:saved-state-altered", "s = state(); reset(); run; run(from_state=s) differs from the run resumed from the saved values "
                     "(the saved array was modified behind the user's back)", sc, rB.tolist() if okB else rB, rA.tolist() if okA else rA)
    # temporary context: whatever happens inside (reset, runs), the states found at entry are back at exit
    before = _states(A)
    try:
        with mA.with_state():
            mA.reset()
            _do(mA, {"as_run": True}, scen.fl(scengen.rows(rng, 2, din)))
    except Exception as e:  # noqa: BLE001
        return _viol("context:exception", "reset + run inside `with with_state():` raises %r" % (e,), sc)
    after = _states(A)
    if not all((before[i] is None and after[i] is None) or (before[i] is not None and after[i] is not None and np.array_equal(before[i], after[i])) for i in before):
        return _viol("context:state-not-restored", "the states found at the entry of `with with_state():` are not back at its exit (reset + run inside)", sc,
                     {i: None if v is None else v.tolist() for i, v in before.items()}, {i: None if v is None else v.tolist() for i, v in after.items()})
    # a stateful=False operation INSIDE an open temporary context is stateless too: states untouched by it, and repeatable
    Xn = scen.fl(scengen.rows(rng, 2, din))
    try:
        with mA.with_state():
            _do(mA, {"as_run": True}, scen.fl(scengen.rows(rng, 2, din)))
            mid = _states(A)
            ok1, r1 = _do(mA, {"stateful": False, "as_run": True}, Xn)
            mid2 = _states(A)
            ok2, r2 = _do(mA, {"stateful": False, "as_run": True}, Xn)
    except Exception as e:  # noqa: BLE001
        return _viol("context:exception", "a stateless run inside `with with_state():` raises %r" % (e,), sc)
    if not _same(mid, mid2) or ok1 != ok2 or (ok1 and not np.array_equal(r1, r2)):
        return _viol("context:nested-stateless-not-stateless", "a run(stateful=False) issued inside an open `with with_state():` block changed the node states / is not repeatable", sc)
    # a never-run MODEL used inside a temporary context comes out behaving like a never-run model (a single node refuses the context
    # until it is initialised)
    if not is_model:
        return None
    F1, F2 = scen.Built(base), scen.Built(base)
    m1, m2 = F1.models[0], F2.models[0]
    try:
        with m1.with_state():
            _do(m1, {"as_run": True}, scen.fl(scengen.rows(rng, 3, din)))
        okA, ra = _do(m1, {"as_run": True}, Xn)
        okB, rb = _do(m2, {"as_run": True}, Xn)
    except Exception as e:  # noqa: BLE001
        return _viol("context:exception", "`with with_state():` on a never-run model raises %r" % (e,), sc)
    if okA != okB or (okA and not np.allclose(ra, rb, rtol=1e-12, atol=1e-12)):
        return _viol("context:fresh-model-not-restored", "a never-run model that was run inside `with with_state():` does not behave like a never-run model afterwards", sc,
                     rb.tolist() if okB else rb, ra.tolist() if okA else ra)
    return None


def _judge_first_use(rng, tag):
    """a node that has already been run, wrapped in a NEW model whose very first operation is stateful=False: the node must come out
    of that operation with the state it had"""
    import reservoirpy as rpy
    rpy.verbosity(0)
    from reservoirpy.nodes import Reservoir, Tanh
    W = scen.fl(scengen.mat(rng, 3, 3, 2, 2)); Win = scen.fl(scengen.mat(rng, 3, 1, 2, 1))
    X = scen.fl(scengen.rows(rng, 5, 1))
    sc = {"tag": tag, "kind": "first-use"}
    try:
        res = Reservoir(3, W=W, Win=Win, lr=0.5, input_bias=False, activation=scen.ACTS["id"], name="fu%s_res" % tag)
        res.run(X[:4])
        before = np.array(res.state(), dtype=float).copy()
        m = res >> Tanh(name="fu%s_t" % tag)
        m.run(X[4:], stateful=False)
        after = np.array(res.state(), dtype=float)
    except Exception as ex:  # noqa: BLE001
        return _viol("first-use:exception", "wrapping a used node in a new model and running it stateless raises %r" % (ex,), sc)
    if not np.array_equal(before, after):
        return _viol("model-first-use:initialize-resets-used-nodes:stateless", "the first operation of a new model, run(stateful=False), changed the state of a node "
                     "that had been run before it was linked (Model.initialize resets every node before the state snapshot is taken)", sc,
                     before.tolist(), after.tolist())
    return None


def _judge_train_stateless(rng, tag):
    """TRAINING operations under the state arguments: Node.train on a stand-alone online learner (RLS / LMS) with stateful=False and every
    combination of call, reset, from_state, and Model.train(stateful=False) on reservoir >> RLS: the state() of every node afterwards is the
    state it had before the call"""
    import reservoirpy as rpy
    rpy.verbosity(0)
    from reservoirpy.nodes import LMS, RLS, Reservoir
    rs = np.random.RandomState(rng.randrange(10 ** 6))
    X, Y = rs.randint(-8, 9, (5, 2)) / 4.0, rs.randint(-8, 9, (5, 1)) / 4.0
    for cls in (RLS, LMS):
        for call in (True, False):
            for reset in (False, True):
                for fs in (False, True):
                    sc = {"kind": "train-stateless", "cls": cls.__name__, "call": call, "reset": reset, "from_state": fs, "tag": tag}
                    try:
                        node = cls(1, name="ts%s%s%d%d%d" % (tag, cls.__name__, call, reset, fs))
                        node.train(X, Y)                       # initialised, with a non-trivial current state
                        before = node.state().copy()
                        node.train(X[:3], Y[:3], call=call, stateful=False, reset=reset, from_state=(np.full((1, 1), 0.75) if fs else None))
                        after = node.state()
                    except Exception as e:  # noqa: BLE001
                        return _viol("train:stateless:exception", "%s.train(call=%s, stateful=False, reset=%s, from_state=%s) raises %r"
                                     % (cls.__name__, call, reset, fs, e), sc)
                    if np.shape(after) != np.shape(before) or not np.array_equal(after, before):
                        return _viol("train:stateless:state-not-restored", "%s.train(X, Y, call=%s, stateful=False, reset=%s%s) leaves state() = %s, it was %s before"
                                     % (cls.__name__, call, reset, ", from_state=s" if fs else "", np.asarray(after).tolist(), before.tolist()), sc,
                                     before.tolist(), np.asarray(after).tolist())
    sc = {"kind": "train-stateless", "cls": "model", "tag": tag}
    try:
        res = Reservoir(3, seed=2, rc_connectivity=1.0, input_connectivity=1.0, name="ts%s_r" % tag)
        rd = RLS(1, name="ts%s_o" % tag)
        m = res >> rd
        m.train(X, Y)
        before = (res.state().copy(), rd.state().copy())
        for kw in ({"stateful": False}, {"stateful": False, "reset": True}, {"stateful": False, "from_state": {res.name: np.full((1, 3), 0.5)}}):
            m.train(X[:3], Y[:3], **kw)
            if not (np.array_equal(res.state(), before[0]) and np.array_equal(rd.state(), before[1])):
                return _viol("train:stateless:state-not-restored", "Model.train(%s) on reservoir >> RLS does not leave every node's state as it was"
                             % ", ".join("%s=%s" % (k, "..." if k == "from_state" else v) for k, v in kw.items()), sc)
    except Exception as e:  # noqa: BLE001
        return _viol("train:stateless:exception", "Model.train with stateful=False raises %r" % (e,), sc)
    return None



def judge(case):
    sc = case["scenario"]
    return _judge(sc) or _judge_from_state(sc) or _judge_saved_state(sc)


def oracle(ctx, scale=1):
    rng = ctx.rng("oracle")
    n = ctx.n(80, 800) * scale
    out = []
    for i in range(n):
        sc = gen_scenario(rng, "o%d" % i, with_boom=(i % 3 == 0))
        v = _judge(sc) or _judge_from_state(sc) or _judge_saved_state(sc)
        if v:
            out.append(v)
    for i in range(ctx.n(3, 20)):
        v = _judge_esn(rng, "%d_%d" % (ctx.seed, i))
        if v:
            out.append(v)
    v = _judge_first_use(rng, "%d" % ctx.seed)
    if v:
        out.append(v)
    v = _judge_train_stateless(rng, "%d" % ctx.seed)
    if v:
        out.append(v)
    return {"evaluations": n + ctx.n(3, 20) + 19, "violations": out,
            "rule": "on the real objects: stateless operations leave state() of every node unchanged (also when a node raises) and are repeatable; "
                    "reset()/reset=True equals a fresh copy; from_state equals setting the state first; Node.train / Model.train with stateful=False (call, reset, from_state in every combination) restore every state"}


def replay(payload):
    sc = payload["scenario"]
    if sc.get("kind") == "esn":
        vs = [v for v in (_judge_esn(core.random.Random(i), "rp%d" % i) for i in range(4)) if v]
        return {"violates": bool(vs), "detail": vs[:1]}
    if sc.get("kind") == "train-stateless":
        v = _judge_train_stateless(core.random.Random(0), "rpt")
        return {"violates": bool(v), "detail": v}
    if sc.get("kind") == "first-use":
        v = _judge_first_use(core.random.Random(0), "rpf")
        return {"violates": bool(v), "detail": v}
    v = _judge(sc) or _judge_from_state(sc) or _judge_saved_state(sc)
    return {"violates": bool(v), "detail": v}


def pregen(ctx):
    """tie (T): re-translate Node.zero_state / state / reset / _flag_feedback / with_state (node.py), call (_base.py) and Model.reset /
    Model.with_state (model.py) of the tree under test into coq/gen/Gen_state.v (translator vlib/py2coq_state.py, vocabulary
    coq/base/CtxPrelude.v); proofs/Gen_state_eq.v then proves them equal to the state contexts of model/ModelSem.v.  Returns None or the
    error text; on rejection a stub that does not compile replaces the file (never a stale model)."""
    import os
    import traceback
    from vlib import py2coq_state
    path = os.path.join(core.COQ, "gen", "Gen_state.v")
    os.makedirs(os.path.dirname(path), exist_ok=True)
    err = None
    try:
        text = py2coq_state.emit(core.REPO)
    except py2coq_state.Reject as ex:
        err = "translation rejected: %s" % ex
    except Exception:
        err = "translator exception: " + traceback.format_exc()[-1500:]
    if err is not None:
        text = "(* GENERATED: translation of the state machinery FAILED -- %s *)\nDefinition translation_failed : True := 0.\n" % (
            err.replace("*)", "* )").replace("(*", "( *"))
    old = open(path).read() if os.path.exists(path) else None
    if old != text:               # keep the mtime (and the compiled cone) when nothing changed
        with open(path, "w") as f:
            f.write(text)
    return None if err is None else "unit state (Node.with_state / reset / zero_state / state, _base.call, Model.with_state / reset): %s" % err
