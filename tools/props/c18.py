"""C18 — activation functions (reservoirpy/activationsfunc.py, reservoirpy/nodes/activations.py).

Tie to the source: *translator* (tools/vlib/py2coq_act.py).  `pregen` re-translates the current source text into
coq/gen/Gen_activations.v; the theorems of coq/props/C18.v are about those generated definitions.
`correspondence` reports that translation and, as a second backend of the same translator IR, evaluates the translated
definitions with 400-digit `decimal` arithmetic and compares them with the real functions.
`oracle` decides the property directly on the real code against hand-written 60-digit reference formulas
(independent of the translator) on a grid that covers the float range, plus softmax algebra, shapes and the nodes.
"""
import decimal
import json
import math
import os
from decimal import Decimal
from fractions import Fraction

import numpy as np

from vlib import core
from vlib import py2coq_act as tr

TRUSTED = [
    "translator tools/vlib/py2coq_act.py (Python ast -> Gallina, fail-closed): the tie between activationsfunc.py and the theorems",
    "Coq Reals library (exp, ln, sinh/cosh/tanh, Rmax, Rabs) as the meaning of np.exp, np.log/log1p, np.tanh, np.maximum, np.abs",
    "np.vectorize applies the scalar function to every element (modelled as map); np.max/.sum() without axis reduce over "
    "the whole array (lmax/lsum on the flattened array)",
    "python decimal (libmpdec) exp/ln at 60 and 400 digits as the reference for the float checks",
]
ASSUMPTIONS = [
    "theorems are over the real numbers: rounding (a few ulp), subnormals and signed zeros are decided by the oracle on the real code only",
    "inputs are finite float64 arrays, beta > 0 (theorems on exp arguments/divisors need beta >= 0)",
]

ELEMENTWISE = ["sigmoid", "tanh", "softplus", "relu", "identity"]
ULPS = 4
EMPTY_ARRAYS_IN_SCOPE = True    # "arrays of any shape" includes shapes with a zero dimension (see judge_empty)
GEN = os.path.join(core.COQ, "gen", "Gen_activations.v")
GEN_EXPECTED = os.path.join(core.COQ, "gen_expected", "Gen_activations.v")
SRC = os.path.join(core.REPO, "reservoirpy", "activationsfunc.py")

_uid = [0]


def uname(prefix):
    _uid[0] += 1
    return "c18_%s_%d" % (prefix, _uid[0])


def rpy():
    import reservoirpy
    reservoirpy.verbosity(0)
    return reservoirpy


def actmod():
    rpy()
    from reservoirpy import activationsfunc
    return activationsfunc


# ------------------------------------------------------------------------------------------ translator tie
_translation = {}


def translation():
    if "res" not in _translation:
        _translation["res"] = tr.translate_file(SRC)
    return _translation["res"]


def pregen(ctx):
    text, mod, err = translation()
    os.makedirs(os.path.dirname(GEN), exist_ok=True)
    if err:
        # no model of the current source exists: never leave a stale one behind (the stub does not compile on purpose)
        stub = "(* GENERATED: translation of %s FAILED -- %s *)\nDefinition translation_failed : True := 0.\n" % (
            SRC, err.replace("*)", "* )").replace("(*", "( *"))
        if not os.path.exists(GEN) or open(GEN).read() != stub:
            with open(GEN, "w") as f:
                f.write(stub)
        return "%s: %s" % (SRC, err)
    old = open(GEN).read() if os.path.exists(GEN) else None
    if old != text:          # keep the mtime (and the compiled cone) when nothing changed
        with open(GEN, "w") as f:
            f.write(text)
    return None


def gen_diff():
    """Unified diff between the definitions generated for the reference source and the current ones (for messages)."""
    import difflib
    text, _, err = translation()
    if err or not os.path.exists(GEN_EXPECTED):
        return ""
    exp = open(GEN_EXPECTED).read()
    if exp == text:
        return ""
    return "".join(list(difflib.unified_diff(exp.splitlines(True), text.splitlines(True), "gen_expected", "generated", n=1))[:60])


# ------------------------------------------------------------------------------------------ reference (60 digits)
def _ctx(prec):
    c = decimal.Context(prec=prec, Emax=decimal.MAX_EMAX, Emin=decimal.MIN_EMIN)
    c.traps[decimal.Overflow] = False
    c.traps[decimal.Underflow] = False
    c.traps[decimal.Inexact] = False
    c.traps[decimal.InvalidOperation] = False      # inf/inf in a (pre-fix style) formula gives NaN, reported as a disagreement
    c.traps[decimal.DivisionByZero] = False
    return c


def dexp(a):
    if a < -5000000:
        return Decimal(0)
    if a > 5000000:
        raise OverflowError("reference exp argument %s" % a)
    return a.exp()


def dlog1p(z):
    if abs(z) < Decimal("1e-25"):
        return z - z * z / 2 + z * z * z / 3
    return (1 + z).ln()


def ref_scalar(func, xf):
    """Mathematical value of func at the float xf, as a Decimal good to >= 30 significant digits (context prec 60)."""
    x = Decimal(xf)
    if func == "identity":
        return x
    if func == "relu":
        return x if x > 0 else Decimal(0)
    if func == "sigmoid":
        return 1 / (1 + dexp(-x)) if x > -5000000 else Decimal(0)
    if func == "softplus":
        return x + dlog1p(dexp(-x)) if x >= 0 else dlog1p(dexp(x))
    if func == "tanh":
        if abs(x) < Decimal("1e-10"):
            return x - x ** 3 / 3 + 2 * x ** 5 / 15
        if abs(x) > 400:
            return Decimal(1) if x > 0 else Decimal(-1)
        p = dexp(2 * x)
        return (p - 1) / (p + 1)
    raise ValueError(func)


def ref_softmax(xs, beta):
    d = [Decimal(v) for v in xs]
    b = Decimal(beta)
    m = max(d)
    e = [dexp(b * (v - m)) for v in d]
    s = sum(e, Decimal(0))
    return [v / s for v in e]


def ulp_of(ref):
    f = abs(float(ref))
    if f == float("inf"):
        f = 1.7976931348623157e308
    return Decimal(math.ulp(f))


def close_ulps(obs, ref, ulps=ULPS):
    """|obs - ref| <= ulps * ulp(ref), decided exactly in Decimal; obs must be finite"""
    if not math.isfinite(obs):
        return False
    return abs(Decimal(obs) - ref) <= ulps * ulp_of(ref)


def ulp_err(obs, ref):
    return float(abs(Decimal(obs) - ref) / ulp_of(ref))


# ------------------------------------------------------------------------------------------ scenarios
SPECIAL = [0.0, -0.0, 5e-324, -5e-324, 1e-320, 2.2250738585072014e-308, -2.2250738585072014e-308, 1e-300, -1e-300,
           1e-100, 1e-30, -1e-30, 1e-17, -1e-17, 1e-16, -1e-16, 1e-8, -1e-8, 1e-4, -1e-4, 0.5, -0.5, 1.0, -1.0, 2.0, -2.0,
           18.0, -18.0, 19.1, -19.1, 22.0, 36.0, -36.0, 36.7, -36.7, 37.0, -37.0, 38.0, -38.0, 40.0, -40.0, 100.0, -100.0,
           354.9, -354.9, 700.0, -700.0, 708.3964185322641, -708.3964185322641, 709.0, -709.0, 709.78, -709.78,
           709.782712893384, -709.782712893384, 709.79, -709.79, 710.0, -710.0, 744.0, -744.0, 745.0, -745.0,
           745.1332191019412, -745.1332191019412, 745.2, -745.2, 746.0, -746.0, 1000.0, -1000.0, 1e5, -1e5, 1e10, -1e10,
           1e100, -1e100, 1e300, -1e300, 1e308, -1e308, 1.7976931348623157e308, -1.7976931348623157e308]
BETAS = [1e-3, 1e-2, 0.1, 0.5, 1.0, 2.0, 10.0, 100.0, 1e3]


def rand_value(rng):
    k = rng.random()
    if k < 0.35:
        return rng.uniform(-50, 50)
    if k < 0.5:
        return rng.choice([-1, 1]) * rng.uniform(700, 750)
    if k < 0.6:
        return rng.choice([-1, 1]) * rng.uniform(30, 45)
    if k < 0.85:
        return rng.choice([-1, 1]) * 10.0 ** rng.uniform(-323, 308)
    if k < 0.93:
        return float(core.dyadic(rng, 64, 4))
    return rng.choice(SPECIAL)


def rand_shape(rng, size=None):
    nd = rng.choice([0, 1, 1, 2, 2, 3]) if size is None else rng.choice([1, 2, 3])
    if nd == 0:
        return []
    if nd == 1:
        return [rng.randint(1, 40)]
    if nd == 2:
        return [rng.randint(1, 8), rng.randint(1, 8)]
    return [rng.randint(1, 4), rng.randint(1, 4), rng.randint(1, 4)]


def _size(shape):
    n = 1
    for s in shape:
        n *= s
    return n


def gen_elementwise(rng, npoints):
    """cases {func, shape, values}; the SPECIAL list is always covered for every function"""
    cases = []
    for f in ELEMENTWISE:
        pool = list(SPECIAL)
        while len(pool) < npoints:
            pool.append(rand_value(rng))
        rng.shuffle(pool)
        while pool:
            shape = rand_shape(rng)
            n = _size(shape)
            vals, pool = pool[:n], pool[n:]
            while len(vals) < n:
                vals.append(rand_value(rng))
            cases.append({"kind": "elementwise", "func": f, "shape": shape, "values": vals})
    return cases


def gen_softmax(rng, ncases):
    cases = [{"kind": "softmax", "shape": [2], "values": [1000.0, 0.0], "beta": 1.0, "shift": 0.0},
             {"kind": "softmax", "shape": [3], "values": [-800.0, -801.0, -900.0], "beta": 1.0, "shift": 0.0},
             {"kind": "softmax", "shape": [2, 2], "values": [709.78, 0.0, -745.0, 5e-324], "beta": 2.0, "shift": 0.0},
             {"kind": "softmax", "shape": [3], "values": [1e308, -1e308, 1e308], "beta": 1e3, "shift": 0.0},
             {"kind": "softmax", "shape": [4], "values": [0.0, -0.0, 5e-324, -5e-324], "beta": 1e3, "shift": 0.0},
             {"kind": "softmax", "shape": [], "values": [3.0], "beta": 1.0, "shift": 1.0},
             {"kind": "softmax", "shape": [0], "values": [], "beta": 1.0, "shift": 0.0},
             {"kind": "softmax", "shape": [2, 0], "values": [], "beta": 2.0, "shift": 0.0}]
    while len(cases) < ncases:
        shape = rand_shape(rng)
        n = _size(shape)
        cls = rng.choice(["dyadic", "dyadic", "wide", "mixed", "huge", "ties"])
        if cls == "dyadic":
            vals = [float(core.dyadic(rng, 2 ** rng.choice([3, 6, 10]), 3)) for _ in range(n)]
        elif cls == "wide":
            vals = [rng.uniform(-800, 800) for _ in range(n)]
        elif cls == "mixed":
            vals = [rand_value(rng) for _ in range(n)]
        elif cls == "huge":
            vals = [rng.choice([-1, 1]) * 10.0 ** rng.uniform(300, 308) for _ in range(n)]
        else:
            base = [float(core.dyadic(rng, 40, 2)) for _ in range(max(1, n // 3))]
            vals = [rng.choice(base) for _ in range(n)]
        shift = float(core.dyadic(rng, 2 ** rng.choice([4, 10, 20]), 3))
        cases.append({"kind": "softmax", "shape": shape, "values": vals, "beta": rng.choice(BETAS), "shift": shift, "class": cls})
    return cases


NODES = ["Tanh", "Sigmoid", "Softmax", "Softplus", "ReLU", "Identity"]
NODE_FUNC = {"Tanh": "tanh", "Sigmoid": "sigmoid", "Softmax": "softmax", "Softplus": "softplus", "ReLU": "relu", "Identity": "identity"}


def gen_nodes(rng, per_node):
    cases = []
    for nd in NODES:
        for _ in range(per_node):
            T, d = rng.randint(1, 5), rng.randint(1, 6)
            vals = [rand_value(rng) if rng.random() < 0.5 else rng.uniform(-5, 5) for _ in range(T * d)]
            c = {"kind": "node", "node": nd, "shape": [T, d], "values": vals}
            if nd == "Softmax":
                c["beta"] = rng.choice([None] + BETAS)
            cases.append(c)
    return cases


def arr(c, values=None):
    return np.array(c["values"] if values is None else values, dtype=np.float64).reshape(c["shape"])


def _viol(key, what, c, expected=None, observed=None):
    return {"key": key, "what": what, "scenario": c, "expected": expected, "observed": observed}


def _flat(out):
    return [float(v) for v in np.asarray(out, dtype=np.float64).ravel()]


# ------------------------------------------------------------------------------------------ judging on the real code
def judge_elementwise(c, stats=None):
    A = actmod()
    f, x = c["func"], arr(c)
    try:
        with np.errstate(all="ignore"):
            out = getattr(A, f)(x)
    except Exception as e:
        return _viol("%s:exception" % f, "%s raises %r on a finite array of shape %s" % (f, e, c["shape"]), c)
    if tuple(np.shape(out)) != tuple(c["shape"]):
        return _viol("%s:shape" % f, "%s changes the shape %s -> %s" % (f, c["shape"], list(np.shape(out))), c,
                     c["shape"], list(np.shape(out)))
    o = _flat(out)
    with decimal.localcontext(_ctx(60)):
        for xv, ov in zip(c["values"], o):
            ref = ref_scalar(f, xv)
            if not math.isfinite(ov):
                return _viol("%s:overflow" % f, "%s(%r) = %r (not finite); mathematical value %.17g" % (f, xv, ov, float(ref)),
                             dict(c, at=xv), float(ref), repr(ov))
            if not close_ulps(ov, ref):
                return _viol("%s:value" % f, "%s(%r) = %r differs from its definition %.17g by %.3g ulp (> %d)"
                             % (f, xv, ov, float(ref), ulp_err(ov, ref), ULPS), dict(c, at=xv), float(ref), ov)
            if stats is not None:
                stats[f] = max(stats.get(f, 0.0), ulp_err(ov, ref))
    return None


def judge_softmax(c):
    A = actmod()
    x, beta = arr(c), c["beta"]
    try:
        with np.errstate(all="ignore"):
            out = A.softmax(x, beta=beta)
    except Exception as e:
        return _viol("softmax:exception", "softmax raises %r on a finite array of shape %s" % (e, c["shape"]), c)
    if tuple(np.shape(out)) != tuple(c["shape"]):
        return _viol("softmax:shape", "softmax changes the shape %s -> %s" % (c["shape"], list(np.shape(out))), c,
                     c["shape"], list(np.shape(out)))
    o = _flat(out)
    n = len(o)
    if beta == 1.0:
        with np.errstate(all="ignore"):
            od = _flat(A.softmax(x))
        if not np.array_equal(np.array(od), np.array(o), equal_nan=True):
            return _viol("softmax:default-beta", "softmax(x) differs from softmax(x, beta=1.0)", c, o, od)
    if n == 0:
        return None
    if not all(math.isfinite(v) for v in o):
        return _viol("softmax:overflow", "softmax(%s, beta=%r) contains NaN/inf: %s" % (c["values"][:6], beta, [repr(v) for v in o[:6]]),
                     c, None, [repr(v) for v in o])
    if any(v < 0 for v in o):
        return _viol("softmax:negative", "softmax returns a negative value", c, None, o)
    s = math.fsum(o)
    if abs(s - 1.0) > 1e-12:
        return _viol("softmax:sum", "softmax outputs sum to %r" % s, c, 1.0, s)
    xs = c["values"]
    order = sorted(range(n), key=lambda i: xs[i])
    for a, b in zip(order, order[1:]):
        if o[a] > o[b] or (xs[a] == xs[b] and o[a] != o[b]):
            return _viol("softmax:order", "inputs %r <= %r but outputs %r, %r" % (xs[a], xs[b], o[a], o[b]), c)
    with decimal.localcontext(_ctx(60)):
        ref = ref_softmax(xs, beta)
        for i in range(n):
            tol = Decimal(2e-12) * ref[i] + 8 * Decimal(5e-324)
            if abs(Decimal(o[i]) - ref[i]) > tol:
                return _viol("softmax:value", "softmax output %d is %r, exp(beta x_k)/sum exp(beta x_i) is %.17g" % (i, o[i], float(ref[i])),
                             c, [float(r) for r in ref], o)
    sh = c.get("shift", 0.0)
    if sh and all(Fraction(v) + Fraction(sh) == Fraction(v + sh) for v in xs):     # the shifted inputs are exact
        with np.errstate(all="ignore"):
            o2 = _flat(A.softmax(arr(c, [v + sh for v in xs]), beta=beta))
        if not all(math.isfinite(v) for v in o2):
            c2 = dict(c, values=[v + sh for v in xs], shift=0.0)
            return _viol("softmax:overflow", "softmax(%s, beta=%r) contains NaN/inf: %s" % (c2["values"][:6], beta, [repr(v) for v in o2[:6]]),
                         c2, None, [repr(v) for v in o2])
        for u, v in zip(o, o2):
            if not ( abs(u - v) <= 1e-9 * max(abs(u), abs(v)) + 1e-300):
                return _viol("softmax:shift", "softmax(x + %r) differs from softmax(x): %r vs %r" % (sh, v, u), c, o, o2)
    return None


def judge_node(c):
    rpy()
    import reservoirpy.nodes as N
    A = actmod()
    nd, X = c["node"], arr(c)
    kw = {}
    if nd == "Softmax" and c.get("beta") is not None:
        kw["beta"] = c["beta"]
    try:
        with np.errstate(all="ignore"):
            node = getattr(N, nd)(name=uname(nd), **kw)
            out = node.run(X)
            one = getattr(N, nd)(name=uname(nd), **kw)(X[:1])
    except Exception as e:
        return _viol("node:exception", "%s node raises %r" % (nd, e), c)
    f = getattr(A, NODE_FUNC[nd])
    with np.errstate(all="ignore"):
        exp = np.vstack([np.asarray(f(X[t:t + 1], **kw)).reshape(1, -1) for t in range(X.shape[0])])
    if np.shape(out) != X.shape or np.shape(one) != (1, X.shape[1]):
        return _viol("node:shape", "%s node output shape %s for input %s" % (nd, np.shape(out), X.shape), c)
    if not (np.array_equal(out, exp, equal_nan=True) and np.array_equal(one, exp[:1], equal_nan=True)):
        return _viol("node:%s" % nd.lower(), "%s node does not return %s(x) row by row" % (nd, NODE_FUNC[nd]), c, exp.tolist(), np.asarray(out).tolist())
    if node.hypers.get("f") is not f:
        return _viol("node:function", "%s node's f is not activationsfunc.%s" % (nd, NODE_FUNC[nd]), c)
    # the function itself is judged on the same rows
    for t in range(X.shape[0]):
        row = {"kind": "softmax", "shape": [1, X.shape[1]], "values": [float(v) for v in X[t]], "beta": kw.get("beta", 1.0), "shift": 0.0} \
            if nd == "Softmax" else {"kind": "elementwise", "func": NODE_FUNC[nd], "shape": [1, X.shape[1]], "values": [float(v) for v in X[t]]}
        v = _judge(row)
        if v:
            return v
    return None


def judge_table():
    A = actmod()
    want = {"softmax": "softmax", "softplus": "softplus", "sigmoid": "sigmoid", "tanh": "tanh", "identity": "identity",
            "relu": "relu", "smax": "softmax", "sp": "softplus", "sig": "sigmoid", "id": "identity", "re": "relu"}
    for k, v in want.items():
        try:
            got = A.get_function(k)
        except Exception as e:
            return _viol("get_function:table", "get_function(%r) raises %r" % (k, e), {"kind": "table", "name": k})
        if got is not getattr(A, v):
            return _viol("get_function:table", "get_function(%r) is %s, not %s" % (k, getattr(got, "__name__", got), v), {"kind": "table", "name": k})
    try:
        A.get_function("nope")
        return _viol("get_function:table", "get_function('nope') does not raise", {"kind": "table", "name": "nope"})
    except ValueError:
        return None


def judge_empty(c):
    """empty arrays are finite float64 arrays too: shape must be preserved"""
    A = actmod()
    f = c["func"]
    x = np.zeros(c["shape"], dtype=np.float64)
    try:
        out = getattr(A, f)(x)
    except Exception as e:
        return _viol("elementwise:empty-array", "%s raises %r on an empty array of shape %s" % (f, e, c["shape"]), c,
                     "an empty array of shape %s" % (c["shape"],), repr(e))
    if tuple(np.shape(out)) != tuple(c["shape"]):
        return _viol("elementwise:empty-array", "%s changes the shape of an empty array %s -> %s" % (f, c["shape"], list(np.shape(out))), c)
    return None


def _judge(c, stats=None):
    k = c["kind"]
    if k == "elementwise":
        return judge_elementwise(c, stats)
    if k == "softmax":
        return judge_softmax(c)
    if k == "node":
        return judge_node(c)
    if k == "table":
        return judge_table()
    if k == "empty":
        return judge_empty(c)
    raise ValueError(k)


def judge(case):
    return _judge(case["scenario"])


def oracle(ctx, scale=1):
    rng = ctx.rng("oracle%d" % scale)
    canon = [{"kind": "elementwise", "func": f, "shape": [6], "values": [1000.0, -1000.0, 709.78, -745.0, 40.0, -40.0]} for f in ELEMENTWISE]
    cases = canon + gen_elementwise(rng, ctx.n(650, 36000) * scale) + gen_softmax(rng, ctx.n(70, 2500) * scale) \
        + gen_nodes(rng, ctx.n(3, 40) * scale) + [{"kind": "table"}] \
        + ([{"kind": "empty", "func": f, "shape": s} for f in ELEMENTWISE for s in ([0], [2, 0])] if EMPTY_ARRAYS_IN_SCOPE else [])
    out, seen, evals, stats, dist = [], set(), 0, {}, {}
    for c in cases:
        evals += max(1, len(c.get("values", [])))
        dist[c.get("func", c.get("node", c["kind"]))] = dist.get(c.get("func", c.get("node", c["kind"])), 0) + max(1, len(c.get("values", [])))
        v = _judge(c, stats)
        if v and v["key"] not in seen:
            seen.add(v["key"])
            out.append(v)
    return {"evaluations": evals, "violations": out, "distribution": dist,
            "rule": "real functions vs 60-digit decimal reference formulas, tolerance %d ulp (elementwise), 2e-12 relative (softmax); "
                    "softmax finite/non-negative/sum 1 (1e-12)/ordering/exact-shift invariance; shapes 0-D..3-D and empty; "
                    "nodes equal the functions row by row; get_function table.  max ulp error seen: %s"
                    % (ULPS, {k: round(v, 2) for k, v in sorted(stats.items())})}


def replay(payload):
    if payload.get("scenario") is None:
        return {"violates": False, "detail": "no scenario recorded (proof / translation failure only): " + json.dumps(payload.get("broken"))[:2000]}
    v = _judge(payload["scenario"])
    return {"violates": bool(v), "detail": v}


# ------------------------------------------------------------------------------------------ correspondence
def corr_cases(rng, n_el, n_sm):
    cases = []
    for f in tr.FUNCS:
        if f == "softmax":
            continue
        pts = [0.0, -0.0, 1.0, -1.0, 30.0, -30.0, 40.0, -40.0, 709.78, -709.78, 745.0, -745.0, 1000.0, -1000.0, 5e-324, 1e308, -1e308]
        while len(pts) < n_el:
            pts.append(rand_value(rng))
        cases.append({"kind": "elementwise", "func": f, "shape": [len(pts)], "values": pts})
    cases += [c for c in gen_softmax(rng, n_sm) if c["values"]]
    return cases


def correspondence(ctx):
    text, mod, err = translation()
    res = {"evaluations": 0, "distinct_nontrivial": 0, "samples": [], "failing": [], "error": None, "distribution": {},
           "tolerance": "%d ulp (elementwise), 2e-12 relative + 8 subnormal ulp (softmax)" % ULPS,
           "rule": "translator tie: the 6 activation functions + get_function table of the CURRENT activationsfunc.py are translated to "
                   "coq/gen/Gen_activations.v (theorems are about that text); in addition the translated definitions are evaluated with "
                   "400-digit decimal arithmetic and compared with the real functions.  non-trivial = distinct (function, input) pairs with "
                   "a non-zero finite input (elementwise) / arrays with >= 2 distinct entries (softmax), plus the translated functions"}
    if err:
        res["error"] = "translator: " + err
        return res
    A = actmod()
    defs = [d.strip() for d in text.split("\n\n") if d.startswith("Definition act_") or d.startswith("(* ")]
    res["samples"] = [{"generated": d} for d in defs if "act_softmax (x" in d or "act_softplus_s" in d or "act_sigmoid_s" in d][:3]
    cases = corr_cases(ctx.rng("corr"), ctx.n(40, 400), ctx.n(30, 300))
    nt = set("translated:" + f for f in mod["funcs"])
    ev = tr.Eval(decimal)
    failing = []
    for c in cases:
        f = c.get("func", "softmax")
        fd = mod["funcs"][f]
        x = arr(c)
        res["distribution"][f] = res["distribution"].get(f, 0) + len(c["values"])
        res["evaluations"] += len(c["values"])
        try:
            with np.errstate(all="ignore"):
                obs = _flat(A.softmax(x, beta=c["beta"]) if f == "softmax" else getattr(A, f)(x))
        except Exception as e:
            failing.append({"scenario": c, "impl_error": repr(e)})
            continue
        with decimal.localcontext(_ctx(400)):
            xs = [Decimal(v) for v in c["values"]]
            model = ev.call(fd, xs, beta=Decimal(c["beta"])) if f == "softmax" else ev.call(fd, xs)
            bad = None
            if len(model) != len(obs):
                bad = "length %d vs %d" % (len(model), len(obs))
            else:
                for i, (m, o) in enumerate(zip(model, obs)):
                    if not (m.is_finite() and math.isfinite(o)):
                        ok = False
                    elif f == "softmax":
                        ok = abs(Decimal(o) - m) <= Decimal(2e-12) * abs(m) + 8 * Decimal(5e-324)
                    else:
                        ok = close_ulps(o, m)
                    if not ok:
                        bad = "element %d: translated definition = %s, real function = %r" % (i, ("%.17g" % float(m)) if m.is_finite() else str(m), o)
                        break
        if bad:
            failing.append({"scenario": c, "disagreement": bad})
        if f == "softmax":
            if len(set(c["values"])) >= 2:
                nt.add("softmax:" + repr((c["values"], c["beta"])))
        else:
            for v in c["values"]:
                if v != 0 and math.isfinite(v):
                    nt.add("%s:%r" % (f, v))
    res["failing"] = failing
    res["distinct_nontrivial"] = len(nt)
    res["evaluations"] += len(mod["funcs"]) + 1
    d = gen_diff()
    if d:
        res["samples"].append({"diff_against_gen_expected": d})
    return res
