"""C14 — every stochastic component is a deterministic function of its seed.

Correspondence (relational): random histories (seeded reservoirs interleaved with unrelated constructions, global
draws, set_seed, datasets, scikit-learn nodes) are run on reservoirpy; every produced array is hashed; Coq runs the
provenance model (coq/model/Prov.v) on the same history and checks  equal provenance => equal bytes  and
different seeds => different bytes  (coq/run/RunC14.v).
Oracle: direct byte comparisons on the real code (no model involved).
"""
import hashlib
import json
import warnings

import numpy as np

from vlib import core
from vlib.core import nat, coqbool, coqlist

IMPORTS = ("Set Warnings \"-abstract-large-number\".\nFrom Coq Require Import List Arith Bool.\nFrom RV Require Import base.Num model.Prov run.RunC14.\n"
           "Import ListNotations.")
TRUSTED = [
    "numpy bit generators are an oracle: the value of a draw is a function of (root seed, requests already served by "
    "that generator, this request) -- 'same stream-id /\\ same position => same values' (Section hypothesis "
    "np_value in coq/props/C14.v); scipy.stats / sklearn consume the generator they are given deterministically",
    "'different seeds => different bytes' is checked only for draws with enough entropy (continuous distributions with >= 2 "
    "entries, Bernoulli with >= 48 entries, trajectories of >= 3 steps): collisions of default_rng(s1), default_rng(s2) are "
    "assumed negligible",
    "SHA-256 of the dense float64 bytes (+shape) stands for byte equality",
]
ASSUMPTIONS = [
    "the provenance model covers Reservoir (default normal/bernoulli initialisers), mackey_glass, narma, ScikitLearnNode, "
    "set_seed, datasets.set_seed; ArpackNoConvergence retries of _scale_spectral_radius (which would re-draw) do not occur "
    "for the small dense matrices used",
    "the global generator of a process that never called set_seed is an unknown entropy root (one name per history)",
]

_uid = [0]
FB_DIM = 2


def uname(prefix):
    _uid[0] += 1
    return "c14_%s_%d" % (prefix, _uid[0])


def rpy():
    import reservoirpy
    reservoirpy.verbosity(0)
    return reservoirpy


def sha(a):
    import scipy.sparse as sp
    if sp.issparse(a):
        a = a.toarray()
    a = np.ascontiguousarray(np.asarray(a, dtype=np.float64))
    return hashlib.sha256(repr(a.shape).encode() + a.tobytes()).hexdigest()


def xdata(x, T, din):
    return np.sin(0.37 * (np.arange(T * din, dtype=float) + 1.0) + x).reshape(T, din)


class Intern:
    def __init__(self, first=0):
        self.d, self.first = {}, first

    def __call__(self, key):
        if key not in self.d:
            self.d[key] = len(self.d) + self.first
        return self.d[key]


# ------------------------------------------------------------------------------------------ scenarios
SEEDS = [0, 1, 2, 3, 7, 12345]
SK_MODELS = ["SGDRegressor", "MLPRegressor", "LinearRegression", "Ridge"]


def rand_cfg(rng, seed=None):
    c = {"units": rng.choice([4, 6, 8]), "seed": seed if seed is not None else rand_seed(rng),
         "fb": rng.random() < 0.4,
         "g_in": rng.choice([0.0, 0.0, 0.25, 0.5]), "g_fb": rng.choice([0.0, 0.0, 0.25, 0.5]),
         "g_rc": rng.choice([0.0, 0.0, 0.25, 0.5]), "noise_type": rng.choice(["normal", "normal", "uniform"]),
         "bias": rng.random() < 0.8, "rc_conn": rng.choice([1.0, 1.0, 0.5]), "in_conn": rng.choice([1.0, 1.0, 0.5]),
         "fb_conn": rng.choice([1.0, 0.5]), "sr": rng.choice([None, 0.9, 0.5]),
         "input_scaling": rng.choice([1.0, 0.5]), "bias_scaling": rng.choice([1.0, 0.5]),
         "fb_scaling": rng.choice([1.0, 0.5]), "lr": rng.choice([1.0, 0.5])}
    # node class family: "R" = Reservoir, also built through the ESN keyword route (ESN(units=..., seed=...).reservoir);
    # "IP" = IPReservoir (same seed plumbing, W drawn by mat_gen.uniform, forward_external)
    c["family"] = "IP" if rng.random() < 0.25 else "R"
    # feedback attached late: the reservoir first runs on its own (noisy warm-up), then  res <<= readout ; initialize_feedback
    c["fb_late"] = bool(c["fb"] and rng.random() < 0.6)
    if c["fb_late"] and rng.random() < 0.85 and c["g_in"] == 0.0 and c["g_rc"] == 0.0:
        c[rng.choice(["g_in", "g_rc"])] = rng.choice([0.25, 0.5])
    if c["units"] == 8 and rng.random() < 0.5:
        c["din_hint"] = 6     # Bernoulli Win with 48 entries: rich enough for a "different seeds" claim
    return c


def rand_seed(rng):
    r = rng.random()
    if r < 0.6:
        return ["int", rng.choice(SEEDS)]
    if r < 0.8:
        return ["none"]
    return ["freshgen", rng.choice(SEEDS)]      # a generator created from an int just before the construction


def own_script(rng, cfg):
    """Operations addressed to one reservoir (ids filled in later)."""
    din = cfg.get("din_hint") or rng.choice([1, 1, 2, 3])
    ops = [{"op": "construct", "cfg": cfg}]
    if (cfg["fb"] and not cfg.get("fb_late")) or rng.random() < 0.6:
        ops.append({"op": "init", "din": din})
    if cfg.get("fb_late"):
        ops += warmup(rng, din)
        ops.append({"op": "attachfb"})
    if cfg["fb"]:
        ops.append({"op": "initfb", "dfb": FB_DIM})
    for _ in range(rng.choice([1, 1, 2])):
        ops.append({"op": "run", "x": rng.randint(0, 2), "din": din, "T": rng.choice([1, 3, 4, 6])})
    return ops


def warmup(rng, din):
    """Runs of the reservoir on its own before its feedback connection exists (they consume noise draws)."""
    return [{"op": "run", "x": rng.randint(0, 2), "din": din, "T": rng.choice([1, 2, 5, 7]), "warm": True}
            for _ in range(rng.choice([0, 1, 1, 2]))]


def vary_warmup(rng, script):
    """Same script with another warm-up (other numbers of runs / steps before the feedback is attached)."""
    din = [o["din"] for o in script if o["op"] == "run"][0]
    out = []
    for o in script:
        if o.get("warm"):
            continue
        if o["op"] == "attachfb":
            out += warmup(rng, din)
        out.append(o)
    return out


def junk_op(rng, st):
    """One unrelated operation (may expand to several).  st tracks generator ids / node ids handed out."""
    r = rng.random()
    if r < 0.08:
        return [{"op": "set_seed", "s": rng.choice(SEEDS)}]
    if r < 0.16:
        st["gens"] += 1
        st["free"].append(st["gens"] - 1)
        return [{"op": "newgen", "g": st["gens"] - 1, "s": rng.choice(SEEDS)}]
    if r < 0.36:
        return [{"op": "gdraw", "rows": rng.randint(1, 5), "cols": rng.randint(1, 4)}]
    if r < 0.44 and st["free"]:
        return [{"op": "gendraw", "g": rng.choice(st["free"]), "rows": rng.randint(1, 5), "cols": rng.randint(1, 4)}]
    if r < 0.66:
        sd = rng.choice([["none"], ["none"], ["int", rng.choice(SEEDS)]] + ([["gen", rng.choice(st["free"])]] if st["free"] else []))
        cfg = rand_cfg(rng, seed=sd)
        return instantiate(own_script(rng, cfg), st, rng)
    if r < 0.80:
        sd = rng.choice([["none"], ["none"], ["int", rng.choice(SEEDS)]] + ([["gen", rng.choice(st["free"])]] if st["free"] else []))
        if rng.random() < 0.5:
            return [{"op": "dataset", "kind": "mg", "n": rng.choice([5, 20]), "tau": rng.choice([5, 17]), "seed": sd}]
        return [{"op": "dataset", "kind": "narma", "n": rng.choice([12, 20]), "order": rng.choice([3, 5]), "seed": sd}]
    if r < 0.84:
        return [{"op": "ds_set_seed", "s": rng.choice(SEEDS + [5555])}]
    st["sks"] += 1
    m = rng.choice(SK_MODELS)
    return [{"op": "sknode", "i": st["sks"] - 1, "model": m, "rs": None if m == "LinearRegression" else rng.choice([None, None, None, 4])},
            {"op": "skfit", "i": st["sks"] - 1, "data": rng.randint(0, 1)}]


def instantiate(script, st, rng=None):
    """Give a fresh node id (and a fresh generator for 'freshgen' seeds) to a copy of an own-script; pick the class the
    copy is built with (copies of a family-"R" script are interchangeably Reservoir(...) and ESN(...).reservoir)."""
    i = st["nodes"]
    st["nodes"] += 1
    out = []
    for o in script:
        o = dict(o, i=i)
        if o["op"] == "construct":
            cfg = dict(o["cfg"])
            if cfg["seed"][0] == "freshgen":
                g = st["gens"]
                st["gens"] += 1
                out.append({"op": "newgen", "g": g, "s": cfg["seed"][1]})
                cfg["seed"] = ["gen", g]
            o["cfg"] = cfg
            if cfg.get("family") == "IP":
                o["klass"] = "IPReservoir"
            elif rng is not None and not cfg.get("fb_late") and rng.random() < 0.4:
                o["klass"] = "ESN"
            else:
                o["klass"] = "Reservoir"
        out.append(o)
    return out


def gen_probe(rng, idx):
    """Zero-gain probe: the same prefix twice (under set_seed / on a fresh shared Generator), once followed by runs of a
    reservoir whose gains are all 0, then a draw from the same generator: the model says the two draws coincide."""
    st = {"nodes": 0, "gens": 0, "sks": 0, "free": []}
    s = rng.choice(SEEDS)
    shared = rng.random() < 0.5
    cfg = rand_cfg(rng, seed=["freshgen", s] if shared else ["none"])
    cfg.update(g_in=0.0, g_fb=0.0, g_rc=0.0)
    script = own_script(rng, cfg)
    if script[1]["op"] != "init":      # explicit initialize first, so that both variants draw W, Win, bias, Wfb in the same order
        script.insert(1, {"op": "init", "din": script[-1]["din"]})
    norun = [o for o in script if o["op"] != "run"]
    rows, cols = rng.randint(1, 4), rng.randint(1, 4)
    hist = []
    for variant in (script, norun):
        ops = instantiate(variant, st, rng)
        if shared:
            g = [o["g"] for o in ops if o["op"] == "newgen"][0]
            hist += ops + [{"op": "gendraw", "g": g, "rows": rows, "cols": cols}]
        else:
            hist += [{"op": "set_seed", "s": s}] + ops + [{"op": "gdraw", "rows": rows, "cols": cols}]
    return {"index": idx, "ops": hist, "ncopies": 0, "proto_seed": ["probe"], "has_twin": False}


def gen_history(rng, idx, sk=True):
    if rng.random() < 0.12:
        return gen_probe(rng, idx)
    st = {"nodes": 0, "gens": 0, "sks": 0, "free": []}   # free: generator objects the unrelated operations may use
    cfg = rand_cfg(rng)
    if cfg["seed"][0] == "none" and rng.random() < 0.7:
        cfg["seed"] = ["int", rng.choice(SEEDS)]
    script = own_script(rng, cfg)
    ncopies = rng.choice([2, 2, 3])
    copies = []
    vary = bool(cfg.get("fb_late") and cfg["seed"][0] == "int" and rng.random() < 0.7)
    for k in range(ncopies):
        ops = instantiate(vary_warmup(rng, script) if (vary and k > 0) else script, st, rng)
        if cfg["seed"][0] == "none":
            ops = [{"op": "set_seed", "s": 3}] + ops       # an unseeded protagonist lives under a global seed
        copies.append(ops)
    if rng.random() < 0.6:     # a twin with another seed
        # (an unseeded protagonist lives under set_seed(3): its W *is* the W of Reservoir(seed=3))
        s2 = rng.choice([s for s in SEEDS if s != (3 if cfg["seed"][0] == "none" else cfg["seed"][1])])
        kind = cfg["seed"][0] if cfg["seed"][0] != "none" else "int"
        twin = [dict(o, cfg=dict(o["cfg"], seed=[kind, s2])) if o["op"] == "construct" else o for o in script]
        copies.append(instantiate(twin, st, rng))
    junk = []
    for _ in range(rng.randint(2, 7)):
        j = junk_op(rng, st)
        if not sk and j[0]["op"] == "sknode":
            continue
        junk.append(j)
    # interleave, keeping the order inside each copy; junk blocks stay contiguous
    streams = [list(c) for c in copies] + [[o for j in junk for o in j]]
    hist = []
    junk_stream = streams[-1]
    while any(streams):
        k = rng.choice([i for i, s in enumerate(streams) if s])
        if streams[k] is junk_stream:
            hist.append(streams[k].pop(0))
        else:
            # an unseeded protagonist must not be interrupted (its claim is "script after set_seed")
            if cfg["seed"][0] == "none" and k < ncopies:
                hist += streams[k]
                streams[k][:] = []
            else:
                hist.append(streams[k].pop(0))
    return {"index": idx, "ops": hist, "ncopies": ncopies, "proto_seed": cfg["seed"], "has_twin": len(copies) > ncopies,
            "vary": vary}


# ------------------------------------------------------------------------------------------ running a history
def sk_model(name):
    from sklearn import linear_model, neural_network
    if name == "MLPRegressor":
        return neural_network.MLPRegressor, {"hidden_layer_sizes": (3,), "max_iter": 15}
    if name == "SGDRegressor":
        return linear_model.SGDRegressor, {"max_iter": 20, "tol": None}
    if name == "Ridge":
        return linear_model.Ridge, {"alpha": 0.5}
    return linear_model.LinearRegression, {}


def sk_data(d):
    t = np.arange(24, dtype=float)
    X = np.stack([np.sin(0.3 * t + d), np.cos(0.2 * t)], axis=1)
    Y = (0.5 * X[:, :1] - 0.25 * X[:, 1:] + 0.1 * d)
    return X, Y


def run_history(hist):
    """Run on the real library.  Returns the list of observations (node+1 | 0, tag, sha256)."""
    R = rpy()
    from reservoirpy.nodes import ESN, IPReservoir, Reservoir, Ridge
    from reservoirpy.utils.random import rand_generator
    import reservoirpy.datasets as ds
    from reservoirpy.datasets import _seed
    _seed._DEFAULT_SEED = 5555
    gens, nodes, sks, obs, keep = {}, {}, {}, [], []

    def seed_of(sd):
        return None if sd[0] == "none" else (int(sd[1]) if sd[0] == "int" else gens[sd[1]])

    def emit_params(i):
        n = nodes[i]
        obs.append((i + 1, 0, sha(n.W)))
        obs.append((i + 1, 1, sha(n.Win)))
        obs.append((i + 1, 2, sha(n.bias)))

    with warnings.catch_warnings():
        warnings.simplefilter("ignore")
        for o in hist["ops"]:
            k = o["op"]
            if k == "set_seed":
                R.set_seed(int(o["s"]))
            elif k == "newgen":
                gens[o["g"]] = np.random.default_rng(int(o["s"]))
            elif k == "gdraw":
                obs.append((0, 6, sha(rand_generator().normal(size=(o["rows"], o["cols"])))))
            elif k == "gendraw":
                obs.append((0, 6, sha(gens[o["g"]].normal(size=(o["rows"], o["cols"])))))
            elif k == "construct":
                c = o["cfg"]
                kw = dict(lr=c["lr"], sr=c["sr"], noise_rc=c["g_rc"], noise_in=c["g_in"],
                          noise_fb=c["g_fb"], noise_type=c["noise_type"], input_scaling=c["input_scaling"],
                          bias_scaling=c["bias_scaling"], fb_scaling=c["fb_scaling"], input_connectivity=c["in_conn"],
                          rc_connectivity=c["rc_conn"], fb_connectivity=c["fb_conn"], seed=seed_of(c["seed"]))
                klass = o.get("klass", "Reservoir")
                if klass == "ESN":
                    # the keyword route: ESN builds its Reservoir from **kwargs (seed included); the built reservoir is
                    # then observed like any other one.  feedback=True wires readout -> reservoir.
                    esn = ESN(units=c["units"], Win_bias=c["bias"], feedback=bool(c["fb"]), output_dim=FB_DIM, ridge=1e-4,
                              name=uname("esn"), **kw)
                    keep.append(esn)
                    n = esn.reservoir
                    if c["fb"]:
                        esn.readout.initialize(np.zeros((1, c["units"])), np.zeros((1, FB_DIM)))
                elif klass == "IPReservoir":
                    n = IPReservoir(c["units"], input_bias=c["bias"], epochs=1, name=uname("ipres"), **kw)
                else:
                    n = Reservoir(c["units"], input_bias=c["bias"], name=uname("res"), **kw)
                if c["fb"] and not c.get("fb_late") and klass != "ESN":
                    ro = Ridge(FB_DIM, name=uname("ro"))       # untrained readout: its output (the feedback) is always 0
                    ro.initialize(np.zeros((1, c["units"])), np.zeros((1, FB_DIM)))
                    n <<= ro
                nodes[o["i"]] = n
            elif k == "attachfb":
                n = nodes[o["i"]]
                ro = Ridge(FB_DIM, name=uname("ro"))
                ro.initialize(np.zeros((1, n.output_dim)), np.zeros((1, FB_DIM)))
                n <<= ro
                nodes[o["i"]] = n
            elif k == "init":
                n = nodes[o["i"]]
                if not n.is_initialized:
                    n.initialize(np.zeros((1, o["din"])))
                    emit_params(o["i"])
            elif k == "initfb":
                n = nodes[o["i"]]
                if n.has_feedback and not n.is_fb_initialized:
                    n.initialize_feedback()
                    obs.append((o["i"] + 1, 3, sha(n.Wfb)))
            elif k == "run":
                n = nodes[o["i"]]
                was = n.is_initialized
                out = n.run(xdata(o["x"], o["T"], o["din"]))
                if not was:
                    emit_params(o["i"])
                obs.append((o["i"] + 1, 4, sha(out)))
            elif k == "dataset":
                if o["kind"] == "mg":
                    a = ds.mackey_glass(o["n"], tau=o["tau"], seed=seed_of(o["seed"]))
                else:
                    a = ds.narma(o["n"], order=o["order"], seed=seed_of(o["seed"]))
                obs.append((0, 5, sha(a)))
            elif k == "ds_set_seed":
                ds.set_seed(int(o["s"]))
            elif k == "sknode":
                from reservoirpy.nodes import ScikitLearnNode
                cls, hyp = sk_model(o["model"])
                hyp = dict(hyp)
                if o["rs"] is not None:
                    hyp["random_state"] = int(o["rs"])
                sks[o["i"]] = ScikitLearnNode(cls, model_hypers=hyp, name=uname("sk"))
            elif k == "skfit":
                X, Y = sk_data(o["data"])
                n = sks[o["i"]]
                n.fit(X, Y)
                obs.append((0, 7, sha(n.run(X))))
            else:
                raise ValueError(k)
    _seed._DEFAULT_SEED = 5555
    return obs


# ------------------------------------------------------------------------------------------ printing Gallina
def to_coq(hist, obs):
    iconn, ipost, igain, idist, ihyp, isk, ih = Intern(), Intern(), Intern(1), Intern(), Intern(), Intern(), Intern()

    def src(sd):
        return "SNone" if sd[0] == "none" else ("(SInt %s)" % nat(sd[1]) if sd[0] == "int" else "(SGen %s)" % nat(sd[1]))

    def gain(g):
        return nat(0 if g == 0.0 else igain(g))

    def req(dist, r, c, a=0):
        return "(mkReq %s %s %s %s)" % (dist, nat(r), nat(c), nat(a))

    def has_rs(model):
        cls, _ = sk_model(model)
        return "random_state" in (cls.__init__.__kwdefaults__ or {})

    out = []
    for o in hist["ops"]:
        k = o["op"]
        if k == "set_seed":
            out.append("OSetSeed %s" % nat(o["s"]))
        elif k == "newgen":
            out.append("ONewGen %s %s" % (nat(o["g"]), nat(o["s"])))
        elif k == "gdraw":
            out.append("OGlobalDraw %s" % req("DUSER", o["rows"], o["cols"]))
        elif k == "gendraw":
            out.append("OGenDraw %s %s" % (nat(o["g"]), req("DUSER", o["rows"], o["cols"])))
        elif k == "construct":
            c = o["cfg"]
            pair = lambda a, b: "(%s,%s)" % (nat(a), nat(b))
            out.append("OConstruct %s (mkCfg %s %s %s %s %s %s %s %s %s %s %s %s %s)" % (
                nat(o["i"]), nat(c["units"]), src(c["seed"]), coqbool(c["fb"] and not c.get("fb_late")), gain(c["g_in"]), gain(c["g_fb"]), gain(c["g_rc"]),
                nat(idist(c["noise_type"])), coqbool(c["bias"]),
                pair(iconn((c.get("family", "R"), c["rc_conn"])), ipost(("sr", c["sr"]))), pair(iconn(c["in_conn"]), ipost(("scale", c["input_scaling"]))),
                pair(iconn(c["in_conn"]), ipost(("scale", c["bias_scaling"]))), pair(iconn(c["fb_conn"]), ipost(("scale", c["fb_scaling"]))),
                nat(ihyp((c["lr"], c.get("family", "R"))))))
        elif k == "attachfb":
            out.append("OAttachFb %s" % nat(o["i"]))
        elif k == "init":
            out.append("OInit %s %s" % (nat(o["i"]), nat(o["din"])))
        elif k == "initfb":
            out.append("OInitFb %s %s" % (nat(o["i"]), nat(o["dfb"])))
        elif k == "run":
            out.append("ORun %s %s %s %s" % (nat(o["i"]), nat(o["x"]), nat(o["din"]), nat(o["T"])))
        elif k == "dataset":
            if o["kind"] == "mg":
                out.append("ODataset %s (mg_req %s) %s" % (src(o["seed"]), nat(o["tau"]), nat(ipost(("mg", o["n"], o["tau"])))))
            else:
                out.append("ODataset %s (narma_req %s) %s" % (src(o["seed"]), nat(o["n"] + o["order"]), nat(ipost(("narma", o["n"], o["order"])))))
        elif k == "ds_set_seed":
            out.append("ODsSetSeed %s" % nat(o["s"]))
        elif k == "sknode":
            out.append("OSkNode %s %s %s %s" % (nat(o["i"]), "None" if o["rs"] is None else "(Some %s)" % nat(o["rs"]),
                                                coqbool(has_rs(o["model"])), nat(isk(o["model"]))))
        elif k == "skfit":
            out.append("OSkFit %s %s" % (nat(o["i"]), nat(o["data"])))
    ob = coqlist(["(%s,%s,%s)" % (nat(n), nat(t), nat(ih(h))) for n, t, h in obs])
    return "chk_history %s %s %s" % (nat(hist["index"]), coqlist(out), ob)


GLOBAL_CONSUMERS = ("gdraw", "sknode", "set_seed")


def nontrivial(hist, obs):
    """>= 2 copies of the protagonist whose arrays were observed, separated by at least one operation that consumes or
    reseeds the global generator (or constructs/runs another reservoir)."""
    ops = hist["ops"]
    if hist["proto_seed"][0] == "probe" or hist.get("vary"):
        return True
    cons = [k for k, o in enumerate(ops) if o["op"] == "construct" and o["i"] < hist["ncopies"]]
    if len(cons) < 2:
        return False
    between = ops[cons[0]:cons[-1]]
    return any(o["op"] in GLOBAL_CONSUMERS or (o["op"] in ("construct", "run") and o.get("i", 0) >= hist["ncopies"]) for o in between)


def jsonable(c):
    return json.loads(json.dumps(c, default=str))


def pregen(ctx):
    """tie (T): re-translate set_seed / rand_generator / noise (utils/random.py), get_seed / set_seed (datasets/_seed.py) and the seed table
    of Reservoir.__init__ (+ reservoirs/base.py initialize / initialize_feedback) of the tree under test into coq/gen/Gen_seed.v
    (translator vlib/py2coq_seed.py, vocabulary coq/base/SeedPrelude.v); proofs/Gen_seed_eq.v then proves them equal to model/Prov.v.
    Returns None or the error text; on rejection a stub that does not compile replaces the file (never a stale model)."""
    import os
    import traceback
    from vlib import py2coq_seed
    path = os.path.join(core.COQ, "gen", "Gen_seed.v")
    os.makedirs(os.path.dirname(path), exist_ok=True)
    err = None
    try:
        text = py2coq_seed.emit(core.REPO)
    except py2coq_seed.Reject as ex:
        err = "translation rejected: %s" % ex
    except Exception:
        err = "translator exception: " + traceback.format_exc()[-1500:]
    if err is not None:
        text = "(* GENERATED: translation of the seed plumbing FAILED -- %s *)\nDefinition translation_failed : True := 0.\n" % (
            err.replace("*)", "* )").replace("(*", "( *"))
    old = open(path).read() if os.path.exists(path) else None
    if old != text:               # keep the mtime (and the compiled cone) when nothing changed
        with open(path, "w") as f:
            f.write(text)
    return None if err is None else "unit seed (set_seed, rand_generator, noise, datasets seed, Reservoir seed table): %s" % err


def correspondence(ctx):
    rng = ctx.rng("corr")
    n = ctx.n(80, 800)
    terms, keep, dist, nt = [], [], {}, set()
    for idx in range(n):
        h = gen_history(rng, idx, sk=(idx % 3 != 1))
        try:
            obs = run_history(h)
        except Exception as e:
            terms.append("false")
            keep.append({"scenario": jsonable(h), "impl_error": repr(e)})
            continue
        terms.append(to_coq(h, obs))
        keep.append({"scenario": jsonable(h), "observed": [[a, b, c[:12]] for a, b, c in obs]})
        kind = "proto:" + h["proto_seed"][0] + ("+twin" if h["has_twin"] else "")
        dist[kind] = dist.get(kind, 0) + 1
        if nontrivial(h, obs):
            nt.add(repr(jsonable(h["ops"])))
    failing, err = core.run_cases(ctx.pid, IMPORTS, terms, chunk=40)
    return {"evaluations": n, "distinct_nontrivial": len(nt),
            "rule": "random histories: 2-3 copies of one reservoir script (construct / initialize / initialize_feedback / run, "
                    "seed int | fresh Generator | none-under-set_seed, optional twin with another seed) interleaved with unrelated "
                    "operations (set_seed, default_rng objects, global/generator draws, other reservoirs, mackey_glass, narma, "
                    "datasets.set_seed, ScikitLearnNode); Coq checks all pairs of produced arrays: equal provenance => equal SHA-256, "
                    "different seeds => different; non-trivial = two copies separated by an operation that consumes/reseeds the "
                    "global generator or builds/runs another reservoir; distinct by operation list",
            "samples": [keep[0], keep[1], keep[min(7, len(keep) - 1)]],
            "distribution": dist, "tolerance": "exact (hash equality)",
            "failing": [dict(keep[i], index=i) for i in failing], "error": err}


# ------------------------------------------------------------------------------------------ oracle on the implementation
TAGN = {0: "W", 1: "Win", 2: "bias", 3: "Wfb", 4: "trajectory"}


def _viol(key, what, scenario, expected=None, observed=None):
    return {"key": key, "what": what, "scenario": jsonable(scenario), "expected": jsonable(expected), "observed": jsonable(observed)}


def _judge_history(h):
    """Property statement on one history, no model: copies of the protagonist (int / fresh-generator seed, or unseeded right
    after set_seed(3) and not interrupted) must give identical arrays; the twin with another seed different W/trajectory."""
    try:
        obs = run_history(h)
    except Exception as e:
        return _viol("history:exception", "valid history raises %r" % (e,), h)
    if h["proto_seed"][0] == "probe":
        draws = [hs for nd, tag, hs in obs if tag == 6]
        ws = [hs for nd, tag, hs in obs if tag == 0]
        if len(ws) == 2 and ws[0] != ws[1]:
            return _viol("set_seed:W" if any(o["op"] == "set_seed" for o in h["ops"]) else "generator:W",
                         "W of two reservoirs built after the same seeding differs", h, ws[0], ws[1])
        if len(draws) == 2 and draws[0] != draws[1]:
            return _viol("zero_gain:generator-touched", "runs with all gains 0 changed what the generator draws next", h, draws[1], draws[0])
        return None
    per = {}
    for nd, tag, hs in obs:
        if nd > 0:
            per.setdefault(nd - 1, []).append((tag, hs))
    ref = per.get(0, [])
    kind = {"int": "seeded", "freshgen": "generator", "none": "set_seed"}[h["proto_seed"][0]]
    if h.get("vary"):     # copies differ in their warm-up runs: the weights (not the trajectories) must coincide
        ref = [(t, x) for t, x in ref if t < 4]
    klass_of = {o["i"]: o.get("klass", "Reservoir") for o in h["ops"] if o["op"] == "construct"}

    def cls(k):       # class named in the key: the non-Reservoir one of the two compared copies
        names = [c for c in (klass_of.get(k), klass_of.get(0)) if c and c != "Reservoir"]
        return (names[0] + ":") if names else ""
    for k in range(1, h["ncopies"]):
        cur = per.get(k, [])
        if h.get("vary"):
            cur = sorted((t, x) for t, x in cur if t < 4)
            ref = sorted(ref)
        for (t1, h1), (t2, h2) in zip(ref, cur):
            if t1 != t2 or h1 != h2:
                return _viol("%s:%s%s" % (kind, cls(k), TAGN.get(t1, "?")),
                             "%s of two reservoirs (%s / %s) built with the same seed differs after unrelated operations"
                             % (TAGN.get(t1, "?"), klass_of.get(0), klass_of.get(k)), h, h1, h2)
        if len(cur) != len(ref):
            return _viol("%s:count" % kind, "copies produced a different number of arrays", h, len(ref), len(cur))
    if h["has_twin"]:
        tw = per.get(h["ncopies"], [])
        for (t1, h1), (t2, h2) in zip(ref, tw):
            if t1 == 0 and h1 == h2:
                return _viol("different:W", "two different seeds gave the same W", h, "different", h1)
    return None


def judge(case):
    return _judge_history(case["scenario"])


def _bytes_equal(a, b):
    return sha(a) == sha(b)


def _mk(seed, name, fb=True, **kw):
    from reservoirpy.nodes import Reservoir, Ridge
    n = Reservoir(6, seed=seed, rc_connectivity=1.0, input_connectivity=1.0, fb_connectivity=1.0, name=uname(name), **kw)
    if fb:
        ro = Ridge(FB_DIM, name=uname("ro"))
        ro.initialize(np.zeros((1, 6)), np.zeros((1, FB_DIM)))
        n <<= ro
    return n


def _build(seed, T=5, **kw):
    n = _mk(seed, "o", **kw)
    X = xdata(1, T, 2)
    n.initialize(X[:1])
    n.initialize_feedback()
    out = n.run(X)
    return {"W": sha(n.W), "Win": sha(n.Win), "bias": sha(n.bias), "Wfb": sha(n.Wfb), "trajectory": sha(out)}, n


def _junk(rng):
    from reservoirpy.nodes import Reservoir
    from reservoirpy.utils.random import rand_generator
    for _ in range(rng.randint(1, 3)):
        r = rng.random()
        if r < 0.4:
            rand_generator().normal(size=rng.randint(1, 9))
        elif r < 0.8:
            Reservoir(5, rc_connectivity=1.0, input_connectivity=1.0, noise_rc=0.1, name=uname("junk")).run(xdata(0, 3, 1))
        else:
            np.random.rand(3)


def _script(s, with_sk):
    """A construct-and-run script under rpy.set_seed(s); returns the hashes of everything it produced."""
    R = rpy()
    import reservoirpy.datasets as ds
    from reservoirpy.nodes import Reservoir, ScikitLearnNode
    out = {}
    R.set_seed(s)
    a = _mk(None, "s", noise_rc=0.2, noise_in=0.1, noise_fb=0.3)
    X = xdata(2, 6, 1)
    a.initialize(X[:1])
    a.initialize_feedback()
    out["W"], out["Win"], out["bias"], out["Wfb"] = sha(a.W), sha(a.Win), sha(a.bias), sha(a.Wfb)
    out["trajectory"] = sha(a.run(X))
    b = Reservoir(5, rc_connectivity=0.5, input_connectivity=0.5, noise_rc=0.1, noise_type="uniform", name=uname("s2"))
    out["trajectory2"] = sha(b.run(X))
    out["mackey_glass"] = sha(ds.mackey_glass(30))
    out["narma"] = sha(ds.narma(30))
    if with_sk:
        Xs, Ys = sk_data(0)
        for m in ("SGDRegressor", "MLPRegressor"):
            cls, hyp = sk_model(m)
            n = ScikitLearnNode(cls, model_hypers=dict(hyp), name=uname("sk"))
            n.fit(Xs, Ys)
            out["sklearn:" + m] = sha(n.run(Xs))
    return out


def _perturb(rng):
    """Use / reseed the library-wide generator (and numpy's legacy one) between two builds."""
    from reservoirpy.utils.random import rand_generator
    if rng.random() < 0.5:
        rpy().set_seed(rng.randint(0, 10 ** 6))
    rand_generator().normal(size=rng.randint(1, 9))
    np.random.rand(2)
    _junk(rng)


def _family_build(klass, seed):
    """One reservoir of the class, with a feedback connection (so that Wfb is drawn) and the three noises; returns hashes."""
    from reservoirpy.nodes import ESN, IPReservoir, Reservoir, Ridge
    kw = dict(lr=0.5, sr=0.9, noise_rc=0.1, noise_in=0.1, noise_fb=0.1, rc_connectivity=1.0, input_connectivity=1.0,
              fb_connectivity=1.0, seed=seed)
    X = xdata(1, 5, 2)
    if klass == "ESN":
        esn = ESN(units=6, feedback=True, output_dim=FB_DIM, ridge=1e-4, name=uname("esn"), **kw)
        n = esn.reservoir
        esn.readout.initialize(np.zeros((1, 6)), np.zeros((1, FB_DIM)))
    else:
        n = (IPReservoir(6, epochs=1, name=uname("ip"), **kw) if klass == "IPReservoir" else Reservoir(6, name=uname("fam"), **kw))
        ro = Ridge(FB_DIM, name=uname("ro"))
        ro.initialize(np.zeros((1, 6)), np.zeros((1, FB_DIM)))
        n <<= ro
    n.initialize(X[:1])
    n.initialize_feedback()
    out = n.run(X)
    return {"W": sha(n.W), "Win": sha(n.Win), "bias": sha(n.bias), "Wfb": sha(n.Wfb), "trajectory": sha(out)}


def _curried_build(s):
    from reservoirpy.mat_gen import bernoulli, normal
    from reservoirpy.nodes import Reservoir, Ridge
    n = Reservoir(6, W=normal(seed=s), Win=bernoulli(seed=s), bias=bernoulli(seed=s), Wfb=bernoulli(seed=s),
                  rc_connectivity=1.0, input_connectivity=1.0, fb_connectivity=1.0, name=uname("cur"))
    ro = Ridge(FB_DIM, name=uname("ro"))
    ro.initialize(np.zeros((1, 6)), np.zeros((1, FB_DIM)))
    n <<= ro
    X = xdata(1, 3, 2)
    n.initialize(X[:1])
    n.initialize_feedback()
    return {"W": sha(n.W), "Win": sha(n.Win), "bias": sha(n.bias), "Wfb": sha(n.Wfb)}


def _name_counter_probe():
    """Runs the probe in a fresh interpreter (the auto-name counters start at 0 there, whatever this process created)."""
    import os
    import subprocess
    import sys
    code = "import json; from props import c14; print('@@' + json.dumps(c14._name_counter_probe_inproc()))"
    p = subprocess.run([sys.executable, "-W", "ignore", "-c", code], env=dict(os.environ), capture_output=True, text=True, timeout=300)
    for ln in p.stdout.splitlines():
        if ln.startswith("@@"):
            return json.loads(ln[2:])
    raise RuntimeError("name-counter probe failed: " + (p.stderr or p.stdout)[-800:])


def _name_counter_probe_inproc():
    """set_seed(7); r1, r2 = Reservoir(), Reservoir(); (Input() >> [r1, r2]).run(X) with AUTO names, once with the two auto names
    straddling a power of ten (Reservoir-9 / Reservoir-10), once just after: the weights must be the same."""
    R = rpy()
    from reservoirpy.nodes import Input, Reservoir
    X = xdata(0, 4, 1)

    def script():
        R.set_seed(7)
        r1 = Reservoir(6, rc_connectivity=1.0, input_connectivity=1.0)
        r2 = Reservoir(6, rc_connectivity=1.0, input_connectivity=1.0)
        model = Input() >> [r1, r2]
        model.run(X)
        return {"names": [r1.name, r2.name], "order": [n.name for n in model.nodes], "r1.W": sha(r1.W), "r2.W": sha(r2.W)}
    cur = getattr(Reservoir, "_factory_id", None)
    if not isinstance(cur, int):
        return None
    target = 9
    while target < cur + 1:
        target = target * 10 + 9
    if target - (cur + 1) > 5000:
        return None
    for _ in range(target - (cur + 1)):
        Reservoir(2)                     # auto-named throw-away nodes: only advance the name counter (no draw)
    a = script()                         # auto names ...9 and ...0 (one more digit)
    b = script()                         # next two names
    if (a["r1.W"], a["r2.W"]) != (b["r1.W"], b["r2.W"]):
        return _viol("set_seed:init-order-depends-on-auto-name-counter",
                     "the same script under rpy.set_seed(7) gives different weights depending on the auto-name counter: in "
                     "Input() >> [r1, r2] the initialisation order of the two unseeded reservoirs (graphflow sorts edges by "
                     "concatenated names) flips between %s and %s, so they swap their global-generator draws" % (a["names"], b["names"]),
                     {"check": "name-counter", "first": a, "second": b}, [a["r1.W"], a["r2.W"]], [b["r1.W"], b["r2.W"]])
    return None


def _copy_noise_probe(s, rng):
    import copy as _copy
    rpy()
    X = xdata(1, 6, 1)
    how = rng.choice(["Node.copy", "deepcopy"])

    def mk(tag):
        return _mk(s, tag, fb=False, noise_rc=0.2, noise_in=0.1)
    try:
        ref = mk("cnr")
        want = sha(ref.run(X))
        a = mk("cna")
        a.initialize(X[:1])
        c = a.copy(name=uname("cnc")) if how == "Node.copy" else _copy.deepcopy(a)
        c.run(X)                          # the copy is used first
        got = sha(a.run(X))
    except Exception as e:  # noqa: BLE001
        return _viol("copy:noise:exception", "copying a seeded noisy reservoir and running both raises %r" % (e,), {"check": "copy-noise", "seed": s, "how": how})
    if got != want:
        return _viol("copy:noise-generator-shared", "Reservoir(seed=%d, noise>0): after its %s copy has been run, the original's noisy trajectory is no longer "
                     "the one a fresh reservoir with the same seed produces (copy and original draw from one generator)" % (s, how),
                     {"check": "copy-noise", "seed": s, "how": how}, want, got)
    return None


def _sklearn_shared_hypers_probe(s1, s2):
    import reservoirpy
    from reservoirpy.nodes import ScikitLearnNode
    from sklearn.linear_model import SGDRegressor
    rpy()
    X = np.random.RandomState(0).rand(30, 3)
    Y = X @ np.array([[1.0], [2.0], [3.0]])

    def second(shared):
        hyp = {"max_iter": 5, "tol": None}
        reservoirpy.set_seed(s1)
        n1 = ScikitLearnNode(SGDRegressor, model_hypers=hyp, name=uname("skh"))
        reservoirpy.set_seed(s2)
        n2 = ScikitLearnNode(SGDRegressor, model_hypers=hyp if shared else {"max_iter": 5, "tol": None}, name=uname("skh"))
        n1.fit(X, Y)                       # an unrelated fit in between
        n2.fit(X, Y)
        return hyp, sha(np.asarray(n2.instances.coef_))
    hyp, a = second(True)
    _, b = second(False)
    sc = {"check": "sklearn-shared-hypers", "seeds": [s1, s2]}
    if "random_state" in hyp or a != b:
        return _viol("sklearn:model_hypers-dict-mutated", "two ScikitLearnNodes built from one model_hypers dict: the caller's dict %s, and the second "
                     "node's fit %s the fit of the same node built alone under the same global seed (they share one RandomState)"
                     % ("received a random_state" if "random_state" in hyp else "is untouched", "differs from" if a != b else "equals"), sc, b, a)
    return None


def _esn_noise_schedule_probe():
    """a NOISY ESN with an integer seed fitted on three sequences: the fitted readout and every later noisy run are the same function of the seed whether the
    sequences are processed sequentially (workers=1) or by two threads, and two identical sequential fits give identical bytes"""
    rpy()
    from reservoirpy.nodes import ESN
    rs = np.random.RandomState(21)
    X = [rs.uniform(-1, 1, (n, 2)) for n in (12, 9, 14)]
    Y = [rs.uniform(-1, 1, (n, 1)) for n in (12, 9, 14)]
    sc = {"check": "esn-noise-schedule"}

    def mk(k, **kw):
        return ESN(units=8, ridge=1e-2, seed=2024, noise_rc=0.05, noise_in=0.02, rc_connectivity=1.0, input_connectivity=1.0, name="ens_%s" % k, **kw)
    try:
        a, b, c = mk("a", workers=1), mk("b", workers=1), mk("c", workers=2, backend="threading")
        for e in (a, b, c):
            e.fit(X, Y)
        ra, rb, rc = a.run(X[0]), b.run(X[0]), c.run(X[0])
    except Exception as ex:  # noqa: BLE001
        return _viol("esn-noise-schedule:exception", "noisy seeded ESN fit / run raises %r" % (ex,), sc)
    if not (np.array_equal(a.readout.Wout, b.readout.Wout) and np.array_equal(ra, rb)):
        return _viol("esn-noise:not-a-function-of-seed", "two identical sequential fits of a noisy ESN with the same integer seed differ", sc)
    if not (np.allclose(a.readout.Wout, c.readout.Wout, rtol=1e-8, atol=1e-10) and np.allclose(ra, rc, rtol=1e-8, atol=1e-10)):
        return _viol("esn-noise:schedule-dependent", "a noisy ESN with seed 2024 fitted on three sequences gives another readout / later noisy run when the sequences are processed by one "
                     "worker than by two threads (max |dWout| %.3g): the noise is not the same function of the seed in both schedules"
                     % float(np.max(np.abs(a.readout.Wout - c.readout.Wout))), sc)
    return None


def _entry_order_probe():
    """rpy.set_seed(s); two UNSEEDED reservoirs with fixed names merged into one model (two entry nodes); run: the script is repeated 10 times in one process with
    unrelated allocations in between, and the first reservoir's W must be the same bytes every time (the order in which a model initialises its entry nodes may not
    depend on memory addresses)"""
    import reservoirpy as r_
    r_.verbosity(0)
    from reservoirpy.nodes import Reservoir
    keep, ws = [], []
    sc = {"check": "entry-order"}
    try:
        for k in range(10):
            r_.set_seed(7)
            r1, r2 = Reservoir(6, name="eo_a%d" % k), Reservoir(9, name="eo_b%d" % k)
            X = np.linspace(0, 1, 12).reshape(-1, 2)
            (r1 & r2).run({r1.name: X, r2.name: X})
            keep.extend([r1, r2] + [object() for _ in range(k * 37)])
            ws.append(r1.W.toarray().tobytes())
    except Exception as ex:  # noqa: BLE001
        return _viol("entry-order:exception", "set_seed script with two entry nodes raises %r" % (ex,), sc)
    same = [w == ws[0] for w in ws]
    if not all(same):
        return _viol("set_seed:init-order-of-entry-nodes-by-address", "rpy.set_seed(7); (Reservoir(name=a) & Reservoir(name=b)).run(...) repeated 10 times in one process: the first "
                     "reservoir's W equals the first trial's in %s: entry nodes are initialised in the iteration order of a set of nodes (memory addresses), so which unseeded "
                     "node draws first from the global generator changes from run to run" % same, sc)
    return None


def _generator_reuse_probe():
    """one numpy Generator given as seed to mackey_glass and then REUSED for narma and an initialiser: the whole experiment repeated with a fresh default_rng(same seed)
    gives the same bytes (a dataset generator consumes the caller's generator the same way every time, cached or not)"""
    rpy()
    import reservoirpy.datasets as ds_
    from reservoirpy import mat_gen as mg_
    sc = {"check": "generator-reuse"}

    def experiment():
        g = np.random.default_rng(20240930)
        a = np.asarray(ds_.mackey_glass(60, seed=g))
        b = np.asarray(ds_.narma(40, seed=g))
        w = mg_.normal(5, 5, seed=g)
        w = w.toarray() if hasattr(w, "toarray") else np.asarray(w)
        return a.tobytes(), b.tobytes(), w.tobytes()
    try:
        e1 = experiment(); e2 = experiment(); e3 = experiment()
    except Exception as ex:  # noqa: BLE001
        return _viol("generator-reuse:exception", "mackey_glass / narma / normal with one Generator as seed raise %r" % (ex,), sc)
    names = ["mackey_glass", "narma", "normal"]
    bad = [n for n, x, y, z in zip(names, e1, e2, e3) if not (x == y == z)]
    if bad:
        return _viol("generator-seed:consumption-depends-on-history", "the same experiment (one default_rng(20240930) passed to mackey_glass, then narma, then normal) repeated three times "
                     "in one process gives different %s: a generator passed as seed is not consumed the same way at every call" % bad, sc)
    return None


def oracle(ctx, scale=1):
    rng = ctx.rng("oracle")
    rpy()
    from reservoirpy.utils.random import rand_generator
    import reservoirpy.datasets as ds
    from reservoirpy.datasets import _seed
    _seed._DEFAULT_SEED = 5555
    viol, ev = [], 0
    with warnings.catch_warnings():
        warnings.simplefilter("ignore")
        # (a) random histories judged directly
        for idx in range(ctx.n(25, 250) * scale):
            v = _judge_history(gen_history(rng, idx, sk=False))
            ev += 1
            if v:
                viol.append(v)
        v = _esn_noise_schedule_probe()
        ev += 1
        if v:
            viol.append(v)
        v = _entry_order_probe()
        ev += 1
        if v:
            viol.append(v)
        v = _generator_reuse_probe()
        ev += 1
        if v:
            viol.append(v)
        # (b) fixed-shape checks
        for rep in range(ctx.n(6, 40) * scale):
            s = rng.choice(SEEDS)
            kw = {"noise_rc": rng.choice([0.1, 0.5]), "noise_in": rng.choice([0.1, 0.5]), "noise_fb": rng.choice([0.1, 0.5]),
                  "noise_type": rng.choice(["normal", "uniform"])}
            sc = {"check": "interleave", "seed": s, "kw": kw}
            r1, _ = _build(s, **kw)
            _junk(rng)
            r2, _ = _build(s, **kw)
            g1, _ = _build(np.random.default_rng(s), **kw)
            _junk(rng)
            g2, _ = _build(np.random.default_rng(s), **kw)
            ev += 4
            PAR = ("W", "Win", "bias", "Wfb")
            same_params = lambda u, v: all(u[c] == v[c] for c in PAR)
            for comp in r1:
                if comp == "trajectory" and not (same_params(r1, r2) and same_params(g1, g2)):
                    continue        # already reported through the differing parameter
                if r1[comp] != r2[comp]:
                    viol.append(_viol("seeded:" + comp, "same integer seed, different %s after unrelated operations" % comp, sc, r1[comp], r2[comp]))
                if g1[comp] != g2[comp]:
                    viol.append(_viol("generator:" + comp, "two fresh generators from the same integer give different %s" % comp, sc, g1[comp], g2[comp]))
            s2 = rng.choice([x for x in SEEDS if x != s])
            r3, _ = _build(s2, **kw)
            ev += 1
            for comp in ("W", "trajectory"):
                if r1[comp] == r3[comp]:
                    viol.append(_viol("different:" + comp, "seeds %d and %d give the same %s" % (s, s2, comp), sc, "different", r1[comp]))
            # feedback attached after noisy warm-up runs of different lengths: same weights, in particular same Wfb
            hs = []
            for warm in (0, rng.choice([3, 7]), rng.choice([11, 13])):
                from reservoirpy.nodes import Ridge
                n = _mk(s, "w", fb=False, **{rng.choice(["noise_rc", "noise_in"]): 0.1})
                if warm:
                    n.run(xdata(0, warm, 2))
                ro = Ridge(FB_DIM, name=uname("ro"))
                ro.initialize(np.zeros((1, 6)), np.zeros((1, FB_DIM)))
                n <<= ro
                n.initialize(xdata(0, 1, 2))
                n.initialize_feedback()
                hs.append({"W": sha(n.W), "Win": sha(n.Win), "bias": sha(n.bias), "Wfb": sha(n.Wfb)})
                ev += 1
            for comp in ("W", "Win", "bias", "Wfb"):
                if len({h_[comp] for h_ in hs}) != 1:
                    viol.append(_viol("seeded:" + comp, "same integer seed, %s depends on the noisy runs made before the feedback "
                                      "connection was initialised" % comp, dict(sc, check="warmup"), hs[0][comp], [h_[comp] for h_ in hs]))
            # each of the three noises alone: reproducible, and effective
            quiet, _ = _build(s)
            for which in ("noise_in", "noise_rc", "noise_fb"):
                a, _ = _build(s, **{which: 0.3})
                _junk(rng)
                b, _ = _build(s, **{which: 0.3})
                ev += 2
                if a["trajectory"] != b["trajectory"] and same_params(a, b):
                    viol.append(_viol("noise:" + which, "%s with a seed is not reproducible" % which, dict(sc, which=which), a["trajectory"], b["trajectory"]))
                if a["trajectory"] == quiet["trajectory"]:
                    viol.append(_viol("noise:%s-ineffective" % which, "%s > 0 does not change the trajectory" % which, dict(sc, which=which)))
            # gain 0: identical to the noiseless run, generator untouched
            for seed_kind in ("int", "gen", "none"):
                g = np.random.default_rng(s) if seed_kind == "gen" else None
                sd = s if seed_kind == "int" else g
                if seed_kind == "none":
                    rpy().set_seed(s)
                z = _mk(sd, "z", noise_rc=0.0, noise_in=0.0, noise_fb=0.0)
                X = xdata(1, 5, 2)
                z.initialize(X[:1])
                z.initialize_feedback()
                rng_obj = z.noise_generator.keywords["rng"]
                before = json.dumps(rng_obj.bit_generator.state, default=str)
                outz = z.run(X)
                after = json.dumps(rng_obj.bit_generator.state, default=str)
                ev += 1
                if before != after:
                    viol.append(_viol("zero_gain:generator-touched", "a run with all gains 0 advanced the noise generator", dict(sc, seed_kind=seed_kind)))
                if seed_kind == "int" and sha(outz) != quiet["trajectory"] and same_params(r1, r2):
                    viol.append(_viol("zero_gain:trajectory", "gain 0 differs from the noiseless run", sc, quiet["trajectory"], sha(outz)))
                # the deterministic recurrence recomputed by hand
                st = np.zeros((6, 1))
                ok = True
                for t in range(5):
                    st = np.tanh(z.W @ st + z.Win @ X[t].reshape(-1, 1) + z.bias + z.Wfb @ np.zeros((FB_DIM, 1)))
                    ok = ok and np.array_equal(st.ravel(), outz[t])
                if not ok:
                    viol.append(_viol("zero_gain:trajectory", "gain 0 trajectory is not the noiseless recurrence", dict(sc, seed_kind=seed_kind)))
            # datasets
            for fn, key in ((lambda sd: ds.mackey_glass(25, seed=sd), "mackey_glass"), (lambda sd: ds.narma(25, seed=sd), "narma")):
                a = fn(s)
                _junk(rng)
                b = fn(s)
                c = fn(np.random.default_rng(s))
                d0 = fn(None)
                rand_generator().random(3)
                d1 = fn(None)
                e = fn(s2)
                ev += 6
                if not _bytes_equal(a, b) or not _bytes_equal(a, c):
                    viol.append(_viol("dataset:" + key, "%s with the same seed (int / fresh generator) differs" % key, sc))
                if not _bytes_equal(d0, d1):
                    viol.append(_viol("dataset:%s-default" % key, "%s with the default seed depends on history" % key, sc))
                if _bytes_equal(a, e):
                    viol.append(_viol("different:" + key, "%s: seeds %d and %d give the same series" % (key, s, s2), sc))
                # the default seed of the dataset module: a call without seed is the call with seed=<current default>, now and after
                # every later datasets.set_seed (whatever was generated, or cached, before)
                keep = _seed._DEFAULT_SEED
                try:
                    ds.set_seed(s)
                    f0 = fn(None)
                    ds.set_seed(s2)
                    f1 = fn(None)
                    ds.set_seed(s)
                    f2 = fn(None)
                    ev += 3
                    if not _bytes_equal(f0, a) or not _bytes_equal(f1, e) or not _bytes_equal(f2, a):
                        viol.append(_viol("dataset:%s-default-seed-ignored" % key, "%s() without seed after datasets.set_seed(%d) / set_seed(%d) / set_seed(%d) "
                                          "is not the series of that seed (equal to seed=%d: %s, seed=%d: %s, back to seed=%d: %s)"
                                          % (key, s, s2, s, s, _bytes_equal(f0, a), s2, _bytes_equal(f1, e), s, _bytes_equal(f2, a)), sc))
                finally:
                    _seed._DEFAULT_SEED = keep
        # (b2) every node class with a seed argument, global generator perturbed between the two builds
        for rep in range(ctx.n(4, 30) * scale):
            s = rng.choice(SEEDS)
            s2 = rng.choice([x for x in SEEDS if x != s])
            for klass in ("Reservoir", "IPReservoir", "ESN"):
                sc = {"check": "family", "klass": klass, "seed": s}
                pre = "" if klass == "Reservoir" else klass + ":"
                a = _family_build(klass, s)
                _perturb(rng)
                b = _family_build(klass, s)
                g1 = _family_build(klass, np.random.default_rng(s))
                _perturb(rng)
                g2 = _family_build(klass, np.random.default_rng(s))
                d = _family_build(klass, s2)
                ev += 5
                for comp in a:
                    if comp == "trajectory" and any(a[c] != b[c] or g1[c] != g2[c] for c in ("W", "Win", "bias", "Wfb")):
                        continue
                    if a[comp] != b[comp]:
                        viol.append(_viol("seeded:%s%s" % (pre, comp), "two %s(seed=%d) differ in %s after the global generator was used/reseeded"
                                          % (klass, s, comp), sc, a[comp], b[comp]))
                    if g1[comp] != g2[comp]:
                        viol.append(_viol("generator:%s%s" % (pre, comp), "two %s built with fresh default_rng(%d) differ in %s" % (klass, s, comp),
                                          sc, g1[comp], g2[comp]))
                for comp in ("W", "trajectory"):
                    if a[comp] == d[comp]:
                        viol.append(_viol("different:%s%s" % (pre, comp), "%s: seeds %d and %d give the same %s" % (klass, s, s2, comp), sc))
                if klass == "ESN":      # the keyword route must build the reservoir Reservoir(seed=s) builds
                    r = _family_build("Reservoir", s)
                    ev += 1
                    for comp in ("W", "Win", "bias", "Wfb"):
                        if a[comp] != r[comp]:
                            viol.append(_viol("esn-vs-reservoir:" + comp, "ESN(units=..., seed=%d).reservoir.%s differs from Reservoir(seed=%d).%s"
                                              % (s, comp, s, comp), sc, r[comp], a[comp]))
            # a seed partially applied to an initializer (W=normal(seed=3), ...) and no node seed
            cu = []
            for _ in range(2):
                cu.append(_curried_build(s))
                _perturb(rng)
            ev += 2
            for comp in cu[0]:
                if cu[0][comp] != cu[1][comp]:
                    viol.append(_viol("initializer:curried-seed-erased", "Reservoir(W=normal(seed=s), Win=bernoulli(seed=s), ...) without a node seed: "
                                      "%s is drawn from the global generator (the curried seed is erased by seed=None)" % comp,
                                      {"check": "curried", "seed": s, "component": comp}, cu[0][comp], cu[1][comp]))
                    break
        # (b3) auto-name counter: the same script under set_seed, with auto-named nodes, at two positions of the name counter
        v = _name_counter_probe()
        ev += 2
        if v:
            viol.append(v)
        # (b4) two ScikitLearnNodes built from ONE model_hypers dict: each must take its random state from the global seed in force
        # when IT is built (the node built second equals the same node built alone), and the caller's dict is left alone
        v = _sklearn_shared_hypers_probe(rng.choice(SEEDS), rng.choice(SEEDS))
        ev += 2
        if v:
            viol.append(v)
        # (b5) a copy of a seeded noisy reservoir (Node.copy / deepcopy) that is run first: the original still produces the trajectory
        # its seed determines (the copy owns its generator)
        v = _copy_noise_probe(rng.choice(SEEDS), rng)
        ev += 2
        if v:
            viol.append(v)
        # (c) set_seed scripts run twice (with junk in between), and with another seed
        for rep in range(ctx.n(3, 20) * scale):
            s = rng.choice(SEEDS)
            a = _script(s, True)
            _junk(rng)
            b = _script(s, True)
            c = _script(rng.choice([x for x in SEEDS if x != s]), True)
            ev += 3
            for comp in a:
                if a[comp] != b[comp]:
                    viol.append(_viol("set_seed:" + comp, "script under rpy.set_seed(%d) run twice: %s differs" % (s, comp), {"check": "script", "seed": s}, a[comp], b[comp]))
                if comp in ("W", "trajectory", "trajectory2", "sklearn:SGDRegressor", "sklearn:MLPRegressor") and a[comp] == c[comp]:
                    viol.append(_viol("different:set_seed-" + comp, "scripts under different global seeds give the same %s" % comp, {"check": "script", "seed": s}))
    _seed._DEFAULT_SEED = 5555
    # one violation per key is enough for the report
    seen, out = set(), []
    for v in viol:
        if v["key"] not in seen:
            seen.add(v["key"])
            out.append(v)
    return {"evaluations": ev, "violations": out,
            "rule": "byte comparison (SHA-256) on the real library: seeded components across interleaved unrelated constructions, "
                    "fresh generators, the three noises, gain 0 vs the hand-computed noiseless recurrence and generator state, "
                    "datasets, set_seed scripts run twice (incl. ScikitLearnNode SGD/MLP), different seeds"}


def replay(payload):
    sc = payload.get("scenario") or {}
    if "ops" in sc:
        v = _judge_history(sc)
        return {"violates": bool(v), "detail": v}
    if sc.get("check") == "generator-reuse":
        v = _generator_reuse_probe()
        return {"violates": bool(v), "detail": v}
    if sc.get("check") == "entry-order":
        v = _entry_order_probe()
        return {"violates": bool(v), "detail": v}
    if sc.get("check") == "esn-noise-schedule":
        v = _esn_noise_schedule_probe()
        return {"violates": bool(v), "detail": v}
    if sc.get("check") == "name-counter":
        v = _name_counter_probe()
        return {"violates": bool(v), "detail": v}
    # fixed-shape checks: rerun the oracle and look for the same key
    res = oracle(core.Ctx("C14", "quick", 0))
    hit = [v for v in res["violations"] if v["key"] == payload.get("key")]
    return {"violates": bool(hit), "detail": hit[:1]}
