"""C17 — NVAR, Delay and Concat window functions: correspondence with model/Windows.v and implementation oracle."""
import itertools
from fractions import Fraction

import numpy as np

from vlib import core
from vlib.core import q, qmat, qvec, nat, coqstr, coqlist

IMPORTS = "From Coq Require Import List QArith String.\nFrom RV Require Import base.Num run.RunC17.\nImport ListNotations.\nOpen Scope Q_scope."
TRUSTED = ["itertools.combinations_with_replacement is compared with the model's cwr on every run (not assumed)"]
ASSUMPTIONS = ["inputs are small dyadic rationals (exact in float64 for Delay/Concat and for NVAR products of order <= 3)"]

_uid = [0]


def uname(prefix):
    _uid[0] += 1
    return "%s_%d" % (prefix, _uid[0])


def rpy():
    import reservoirpy
    reservoirpy.verbosity(0)
    return reservoirpy


def rand_rows(rng, T, dim, lim=8, maxpow=2):
    return [[core.dyadic(rng, lim, maxpow) for _ in range(dim)] for _ in range(T)]


def farr(rows):
    return np.array([[float(Fraction(v)) for v in r] for r in rows], dtype=float).reshape(len(rows), -1)


# ------------------------------------------------------------------------------------------ scenarios
def gen_cases(rng, n):
    cases = []
    for i in range(n):
        kind = ["delay", "nvar", "concat", "fanin", "cwr", "fanin2"][i % 6] if i >= 10 else ["delay", "nvar"][i % 2]
        if kind == "delay":
            d = rng.choice([0, 1, 1, 2, 3, 4, 5])
            dim = rng.randint(1, 3)
            T = rng.randint(1, 15)
            init = rand_rows(rng, d, dim) if (d > 0 and rng.random() < 0.6) else None
            # a quarter of the inputs are integer-typed arrays (the initial values stay fractional)
            int_in = rng.random() < 0.25
            X = [[Fraction(rng.randint(-9, 9)) for _ in range(dim)] for _ in range(T)] if int_in else rand_rows(rng, T, dim)
            cases.append({"kind": "delay", "delay": d, "dim": dim, "init": init, "X": X, "int_input": int_in,
                          "mode": rng.choice(["run", "run", "calls", "scribble"])})
        elif kind == "nvar":
            delay, order, strides = rng.randint(1, 3), rng.randint(1, 3), rng.randint(1, 3)
            dim = rng.randint(1, 3 if delay * order <= 4 else 2)
            T = rng.randint(1, 12)
            int_in = rng.random() < 0.2
            X = [[Fraction(rng.randint(-5, 5)) for _ in range(dim)] for _ in range(T)] if int_in else rand_rows(rng, T, dim, lim=6, maxpow=1)
            if rng.random() < 0.3 and T >= 4:
                # silent stretches: null input rows every `period` steps, so that at some steps every SELECTED row of the window (hence the
                # whole output) is zero while the rows lying between the strides are not -- they must still come out later
                period = strides if strides > 1 and rng.random() < 0.7 else rng.randint(1, 2)
                ph = rng.randrange(period)
                X = [[Fraction(0)] * dim if t % period == ph else row for t, row in enumerate(X)]
            cases.append({"kind": "nvar", "delay": delay, "order": order, "strides": strides, "dim": dim, "X": X, "int_input": int_in,
                          "mode": rng.choice(["run", "run", "calls", "scribble"])})
        elif kind == "concat":
            k = rng.randint(2, 4)
            cases.append({"kind": "concat", "data": [rand_rows(rng, 1, rng.randint(1, 3))[0] for _ in range(k)]})
        elif kind == "fanin":
            k = rng.randint(2, 4)
            pool = ["a", "ab", "b", "ba", "a_", "aZ", "c1", "c10", "c2", "B", "zz"]
            names = rng.sample(pool, k)
            cases.append({"kind": "fanin", "child": rng.choice(["c", "aa", "_x", "Z"]), "tag": "s%d" % i,
                          "parents": [[nm, rng.randint(1, 2), [core.dyadic(rng, 4, 1), core.dyadic(rng, 4, 1)]] for nm in names],
                          "x": rand_rows(rng, 1, 2)[0]})
        elif kind == "fanin2":
            # two receivers with different sender sets whose names, joined, read the same: {X, YZ} and {XY, Z}
            x, y, z = rng.choice(["p", "a", "k_"]), rng.choice(["q", "b", "0"]), rng.choice(["r", "c", "z9"])
            mkp = lambda nm: [nm, rng.randint(1, 2), [core.dyadic(rng, 4, 1), core.dyadic(rng, 4, 1)]]
            cases.append({"kind": "fanin2", "tag": "t%d" % i, "x": rand_rows(rng, 1, 2)[0], "names": [x, y, z],
                          "set1": [mkp("X"), mkp("YZ")], "set2": [mkp("XY"), mkp("Z")], "build": rng.choice(["merge", "edges"])})
        else:
            cases.append({"kind": "cwr", "n": rng.randint(0, 7), "k": rng.randint(0, 3)})
    return cases


def _drive(node, Xa, mode):
    """run: one run() call.  calls: step-by-step call(), the returned arrays are RETAINED and only read at the end (an output must not
    be a view of a buffer the node goes on writing).  scribble: like calls, but the caller overwrites every returned array in place right
    after copying its value (a returned array must not be shared with the node's memory)."""
    if mode == "run":
        return node.run(Xa)
    kept, vals = [], []
    for t in range(len(Xa)):
        o = node.call(Xa[t:t + 1])
        if mode == "scribble":
            vals.append(np.array(o, dtype=float).reshape(1, -1))
            try:
                o[...] = 1000.0 + t
            except (ValueError, TypeError):
                pass
        else:
            kept.append(o)
    rows = vals if mode == "scribble" else [np.array(o, dtype=float).reshape(1, -1) for o in kept]
    return np.vstack(rows)


def run_impl(c):
    """Run one scenario on reservoirpy; returns the observation dict."""
    rpy()
    from reservoirpy.nodes import NVAR, Concat, Delay, Input
    from reservoirpy.node import Node
    if c["kind"] == "delay":
        init = None if c["init"] is None else farr(c["init"])
        node = Delay(delay=c["delay"], initial_values=init, name=uname("dly"))
        Xa = farr(c["X"]).astype(np.int64) if c.get("int_input") else farr(c["X"])
        out = _drive(node, Xa, c.get("mode", "run"))
        buf = [np.asarray(b).ravel().tolist() for b in node.buffer]
        # the caller's array of initial values is still what it was (outputs were scribbled on in "scribble" mode)
        init_kept = init is None or bool(np.array_equal(init, farr(c["init"])))
        return {"out": out.tolist(), "buf": buf, "init_kept": init_kept}
    if c["kind"] == "nvar":
        node = NVAR(delay=c["delay"], order=c["order"], strides=c["strides"], name=uname("nvar"))
        Xa = farr(c["X"]).astype(np.int64) if c.get("int_input") else farr(c["X"])
        out = _drive(node, Xa, c.get("mode", "run"))
        return {"out": out.tolist(), "store": np.asarray(node.store).tolist()}
    if c["kind"] == "concat":
        node = Concat(name=uname("cat"))
        out = node.call([farr([r]) for r in c["data"]])
        return {"out": np.asarray(out).ravel().tolist()}
    if c["kind"] == "fanin":
        # parents are scalings/affine maps of the common input; child is the identity on its (concatenated) input
        def mk(nm, width, coefs):
            def fwd(node, x):
                return np.concatenate([x[:, :1] * float(Fraction(coefs[j])) for j in range(width)], axis=1)
            def init(node, x=None, **kw):
                node.set_input_dim(x.shape[1]); node.set_output_dim(width)
            return Node(forward=fwd, initializer=init, name=nm)
        tag = c["tag"] + "_%d_" % _uid[0]
        _uid[0] += 1
        src = Input(name=tag + "in")
        ps = [mk(tag + nm, w, co) for nm, w, co in c["parents"]]
        def cf(node, x):
            return x
        def ci(node, x=None, **kw):
            node.set_input_dim(x.shape[1]); node.set_output_dim(x.shape[1])
        child = Node(forward=cf, initializer=ci, name=tag + c["child"])
        # one multi-input link; the listed order is the order in which the edges are created
        model = (src >> ps) >> child
        out = model.call(farr([c["x"]]))
        cats = [n.name for n in model.nodes if isinstance(n, Concat)]
        return {"out": np.asarray(out).ravel().tolist(), "tag": tag, "concat": cats}
    if c["kind"] == "fanin2":
        from reservoirpy.model import Model
        def mk(nm, width, coefs):
            def fwd(node, x):
                return np.concatenate([x[:, :1] * float(Fraction(coefs[j])) for j in range(width)], axis=1)
            def init(node, x=None, **kw):
                node.set_input_dim(x.shape[1]); node.set_output_dim(width)
            return Node(forward=fwd, initializer=init, name=nm)
        def ident(nm):
            def ci(node, x=None, **kw):
                node.set_input_dim(x.shape[1]); node.set_output_dim(x.shape[1])
            return Node(forward=lambda node, x: x, initializer=ci, name=nm)
        T = c["tag"] + "u%d" % _uid[0]
        _uid[0] += 1
        x, y, z = c["names"]
        real = {"X": x + T, "YZ": y + z + T, "XY": x + T + y, "Z": z + T}      # X+YZ == XY+Z as strings
        src = Input(name="in" + T)
        s1 = [mk(real[nm], w, co) for nm, w, co in c["set1"]]; s2 = [mk(real[nm], w, co) for nm, w, co in c["set2"]]
        r1, r2 = ident("r1" + T), ident("r2" + T)
        if c["build"] == "merge":
            model = (src >> s1) & (src >> s2) & Model(s1 + s2 + [r1, r2], [(p, r1) for p in s1] + [(p, r2) for p in s2])
        else:
            model = Model([src] + s1 + s2 + [r1, r2], [(src, p) for p in s1 + s2] + [(p, r1) for p in s1] + [(p, r2) for p in s2])
        res = model.call(farr([c["x"]]))
        feeds = {}
        for a, b in model.edges:
            if isinstance(a, Concat):
                feeds.setdefault(b.name, []).append(a.name)
        return {"out1": np.asarray(res[r1.name]).ravel().tolist(), "out2": np.asarray(res[r2.name]).ravel().tolist(), "real": real,
                "cat1": feeds.get(r1.name, []), "cat2": feeds.get(r2.name, [])}
    if c["kind"] == "cwr":
        return {"idx": [list(t) for t in itertools.combinations_with_replacement(range(c["n"]), c["k"])]}
    raise ValueError(c["kind"])


def to_coq(c, o):
    if c["kind"] == "delay":
        init = c["init"] if c["init"] is not None else [[0] * c["dim"] for _ in range(c["delay"])]
        return "chk_delay %s %s %s %s" % (qmat(init), qmat(c["X"]), qmat(o["out"]), qmat(o["buf"]))
    if c["kind"] == "nvar":
        return "chk_nvar %s %s %s %s %s %s %s" % (nat(c["delay"]), nat(c["order"]), nat(c["strides"]), nat(c["dim"]),
                                                  qmat(c["X"]), qmat(o["out"]), qmat(o["store"]))
    if c["kind"] == "concat":
        return "chk_concat %s %s" % (qmat(c["data"]), qvec(o["out"]))
    if c["kind"] == "fanin":
        x0 = c["x"][0]
        ps = ["(%s, %s)" % (coqstr(o["tag"] + nm), qvec([Fraction(x0) * Fraction(co[j]) for j in range(w)])) for nm, w, co in c["parents"]]
        if len(o["concat"]) != 1:
            return "false"
        # the parents' common child is the automatically inserted Concat node, whose (generated) name is observed
        return "chk_fanin %s %s %s" % (coqstr(o["concat"][0]), coqlist(ps), qvec(o["out"]))
    if c["kind"] == "fanin2":
        x0 = c["x"][0]
        terms = []
        for key, cats, out in (("set1", o["cat1"], o["out1"]), ("set2", o["cat2"], o["out2"])):
            if len(cats) != 1:
                return "false"
            ps = ["(%s, %s)" % (coqstr(o["real"][nm]), qvec([Fraction(x0) * Fraction(co[j]) for j in range(w)])) for nm, w, co in c[key]]
            terms.append("chk_fanin %s %s %s" % (coqstr(cats[0]), coqlist(ps), qvec(out)))
        return "andb (%s) (%s)" % tuple(terms)
    if c["kind"] == "cwr":
        return "chk_cwr %s %s %s" % (nat(c["n"]), nat(c["k"]),
                                     coqlist([coqlist([nat(i) for i in t]) for t in o["idx"]]))


def nontrivial(c, o):
    if c["kind"] == "delay":
        return c["delay"] >= 1 and len(c["X"]) > c["delay"] and any(v != 0 for r in c["X"] for v in r)
    if c["kind"] == "nvar":
        return len(c["X"]) > c["strides"] and any(v != 0 for r in o["out"] for v in r)
    if c["kind"] == "concat":
        return True
    if c["kind"] in ("fanin", "fanin2"):
        return True if c["kind"] == "fanin2" else len(c["parents"]) >= 2
    return c["n"] >= 2 and c["k"] >= 2


def jsonable(c):
    import json
    return json.loads(json.dumps(c, default=lambda f: str(f)))


def pregen(ctx):
    """tie (T): re-translate nvar.py / delay.py / concat.py forward functions of the tree under test into coq/gen/Gen_windows.v"""
    from vlib import gen
    return gen.pregen_units(["windows"])


def correspondence(ctx):
    rng = ctx.rng("corr")
    cases = gen_cases(rng, ctx.n(150, 2000))
    terms, keep, dist, nt = [], [], {}, set()
    for c in cases:
        try:
            o = run_impl(c)
        except Exception as e:  # the implementation rejected / crashed on a valid scenario
            o = None
            err = repr(e)
        if o is None:
            terms.append("false")
            keep.append({"scenario": jsonable(c), "impl_error": err})
            continue
        terms.append(to_coq(c, o))
        keep.append({"scenario": jsonable(c), "observed": jsonable(o)})
        dist[c["kind"]] = dist.get(c["kind"], 0) + 1
        if nontrivial(c, o):
            nt.add(repr(jsonable(c)))
    failing, err = core.run_cases(ctx.pid, IMPORTS, terms)
    return {"evaluations": len(cases), "distinct_nontrivial": len(nt),
            "rule": "seeded scenarios over Delay (delay 0-5, dim 1-3, T<=15, with/without initial values), NVAR (delay,order,strides 1-3), "
                    "Concat tuples, fan-in inside a Model (names chosen so that key order != parent-name order) and itertools cwr; "
                    "non-trivial = sequence longer than the delay/stride with a non-zero value, >=2 parents, n,k>=2; distinct by scenario text",
            "samples": [keep[0], keep[1], keep[min(12, len(keep) - 1)]],
            "distribution": dist, "tolerance": "1e-9 relative (qclose)",
            "failing": [dict(keep[i], index=i) for i in failing], "error": err}


# ------------------------------------------------------------------------------------------ oracle on the implementation
def judge(case):
    c = case["scenario"]
    return _judge(c)


def _viol(key, what, c, expected=None, observed=None):
    return {"key": key, "what": what, "scenario": jsonable(c), "expected": jsonable(expected), "observed": jsonable(observed)}


def _judge(c):
    """Decide the property's statement directly on the real code (no Coq model involved)."""
    try:
        o = run_impl(c)
    except Exception as e:
        return _viol("%s:exception" % c["kind"], "valid %s scenario raises %r" % (c["kind"], e), c)
    if c["kind"] == "delay":
        if not o.get("init_kept", True):
            return _viol("delay:initial-values-aliased", "overwriting an array returned by Delay changed the caller's initial_values array "
                         "(outputs are views of it)", c)
        X = [[Fraction(v) for v in r] for r in c["X"]]
        init = c["init"] if c["init"] is not None else [[0] * c["dim"]] * c["delay"]
        d = c["delay"]
        for t in range(len(X)):
            exp = X[t - d] if t >= d else init[d - 1 - t]
            if [float(Fraction(v)) for v in exp] != o["out"][t]:
                return _viol("delay:output", "Delay output at step %d is not the input of %d steps earlier / the initial value" % (t, d),
                             c, [float(Fraction(v)) for v in exp], o["out"][t])
    elif c["kind"] == "nvar":
        X = farr(c["X"])
        k, s, n, dim = c["delay"], c["strides"], c["order"], c["dim"]
        for t in range(len(X)):
            lin = np.concatenate([X[t - j * s] if t - j * s >= 0 else np.zeros(dim) for j in range(k)])
            mono = [np.prod(lin[list(ix)]) for ix in itertools.combinations_with_replacement(range(k * dim), n)]
            exp = np.concatenate([lin, mono])
            if exp.shape != np.asarray(o["out"][t]).shape or not np.allclose(exp, o["out"][t], rtol=1e-12, atol=1e-12):
                return _viol("nvar:output", "NVAR output at step %d differs from [window ; monomials]" % t, c, exp.tolist(), o["out"][t])
    elif c["kind"] == "concat":
        exp = [float(Fraction(v)) for r in c["data"] for v in r]
        if exp != o["out"]:
            return _viol("concat:order", "Concat does not output its inputs side by side in the given order", c, exp, o["out"])
    elif c["kind"] == "fanin":
        # one fixed order: independent of link order
        c2 = dict(c, parents=list(reversed(c["parents"])), tag=c["tag"] + "r")
        o2 = run_impl(c2)
        if o2["out"] != o["out"]:
            return _viol("fanin:order-depends-on-link-order", "fan-in concatenation order depends on the order of linking", c, o["out"], o2["out"])
        vals = sorted(float(Fraction(c["x"][0]) * Fraction(co[j])) for nm, w, co in c["parents"] for j in range(w))
        if sorted(o["out"]) != vals:
            return _viol("fanin:content", "fan-in concatenation does not contain each parent's output exactly once", c, vals, o["out"])
    elif c["kind"] == "fanin2":
        for key, out in (("set1", o["out1"]), ("set2", o["out2"])):
            vals = sorted(float(Fraction(c["x"][0]) * Fraction(co[j])) for nm, w, co in c[key] for j in range(w))
            if sorted(out) != vals:
                return _viol("fanin:content", "receiver %s of a model with two fan-ins does not get exactly its own senders' outputs once each" % key, c, vals, out)
    return None


def oracle(ctx, scale=1):
    rng = ctx.rng("oracle")
    cases = [c for c in gen_cases(rng, ctx.n(120, 1500) * scale) if c["kind"] != "cwr"]
    out = []
    for c in cases:
        v = _judge(c)
        if v:
            out.append(v)
    return {"evaluations": len(cases), "violations": out,
            "rule": "direct formulas (x[t-d], strided window + itertools monomials, link-order independence) on the real nodes"}


def replay(payload):
    v = _judge(payload["scenario"])
    return {"violates": bool(v), "detail": v}
