"""C13 — weight initialisers honour shape, density, distribution, scaling and seed.

correspondence(ctx): runs reservoirpy.mat_gen and compares with coq/model/MatGen.v (via coq/run/RunC13.v):
    calls   Initializer.__call__ histories on a heap of initializer objects (recording function + the real module-level ones)
    sr      _scale_spectral_radius: observed unscaled same-seed draw + its spectral radius -> predicted rescaled matrix
    is      _scale_inputs with a scalar / per-column factors
    ring / line   index formulas, entrywise
    degree  _random_degree COO assembly from the replayed answers of numpy's Generator.choice
oracle(ctx): decides the statement of C13 directly on the real initialisers (no Coq model involved).
"""
import copy
import json
import warnings
from fractions import Fraction
from unittest import mock

import numpy as np

from vlib import core
from vlib.core import q, qmat, qvec, nat, coqstr, coqlist, coqbool

IMPORTS = ("From Coq Require Import List ZArith QArith String.\nFrom RV Require Import base.Num model.MatGen run.RunC13.\n"
           "Import ListNotations.\nOpen Scope Q_scope.")
TRUSTED = [
    "numpy Generator / scipy.stats / scipy.sparse.random draws are oracles: the model receives the OBSERVED unscaled same-seed "
    "draw; density, value support, and 'pure function of the seed' are checked on the implementation only",
    "spectral radius is an oracle value (reservoirpy.observables.spectral_radius: ARPACK for sparse, LAPACK eig for dense); "
    "theorem C13_sr_scaling assumes its homogeneity rho(c.W) = |c|.rho(W) (Section hypothesis rho_hom)",
    "Generator.choice(bound, size=d, replace=False) is the Section hypothesis choice_ok (NoDup, < bound, length d); the "
    "replayed answers are checked against it on every degree case",
    "scipy.sparse.coo_matrix((data,(i,j))).asformat(...) sums duplicate positions (model: coo_get / coo_dense)",
]
ASSUMPTIONS = [
    "kwargs values in Initializer.__call__ histories are ints / None (the state machine does not inspect them except 'is None')",
    "floats are passed to Coq as exact rationals; the model computes in Q, the library in float64 (tolerance 1e-9)",
    "sr requests on an exactly nilpotent draw whose library radius estimate is solver noise (> 1e-12, not reproducible between two "
    "calls on this scipy) are skipped in the correspondence; the oracle decides them (open finding sr:null-radius-misestimated-blown-up)",
    "requests that make scipy's eigs itself raise 'ARPACK error -9: Starting vector is zero' (W@ones == 0, pre-fix trees only) "
    "are counted as environment skips, not as violations",
    "per-column input_scaling factors are float64 arrays whatever the draw's dtype: the result must keep the requested dtype",
    "every seeded request is made with one of the accepted seed forms (int, np.int64, Generator, RandomState, None after set_seed); "
    "each call receives a fresh, equal seed object",
]

EPS = 1e-8
INITS = ["uniform", "normal", "bernoulli", "random_sparse", "fast_spectral_initialization", "ring", "line", "orthogonal",
         "zeros", "ones"]
RANDOM_FAMILY = ["uniform", "normal", "bernoulli", "random_sparse"]


def mg():
    import reservoirpy
    reservoirpy.verbosity(0)
    from reservoirpy import mat_gen
    return mat_gen


def jsonable(c):
    return json.loads(json.dumps(c, default=lambda f: str(f)))


def fl(x):
    return float(Fraction(x))


def dense(w):
    return np.asarray(w.toarray() if hasattr(w, "toarray") else w)


def pykw(kw):
    """scenario kwargs (JSON) -> python kwargs"""
    out = {}
    for k, v in kw.items():
        if k == "dtype":
            out[k] = np.dtype(v).type
        elif k == "weights_int":
            continue
        elif k == "weights" and kw.get("weights_int"):
            out[k] = np.array([int(Fraction(x)) for x in v], dtype=np.int64)
        elif k in ("weights", "input_scaling_vec"):
            out[k] = np.array([fl(x) for x in v])
        elif isinstance(v, str) and k not in ("sparsity_type", "direction", "dist"):
            out[k] = fl(v)
        else:
            out[k] = v
    return out


def env_skip(e):
    s = "%s: %s" % (type(e).__name__, e)
    return "Starting vector is zero" in s


def tiny_sparse_error(e):
    return "Cannot use scipy.linalg.eig for sparse A" in ("%s: %s" % (type(e).__name__, e))


# =========================================================================================== correspondence
# ------------------------------------------------------------------ calls
ERRS = [("Spectral radius rescaling is not supported", "ESrNotAuthorized"),
        ("Input scaling is not supported", "EInputScalingNotAuthorized"),
        ("mutually exclusive", "EBothScalings")]
KEYS = ["sr", "input_scaling", "connectivity", "seed", "degree", "dtype", "foo", "sr", "input_scaling", "seed"]
DEPR = ["proba", "typefloat", "N", "dim_input"]


def gen_calls(rng, real):
    nops = rng.randint(1, 7)
    ops = []
    for _ in range(nops):
        nk = rng.choice([0, 1, 1, 2, 2, 3])
        kw = []
        for _ in range(nk):
            k = rng.choice(KEYS) if rng.random() < 0.85 else rng.choice(DEPR)
            if real and k in ("N", "dim_input"):
                k = "proba"
            if k in [a for a, _ in kw]:
                continue
            v = None if rng.random() < 0.2 else rng.randint(0, 5)
            kw.append([k, v])
        if real:
            shape = []
            if not kw:
                kw = [["seed", rng.randint(0, 5)]]
        else:
            shape = rng.choice([[], [], [3], [2, 4], [2, 3, 4]])
        ops.append([rng.randint(0, 50), shape, kw])
    if real:
        return {"kind": "calls", "real": rng.choice(INITS), "ops": ops}
    return {"kind": "calls", "real": None, "flags": [rng.random() < 0.75, rng.random() < 0.75, rng.random() < 0.8], "ops": ops}


def pv(v):
    return "None" if v is None else "(Some (%d)%%Z)" % v


def ckw(items):
    return coqlist(["(%s, %s)" % (coqstr(k), pv(v)) for k, v in items])


def cinit(kw, flags):
    return "(mkInit 0%%nat %s %s %s %s)" % (ckw(kw), coqbool(flags[0]), coqbool(flags[1]), coqbool(flags[2]))


def run_calls(c):
    m = mg()

    def rec(*shape, **kwargs):
        return ("raw", rec, shape, kwargs)

    def rec_sr(w_init, shape, sr, **kwargs):
        return ("sr", w_init, shape, sr, kwargs)

    def rec_is(w_init, shape, input_scaling, **kwargs):
        return ("is", w_init, shape, input_scaling, kwargs)

    if c["real"]:
        i0 = getattr(m, c["real"])
        before = copy.deepcopy(i0._kwargs)
    else:
        i0 = m.Initializer(rec, autorize_sr=c["flags"][0], autorize_input_scaling=c["flags"][1], autorize_rescaling=c["flags"][2])
    heap, results, refs = [i0], [], []
    with mock.patch.object(m, "_scale_spectral_radius", rec_sr), mock.patch.object(m, "_scale_inputs", rec_is):
        for ref, shape, kw in c["ops"]:
            r = ref % len(heap)
            refs.append(r)
            obj = heap[r]
            try:
                res = obj(*shape, **dict((k, v) for k, v in kw))
            except ValueError as e:
                tag = [t for s, t in ERRS if s in str(e)]
                results.append("(Some (RErr %s))" % tag[0] if tag else "None")
                continue
            if isinstance(res, m.Initializer):
                if res is obj or any(res is h for h in heap):
                    results.append("None")   # a partial application must be a new object
                    continue
                heap.append(res)
                fl_ = [res._autorize_sr, res._autorize_input_scaling, res._autorize_rescaling]
                results.append("(Some (RInit %s))" % cinit(list(res._kwargs.items()), fl_))
            elif isinstance(res, tuple) and res[1] is obj._func:
                post = {"raw": "PNone", "sr": "(PSr %s)", "is": "(PInputScaling %s)"}[res[0]]
                if res[0] != "raw":
                    post = post % pv(res[3])
                results.append("(Some (RMat (mkDesc 0%%nat %s %s %s)))" % (
                    coqlist([pv(s) for s in res[2]]), post, ckw(list(res[-1].items()))))
            else:
                results.append("None")
    hp = [cinit(list(h._kwargs.items()), [h._autorize_sr, h._autorize_input_scaling, h._autorize_rescaling]) for h in heap]
    o = {"refs": refs, "results": results, "heap": hp}
    if c["real"]:
        o["module_kwargs_unchanged"] = (before == i0._kwargs == {})
    return o


def calls_term(c, o):
    if c["real"]:
        m = mg()
        i0 = getattr(m, c["real"])
        flags = [i0._autorize_sr, i0._autorize_input_scaling, i0._autorize_rescaling]
        if not o["module_kwargs_unchanged"]:
            return "false"
    else:
        flags = c["flags"]
    ops = coqlist(["(%s, %s, %s)" % (nat(r), coqlist([pv(s) for s in shape]), ckw(kw))
                   for r, (_, shape, kw) in zip(o["refs"], c["ops"])])
    return "chk_calls %s %s %s %s" % (cinit([], flags), ops, coqlist(o["results"]), coqlist(o["heap"]))


# ------------------------------------------------------------------ numeric scenarios
def rand_kw(rng, init, shape, allow_dtype=True):
    """valid keyword arguments (JSON form) for initialiser [init] and shape."""
    kw = {}
    m_, n_ = (shape + shape)[:2] if len(shape) == 1 else shape[:2]
    two_d = len(shape) == 2 or init == "fast_spectral_initialization"
    if init in RANDOM_FAMILY + ["fast_spectral_initialization"]:
        mode = rng.choice(["dense", "conn", "conn", "degree"]) if two_d else rng.choice(["dense", "conn"])
        if mode == "conn":
            kw["connectivity"] = rng.choice([0.5, 0.3, 0.25, 0.2, 0.1, 0.75, 0.05])
        elif mode == "degree":
            direction = rng.choice(["in", "out"])
            bound = m_ if direction == "out" else n_
            kw["degree"] = rng.randint(0 if rng.random() < 0.1 else 1, bound)
            kw["direction"] = direction
        if two_d and rng.random() < 0.7:
            kw["sparsity_type"] = rng.choice(["csr", "csc", "coo", "dense"])
        if init == "uniform" and rng.random() < 0.5:
            lo = core.dyadic(rng, 8, 2)
            kw["low"], kw["high"] = str(lo), str(lo + abs(core.dyadic(rng, 8, 2)) + Fraction(1, 4))
        if init == "normal" and rng.random() < 0.5:
            kw["loc"], kw["scale"] = str(core.dyadic(rng, 4, 1)), str(abs(core.dyadic(rng, 4, 2)) + Fraction(1, 4))
        if init == "bernoulli" and rng.random() < 0.5:
            kw["p"] = rng.choice(["1/2", "1/4", "1", "0", "7/8"])
        if init == "random_sparse":
            kw["dist"] = rng.choice(["uniform", "norm", "custom_bernoulli"])
            if kw["dist"] == "uniform" and rng.random() < 0.6:
                kw["loc"], kw["scale"] = str(core.dyadic(rng, 4, 1)), str(abs(core.dyadic(rng, 4, 1)) + Fraction(1, 2))
            if kw["dist"] == "custom_bernoulli" and rng.random() < 0.6:
                kw["value"] = str(abs(core.dyadic(rng, 8, 2)) + Fraction(1, 4))
    elif init in ("ring", "line"):
        if rng.random() < 0.7:
            kw["sparsity_type"] = rng.choice(["csr", "csc", "coo", "dense"])
        if rng.random() < 0.4:
            k = shape[0] if init == "ring" else max(shape[0] - 1, 0)
            if rng.random() < 0.25:
                kw["weights"] = [str(rng.choice([-3, -2, -1, 1, 2, 3, 4])) for _ in range(k)]
                kw["weights_int"] = True
            else:
                kw["weights"] = [str(core.dyadic(rng, 8, 2) or Fraction(1, 2)) for _ in range(k)]
    if allow_dtype and rng.random() < 0.35:
        kw["dtype"] = rng.choice(["float32", "float64"])
    return kw


SEED_FORMS = ["int", "int", "np.int64", "generator", "randomstate", "global"]


def mkseed(form, v):
    """a fresh seed object of the given accepted form, equal for equal v"""
    if form == "np.int64":
        return np.int64(v)
    if form == "generator":
        return np.random.default_rng(v)
    if form == "randomstate":
        return np.random.RandomState(v)
    if form == "global":       # seed=None after reservoirpy.set_seed(v)
        import reservoirpy
        reservoirpy.set_seed(int(v))
        return None
    return int(v)


def seed_factory(c):
    v = c.get("seed")
    if v is None:
        return None
    form = c.get("seed_form", "int")
    return lambda: mkseed(form, v)


def call_init(init, shape, kw, seed=None, **extra):
    m = mg()
    k = pykw(kw)
    k.update(extra)
    if callable(seed):
        seed = seed()
    if seed is not None:
        k["seed"] = seed
    args = shape[:1] if init == "fast_spectral_initialization" else shape
    with warnings.catch_warnings():
        warnings.simplefilter("ignore")
        return getattr(m, init)(*args, **k)


def gen_numeric(rng, kind):
    if kind == "sr":
        init = rng.choice(["uniform", "normal", "bernoulli", "random_sparse", "uniform", "normal", "ones", "ring", "line", "orthogonal"])
        n = rng.randint(1, 8)
        kw = rand_kw(rng, init, [n, n], allow_dtype=False)
        if kw.get("degree") == 0:
            kw["degree"] = 1
        return {"kind": "sr", "init": init, "shape": [n, n], "kw": kw, "seed": rng.randint(0, 10 ** 6),
                "seed_form": rng.choice(SEED_FORMS), "sr": str(abs(core.dyadic(rng, 12, 3)) + Fraction(1, 8))}
    if kind == "is":
        init = rng.choice(["uniform", "normal", "bernoulli", "random_sparse", "ones", "zeros", "ring", "line", "orthogonal"])
        if init in ("ring", "line", "orthogonal"):
            n = rng.randint(1, 7)
            shape = [n, n]
        else:
            shape = [rng.randint(1, 7), rng.randint(1, 7)]
        kw = rand_kw(rng, init, shape, allow_dtype=False)
        c = {"kind": "is", "init": init, "shape": shape, "kw": kw, "seed": rng.randint(0, 10 ** 6)}
        if rng.random() < 0.5:
            c["input_scaling"] = str(core.dyadic(rng, 12, 3))
        else:
            c["input_scaling_vec"] = [str(core.dyadic(rng, 12, 3)) for _ in range(shape[1])]
        return c
    if kind in ("ring", "line"):
        n = rng.randint(1, 10)
        kw = rand_kw(rng, kind, [n, n], allow_dtype=False)
        return {"kind": kind, "init": kind, "shape": [n, n], "kw": kw}
    if kind == "degree":
        init = rng.choice(["uniform", "normal", "bernoulli", "random_sparse"])
        m_, n_ = rng.randint(1, 9), rng.randint(1, 9)
        direction = rng.choice(["in", "out"])
        kw = rand_kw(rng, init, [m_, n_], allow_dtype=False)
        for k in ("connectivity", "sparsity_type"):
            kw.pop(k, None)
        kw["direction"] = direction
        kw["degree"] = rng.randint(0, m_ if direction == "out" else n_)
        return {"kind": "degree", "init": init, "shape": [m_, n_], "kw": kw, "seed": rng.randint(0, 10 ** 6)}
    raise ValueError(kind)


def run_numeric(c):
    m = mg()
    k = c["kind"]
    if k == "sr":
        from reservoirpy.observables import spectral_radius
        w0 = call_init(c["init"], c["shape"], c["kw"], seed_factory(c))
        with warnings.catch_warnings():
            warnings.simplefilter("ignore")
            rho = float(spectral_radius(w0))
        D0 = dense(w0).astype(float)
        if rho > 1e-12 and rho < 0.5 * np.abs(D0).max() * D0.shape[0] and exactly_nilpotent(D0):
            # the draw is nilpotent and the library's radius is solver noise, different at every call (scipy's ARPACK
            # restarts from random vectors): the value it will divide by can not be observed -> open finding, see oracle
            raise RuntimeError("Starting vector is zero / null-radius estimate is not reproducible (skip)")
        w = call_init(c["init"], c["shape"], c["kw"], seed_factory(c), sr=fl(c["sr"]))
        return {"W0": dense(w0).tolist(), "rho": rho, "W": dense(w).tolist()}
    if k == "is":
        w0 = call_init(c["init"], c["shape"], c["kw"], c.get("seed"))
        if "input_scaling" in c:
            w = call_init(c["init"], c["shape"], c["kw"], c.get("seed"), input_scaling=fl(c["input_scaling"]))
        else:
            w = call_init(c["init"], c["shape"], c["kw"], c.get("seed"),
                          input_scaling=np.array([fl(x) for x in c["input_scaling_vec"]]))
        return {"W0": dense(w0).tolist(), "W": dense(w).tolist()}
    if k in ("ring", "line"):
        w = call_init(k, c["shape"], c["kw"])
        return {"W": dense(w).tolist()}
    if k == "degree":
        m_, n_ = c["shape"]
        d, out = c["kw"]["degree"], c["kw"]["direction"] == "out"
        rg = np.random.default_rng(c["seed"])
        choices = [rg.choice(m_ if out else n_, size=d, replace=False).tolist() for _ in range(n_ if out else m_)]
        wc = call_init(c["init"], c["shape"], dict(c["kw"], sparsity_type="coo"), c["seed"])
        w = call_init(c["init"], c["shape"], dict(c["kw"], sparsity_type="csr"), c["seed"])
        return {"choices": choices, "rows": wc.row.tolist(), "cols": wc.col.tolist(), "vals": wc.data.tolist(),
                "W": dense(w).tolist()}
    raise ValueError(k)


def natlist(l):
    return coqlist([nat(x) for x in l])


def numeric_term(c, o):
    k = c["kind"]
    if k == "sr":
        return "chk_sr %s %s %s %s" % (qmat(o["W0"]), q(o["rho"]), q(Fraction(c["sr"])), qmat(o["W"]))
    if k == "is":
        if "input_scaling" in c:
            return "chk_is_scalar %s %s %s" % (qmat(o["W0"]), q(Fraction(c["input_scaling"])), qmat(o["W"]))
        return "chk_is_cols %s %s %s" % (qmat(o["W0"]), qvec([Fraction(x) for x in c["input_scaling_vec"]]), qmat(o["W"]))
    if k in ("ring", "line"):
        n = c["shape"][0]
        w = [Fraction(x) for x in c["kw"]["weights"]] if "weights" in c["kw"] else [1] * (n if k == "ring" else max(n - 1, 0))
        return "chk_%s %s %s %s" % (k, nat(n), qvec(w), qmat(o["W"]))
    if k == "degree":
        m_, n_ = c["shape"]
        return "chk_degree %s %s %s %s %s %s %s %s %s" % (
            coqbool(c["kw"]["direction"] == "out"), nat(m_), nat(n_), nat(c["kw"]["degree"]),
            coqlist([natlist(ch) for ch in o["choices"]]), qvec(o["vals"]), natlist(o["rows"]), natlist(o["cols"]), qmat(o["W"]))
    raise ValueError(k)


# ------------------------------------------------------------------ partials that store a mutable value (Generator / array)
def gen_mutable(rng):
    """history of calls / derived partials on  base = init(seed=<Generator>, **kw)  (or ring/line with a weights array)"""
    if rng.random() < 0.75:
        init = rng.choice(["uniform", "normal", "bernoulli", "orthogonal", "random_sparse"])
        n = rng.randint(2, 7)
        shape = [n, n] if init == "orthogonal" or rng.random() < 0.5 else [n, rng.randint(2, 7)]
        kw = {}
        if init != "orthogonal":
            kw["connectivity"] = rng.choice([1.0, 0.5, 0.3])
            kw["sparsity_type"] = rng.choice(["csr", "csc"])
        if init == "random_sparse":
            kw["dist"] = rng.choice(["uniform", "norm", "custom_bernoulli"])
        c = {"kind": "mutable", "what": "generator", "init": init, "shape": shape, "kw": kw, "gen_seed": rng.randint(0, 10 ** 6)}
    else:
        init = rng.choice(["ring", "line"])
        n = rng.randint(2, 7)
        k = n if init == "ring" else n - 1
        c = {"kind": "mutable", "what": "weights", "init": init, "shape": [n, n],
             "kw": {"sparsity_type": rng.choice(["coo", "csr", "csc", "dense"])},
             "weights": [str(core.dyadic(rng, 8, 2) or Fraction(1, 2)) for _ in range(k)],
             "sr": str(abs(core.dyadic(rng, 12, 3)) + Fraction(1, 8))}
    ops = []
    for _ in range(rng.randint(2, 7)):
        r = rng.random()
        ops.append(["call", rng.randint(0, 50)] if r < 0.6 else ["scaled", rng.randint(0, 50)] if r < 0.75 else ["partial", rng.randint(0, 50)])
    ops.append(["call", 0])
    c["ops"] = ops
    return c


def run_mutable(c):
    """returns dict(refs, results=[(kind, ref, dense matrix | None)], partials, user object, state snapshots)"""
    m = mg()
    init, shape, kw = c["init"], c["shape"], pykw(c["kw"])
    obj = getattr(m, init)
    if c["what"] == "generator":
        user = np.random.default_rng(c["gen_seed"])
        before = copy.deepcopy(user.bit_generator.state)
        base = obj(seed=user, **kw)
    else:
        user = np.array([fl(x) for x in c["weights"]])
        before = user.copy()
        base = obj(weights=user, **kw)
    partials, refs, results = [base], [], []
    with warnings.catch_warnings():
        warnings.simplefilter("ignore")
        for op, raw in c["ops"]:
            r = raw % len(partials)
            refs.append(r)
            p = partials[r]
            if op == "call":
                results.append(("call", r, p(*shape)))
            elif op == "scaled":
                # a rescaling request works in place on the freshly built matrix
                try:
                    if c["what"] == "generator":
                        results.append(("scaled", r, p(*shape, input_scaling=0.5)))
                    else:
                        results.append(("scaled", r, p(*shape, sr=fl(c["sr"]))))
                except Exception as e:
                    if not env_skip(e):
                        raise
                    results.append(("scaled", r, None))
            else:
                # consumption-neutral override: the derived partial draws the same kind of matrix
                over = {"sparsity_type": "csc" if kw.get("sparsity_type") == "csr" else "csr"} if "sparsity_type" in kw else {"foo": 1}
                if c["init"] == "orthogonal" or (c["what"] == "weights" and kw.get("sparsity_type") in ("coo", "dense")):
                    over = {"dtype": np.float64}
                partials.append(p(**over))
                results.append(("partial", r, None))
    return {"refs": refs, "results": results, "partials": partials, "user": user, "before": before}


def _judge_mutable(c):
    try:
        o = run_mutable(c)
    except Exception as e:
        if tiny_sparse_error(e):
            return _viol("sr:tiny-sparse-raises", "%s(%s, sr=...) on a sparse 1x1 / 2x2 matrix raises %r" % (c["init"], c["shape"], e), c)
        return _viol("exception:%s:partial-mutable" % c["init"], "history on a partial storing a %s raises %r" % (c["what"], e), c)
    first = {}
    for k, (op, r, w) in enumerate(o["results"]):
        if op != "call":
            continue
        if r not in first:
            first[r] = w
        elif not np.array_equal(dense(first[r]), dense(w)):
            return _viol("purity:partial-application-alters-original",
                         "partial #%d of %s (storing a %s) returns a different matrix at step %d than at its first call: calls / "
                         "derived partials in between altered it" % (r, c["init"], c["what"], k), c, None, {"refs": o["refs"]})
    if c["what"] == "generator":
        if o["user"].bit_generator.state != o["before"]:
            return _viol("purity:stored-generator-advanced",
                         "the Generator handed to %s(seed=rng) was advanced by calls of the partial / of derived partials" % c["init"], c)
        for i, p in enumerate(o["partials"]):
            if p._kwargs["seed"].bit_generator.state != o["before"]:
                return _viol("purity:stored-generator-advanced", "the Generator stored in partial #%d of %s moved" % (i, c["init"]), c)
        direct = call_init(c["init"], c["shape"], c["kw"], np.random.default_rng(c["gen_seed"]))
        if 0 in first and not np.array_equal(dense(first[0]), dense(direct)):
            return _viol("purity:partial-generator-draw", "partial(seed=rng)(shape) differs from init(shape, seed=<equal rng>)", c)
    else:
        if not np.array_equal(o["user"], o["before"]):
            return _viol("purity:stored-array-mutated", "the weights array stored by the %s partial was modified by a call" % c["init"], c,
                         o["before"].tolist(), o["user"].tolist())
    return None


def mutable_term(c):
    """correspondence with the Generator-cell heap model (model/MatGen.v part 1b)"""
    o = run_mutable(c)
    kw = c["kw"]
    K = len(c["ops"]) + 2
    rr = np.random.default_rng(c["gen_seed"])
    states, draws = [], []
    for _ in range(K):
        states.append(copy.deepcopy(rr.bit_generator.state))
        draws.append(dense(call_init(c["init"], c["shape"], kw, rr)))

    if any(np.array_equal(draws[a], draws[b]) for a in range(K) for b in range(a)):
        return "true", o   # successive draws coincide (tiny +-1 matrices): the stream position is not identifiable

    def pos_of_state(st):
        ks = [k for k in range(K) if states[k] == st]
        return ks[0] if ks else None

    obs = []
    for op, r, w in o["results"]:
        if op == "partial":
            obs.append("None")
            continue
        if w is None:
            return None, o
        d = dense(w) * (2.0 if op == "scaled" else 1.0)
        ks = [k for k in range(K) if np.array_equal(draws[k], d)]
        if len(ks) != 1:
            return "false", o
        obs.append("(Some %s)" % nat(ks[0]))
    up = pos_of_state(o["user"].bit_generator.state)
    sp = [pos_of_state(p._kwargs["seed"].bit_generator.state) for p in o["partials"]]
    if up is None or any(x is None for x in sp):
        return "false", o
    ops = coqlist(["(%s %s)" % ("GPartial" if op == "partial" else "GCall", nat(r)) for (op, _), r in zip(c["ops"], o["refs"])])
    return "chk_gen %s %s %s %s" % (ops, coqlist(obs), nat(up), natlist(sp)), o



def nontrivial(c, o):
    k = c["kind"]
    if k == "mutable":
        return len(set(o["refs"])) >= 2
    if k == "calls":
        return len(c["ops"]) >= 2 and len(o["heap"]) >= 2
    if k == "sr":
        return any(v != 0 for r in o["W0"] for v in r)
    if k == "is":
        return any(v != 0 for r in o["W0"] for v in r)
    if k in ("ring", "line"):
        return c["shape"][0] >= 2
    if k == "degree":
        return c["kw"]["degree"] >= 1 and len(o["rows"]) >= 2
    return False


def gen_corr(rng, n):
    cases = []
    kinds = ["calls", "callsreal", "sr", "sr", "is", "ring", "line", "degree", "calls", "sr", "gen"]
    for i in range(n):
        kind = kinds[i % len(kinds)]
        if kind == "calls":
            cases.append(gen_calls(rng, False))
        elif kind == "callsreal":
            cases.append(gen_calls(rng, True))
        elif kind == "gen":
            c = gen_mutable(rng)
            while c["what"] != "generator":
                c = gen_mutable(rng)
            cases.append(c)
        else:
            cases.append(gen_numeric(rng, kind))
    return cases


def pregen(ctx):
    """tie (T): re-translate the scaling / partial-application / ring-line logic of mat_gen.py of the tree under test into
    coq/gen/Gen_matgen.v (tools/vlib/py2coq_mg.py).  On rejection a NON-COMPILING stub is written (never a stale model) and the error
    text is returned: the tie is then reported broken."""
    import os
    import traceback
    from vlib import py2coq_mg
    from vlib.py2coq_la import Reject
    gdir = os.path.join(core.COQ, "gen")
    os.makedirs(gdir, exist_ok=True)
    path = os.path.join(gdir, "Gen_matgen.v")
    err = None
    try:
        text = py2coq_mg.emit(core.REPO)
    except Reject as ex:
        text, err = None, "translation rejected: %s" % ex
    except Exception:
        text, err = None, "translator exception: " + traceback.format_exc()[-1500:]
    if text is None:
        text = "(* GENERATED: translation of reservoirpy/mat_gen.py FAILED -- %s *)\nDefinition translation_failed : True := 0.\n" % (
            err.replace("*)", "* )").replace("(*", "( *"))
    old = open(path).read() if os.path.exists(path) else None
    if old != text:               # keep the mtime (and the compiled cone) when nothing changed
        with open(path, "w") as f:
            f.write(text)
    return ("unit matgen: %s" % err) if err else None


def correspondence(ctx):
    rng = ctx.rng("corr")
    cases = gen_corr(rng, ctx.n(260, 3000))
    terms, keep, dist, nt = [], [], {}, set()
    for c in cases:
        label = c["kind"] + (":real" if c.get("real") else "")
        try:
            if c["kind"] == "calls":
                o = run_calls(c)
                t = calls_term(c, o)
            elif c["kind"] == "mutable":
                t, o2 = mutable_term(c)
                o = {"refs": o2["refs"]}
                if t is None:
                    raise RuntimeError("Starting vector is zero (env skip inside a history)")
            else:
                o = run_numeric(c)
                t = numeric_term(c, o)
        except Exception as e:
            if env_skip(e):
                terms.append("true")
                keep.append({"scenario": jsonable(c), "env_skip": repr(e)})
                dist["env-skip"] = dist.get("env-skip", 0) + 1
                continue
            terms.append("false")
            keep.append({"scenario": jsonable(c), "impl_error": repr(e)})
            continue
        terms.append(t)
        small = {k: v for k, v in o.items() if k in ("rho", "refs", "results", "heap", "choices", "W")}
        keep.append({"scenario": jsonable(c), "observed": jsonable(small)})
        dist[label] = dist.get(label, 0) + 1
        if nontrivial(c, o):
            nt.add(repr(jsonable(c)))
    failing, err = core.run_cases(ctx.pid, IMPORTS, terms, chunk=60)
    return {"evaluations": len(cases), "distinct_nontrivial": len(nt),
            "rule": "seeded scenarios: Initializer.__call__ histories (recording function with random authorisation flags, and the real "
                    "module-level initialisers under partial application only), sr / input_scaling requests on every initialiser that "
                    "accepts them (n<=8, dense/sparse/degree), ring/line (n<=10, with/without weights), _random_degree (m,n<=9, in/out); "
                    "non-trivial = history of >=2 calls creating >=1 new initialiser, non-zero unscaled draw, n>=2, degree>=1 with >=2 "
                    "stored entries, Generator history touching >=2 partials; distinct by scenario text",
            "samples": [keep[0], keep[2], keep[min(7, len(keep) - 1)]],
            "distribution": dist, "tolerance": "1e-9 relative (qclose); exact equality for kwargs / index arrays",
            "failing": [dict(keep[i], index=i) for i in failing], "error": err}


# =========================================================================================== oracle on the implementation
def _viol(key, what, c, expected=None, observed=None):
    return {"key": key, "what": what, "scenario": jsonable(c), "expected": jsonable(expected), "observed": jsonable(observed)}


def fmt_of(w):
    from scipy import sparse
    if sparse.issparse(w):
        return w.format
    if type(w) is np.ndarray:
        return "dense"
    return type(w).__name__


def expected_format(c):
    init, kw, shape = c["init"], c["kw"], c["shape"]
    st = kw.get("sparsity_type", "csr")
    if init in ("zeros", "ones", "orthogonal"):
        return "dense"
    if init in ("ring", "line"):
        return st
    if kw.get("degree") is not None:
        return st
    two_d = len(shape) == 2 or init == "fast_spectral_initialization"
    if kw.get("connectivity", 1.0) < 1.0 and two_d:
        return st
    return "dense"


def expected_shape(c):
    if c["init"] == "fast_spectral_initialization":
        return (c["shape"][0], c["shape"][0])
    return tuple(c["shape"])


def same_matrix(a, b):
    return fmt_of(a) == fmt_of(b) and a.dtype == b.dtype and a.shape == b.shape and \
        dense(a).tobytes() == dense(b).tobytes()


def stored_positions(w):
    """(rows, cols) of the stored entries of a 2-D matrix (dense: the non-zero ones)."""
    from scipy import sparse
    if sparse.issparse(w):
        co = w.tocoo(copy=True)
        return np.asarray(co.row), np.asarray(co.col)
    r, cc = np.nonzero(w)
    return r, cc


def exactly_nilpotent(D):
    """W^n == 0 in exact rational arithmetic (entries of a float matrix are rationals)."""
    n = D.shape[0]
    if not np.all(np.isfinite(D)):
        return False
    A = [[Fraction(float(x)) for x in row] for row in D.tolist()]
    P = A
    k = 1
    while k < n:
        P = [[sum(P[i][l] * P[l][j] for l in range(n)) for j in range(n)] for i in range(n)]
        k *= 2
        if all(x == 0 for r in P for x in r):
            return True
    return all(x == 0 for r in P for x in r)


def gen_oracle_case(rng, i):
    init = INITS[i % len(INITS)] if rng.random() < 0.6 else rng.choice(RANDOM_FAMILY)
    if init in ("ring", "line", "orthogonal"):
        n = rng.randint(1, 9)
        shape = [n, n]
    elif init == "fast_spectral_initialization":
        shape = [rng.randint(1, 9)]
    elif init in RANDOM_FAMILY + ["zeros", "ones"] and rng.random() < 0.1:
        shape = [rng.randint(1, 4), rng.randint(1, 4), rng.randint(1, 4)]
    elif rng.random() < 0.45:
        n = rng.randint(1, 10)
        shape = [n, n]
    else:
        shape = [rng.randint(1, 10), rng.randint(1, 10)]
    kw = rand_kw(rng, init, shape)
    c = {"kind": "oracle", "init": init, "shape": shape, "kw": kw, "seed": rng.randint(0, 10 ** 6)}
    square = len(shape) == 2 and shape[0] == shape[1]
    r = rng.random()
    if init == "fast_spectral_initialization":
        if r < 0.5:
            c["sr"] = str(abs(core.dyadic(rng, 12, 3)) + Fraction(1, 8))
    elif init != "zeros" and square and r < 0.4:
        c["sr"] = str(abs(core.dyadic(rng, 12, 3)) + Fraction(1, 8))
    elif len(shape) == 2 and r < 0.6:
        c["input_scaling"] = str(core.dyadic(rng, 12, 3))
    elif len(shape) == 2 and r < 0.8:
        c["input_scaling_vec"] = [str(core.dyadic(rng, 12, 3)) for _ in range(shape[1])]
    c["split"] = rng.randint(0, 10 ** 6)
    c["seed_form"] = rng.choice(SEED_FORMS)
    return c


def null_radius_cases():
    """the configuration of the known pre-fix defect: tiny default-like reservoirs whose draw is nilpotent"""
    return [{"kind": "oracle", "init": "normal", "shape": [5, 5], "kw": {"connectivity": 0.1}, "seed": s, "sr": "9/10", "split": s}
            for s in range(50)]


def dtype_probe_cases():
    """per-column float64 factors on float32 / float16 draws, dense and sparse (fixed defect input_scaling:dtype-changed)"""
    out = []
    k = 0
    for init in ("uniform", "normal", "bernoulli"):
        for dtn, fmts in (("float32", ["dense", "csr", "csc"]), ("float16", ["dense"])):
            for f in fmts:
                kw = {"dtype": dtn}
                if f != "dense":
                    kw.update(connectivity=0.5, sparsity_type=f)
                k += 1
                out.append({"kind": "oracle", "init": init, "shape": [4, 3], "kw": kw, "seed": 100 + k, "split": k,
                            "input_scaling_vec": ["1/2", "-3", "5/4"]})
    return out


def fixed_defect_probes():
    """deterministic inputs of the defects fixed in /repo (4535164 ring/line weights, b04afca tiny sparse sr) and of the
    open one (nilpotent sparse draws: line with sr)"""
    P = []

    def add(init, shape, kw, **more):
        P.append(dict({"kind": "oracle", "init": init, "shape": shape, "kw": kw, "seed": 1, "split": len(P), "seed_form": "int"}, **more))
    add("ring", [5, 5], {"weights": ["1", "2", "3", "4", "5"], "dtype": "float32"})
    add("line", [4, 4], {"weights": ["1", "2", "3"], "dtype": "float32", "sparsity_type": "dense"})
    add("ring", [4, 4], {"weights": ["1", "2", "3", "4"], "weights_int": True}, sr="1/2")
    add("line", [4, 4], {"weights": ["1", "2", "3"], "weights_int": True, "sparsity_type": "dense"})
    add("ring", [4, 4], {"weights": ["1", "2", "3", "4"], "sparsity_type": "coo"}, sr="1/2")
    add("uniform", [2, 2], {"connectivity": 0.5}, sr="9/10")
    add("bernoulli", [2, 2], {"connectivity": 0.75, "sparsity_type": "csc"}, sr="1/2")
    add("normal", [1, 1], {"connectivity": 0.9}, sr="1/2")
    add("ring", [2, 2], {}, sr="1/2")
    for st in ("csr", "csc"):
        add("line", [6, 6], {"sparsity_type": st}, sr="1/2")
    # FSI on a few hundred units: the same density requested through connectivity, degree (out) and degree (in)
    for kwf in ({"connectivity": 0.05}, {"degree": 10}, {"degree": 10, "direction": "in"}, {"degree": 4}):
        add("fast_spectral_initialization", [200], kwf, sr="9/10")
    for f in ("np.int64", "generator", "randomstate", "global"):
        P.append({"kind": "oracle", "init": "uniform", "shape": [6, 6], "kw": {"connectivity": 0.5}, "seed": 2024, "split": 7,
                  "seed_form": f, "sr": "9/10"})
    return P


def _judge(c):
    """Decide the statement of C13 on one configuration, directly on the real code. Returns a violation dict or None."""
    m = mg()
    init, shape, kw, seed_int = c["init"], c["shape"], c["kw"], c.get("seed")
    form = c.get("seed_form", "int")
    seed = seed_factory(c)          # every call below gets a FRESH, equal seed object of the scenario's form
    obj = getattr(m, init)
    kwargs_before = copy.deepcopy(obj._kwargs)
    if kw.get("weights_int") and "sr" in c:
        try:
            call_init(init, shape, kw, seed, sr=fl(c["sr"]))
        except Exception as e:
            if tiny_sparse_error(e):
                return _viol("sr:tiny-sparse-raises", "%s(%s, sr=%s) on a sparse 1x1 / 2x2 matrix raises %r" % (init, shape, c["sr"], e), c)
            if not env_skip(e):
                return _viol("sr:integer-weights-raise", "%s(weights=<integer array>, sr=%s) raises %r" % (init, c["sr"], e), c)
    try:
        base = call_init(init, shape, kw, seed)
        base2 = call_init(init, shape, kw, seed)
    except Exception as e:
        return _viol("exception:%s" % init, "valid %s request raises %r" % (init, e), c)
    if form == "randomstate" and seed_int is not None:
        # a legacy RandomState given as seed is only READ (its state seeds a fresh Generator): using the SAME object for several requests
        # gives the same draw every time, the draw of a fresh RandomState with that seed
        try:
            rs = mkseed(form, seed_int)
            again = [call_init(init, shape, kw, rs) for _ in range(3)]
        except Exception as e:  # noqa: BLE001
            return _viol("exception:%s" % init, "valid %s request with a reused RandomState seed raises %r" % (init, e), c)
        if any(not same_matrix(x, base) for x in again):
            return _viol("seed:reused-randomstate-not-pure", "%s called several times with ONE RandomState object as seed does not return the same matrix each time "
                         "(the result is not a function of its arguments and seed)" % init, c)
    # ---- shape / format / dtype
    if tuple(base.shape) != expected_shape(c):
        return _viol("shape", "%s returns shape %s" % (init, base.shape), c, expected_shape(c), list(base.shape))
    ef = expected_format(c)
    if fmt_of(base) != ef:
        return _viol("format", "%s returns storage format %s instead of the requested %s" % (init, fmt_of(base), ef), c, ef, fmt_of(base))
    dt = np.dtype(kw.get("dtype", "float64"))
    if base.dtype != dt and init in ("ring", "line") and "weights" in kw:
        return _viol("dtype:weights-ignore-dtype", "%s(weights=..., dtype=%s) returns dtype %s (the weights' own)" % (init, dt, base.dtype),
                     c, str(dt), str(base.dtype))
    if base.dtype != dt:
        return _viol("dtype:%s" % init, "%s returns dtype %s instead of the requested %s" % (init, base.dtype, dt), c, str(dt), str(base.dtype))
    # ---- purity in the seed (ring / line / zeros / ones are deterministic anyway)
    if not same_matrix(base, base2):
        return _viol("purity:seed", "two calls of %s with the same arguments and seed differ" % init, c)
    D = dense(base).astype(float)
    nz = D[D != 0]
    two_d = len(expected_shape(c)) == 2
    # ---- density / degrees
    if init in RANDOM_FAMILY + ["fast_spectral_initialization"]:
        size = int(np.prod(expected_shape(c)))
        stored = base.nnz if hasattr(base, "nnz") else int(np.count_nonzero(D))
        if kw.get("degree") is not None:
            d, out = kw["degree"], kw.get("direction", "out") == "out"
            rows, cols = stored_positions(base)
            pairs = set(zip(rows.tolist(), cols.tolist()))
            mm, nn = expected_shape(c)
            counts = np.bincount(cols if out else rows, minlength=nn if out else mm)
            if len(pairs) != len(rows) or len(counts) != (nn if out else mm) or not np.all(counts == d):
                return _viol("degree", "%s: the %s do not all hold exactly degree=%d stored entries at distinct positions"
                             % (init, "columns" if out else "rows", d), c, d, counts.tolist())
        elif two_d and kw.get("connectivity", 1.0) < 1.0:
            exp = int(round(kw["connectivity"] * size))
            if stored != exp or int(np.count_nonzero(D)) != exp:
                return _viol("density", "%s: %d stored / %d non-zero entries, int(round(connectivity*m*n)) = %d"
                             % (init, stored, int(np.count_nonzero(D)), exp), c, exp, stored)
        elif kw.get("connectivity", 1.0) >= 1.0:
            if int(np.count_nonzero(D)) != size:
                return _viol("density", "%s with connectivity=1 has zero entries" % init, c, size, int(np.count_nonzero(D)))
    # ---- value support
    tol = {np.dtype(np.float16): 2e-3, np.dtype(np.float32): 1e-6}.get(dt, 1e-12)
    bad = None
    if not np.all(np.isfinite(D)):
        bad = "non-finite values"
    elif init == "uniform" or (init == "random_sparse" and kw["dist"] == "uniform"):
        if init == "uniform":
            lo, hi = fl(kw.get("low", -1)), fl(kw.get("high", 1))
        else:
            lo = fl(kw.get("loc", 0))
            hi = lo + fl(kw.get("scale", 1))
        if nz.size and (nz.min() < lo - tol * max(1, abs(lo)) or nz.max() > hi + tol * max(1, abs(hi))):
            bad = "uniform values outside [%r, %r]: min %r max %r" % (lo, hi, nz.min(), nz.max())
    elif init == "fast_spectral_initialization":
        if nz.size and np.abs(nz).max() > 1 + tol:   # without sr the law is uniform on [-1, 1]
            bad = "FSI values outside [-1, 1]"
    elif init == "bernoulli" or (init == "random_sparse" and kw["dist"] == "custom_bernoulli"):
        v = fl(kw.get("value", 1))
        if nz.size and not np.all(np.isclose(np.abs(nz), v, rtol=tol, atol=0)):
            bad = "bernoulli values not in {+%r, -%r}" % (v, v)
        p = kw.get("p")
        if p is not None and nz.size and ((fl(p) == 1 and np.any(nz < 0)) or (fl(p) == 0 and np.any(nz > 0))):
            bad = "bernoulli p=%s yields the impossible sign" % p
    elif init == "zeros" and nz.size:
        bad = "zeros has non-zero entries"
    elif init == "ones" and not np.all(D == 1):
        bad = "ones has entries != 1"
    elif init == "orthogonal" and not np.allclose(D @ D.T, np.eye(D.shape[0]), atol=1e-5 if dt == np.float32 else 1e-10):
        bad = "orthogonal: W W^T != I"
    elif init in ("ring", "line"):
        n = shape[0]
        w = [fl(x) for x in kw["weights"]] if "weights" in kw else [1.0] * (n if init == "ring" else max(n - 1, 0))
        E = np.zeros((n, n))
        for j in range(len(w)):
            E[(j + 1) % n if init == "ring" else j + 1, j] += w[j]
        if not np.array_equal(E, D):
            bad = "%s matrix is not the documented (cyclic) lower shift" % init
    if bad:
        return _viol("support:%s" % init, bad, c)
    # ---- spectral radius request
    if "sr" in c:
        sr = fl(c["sr"])
        try:
            W = call_init(init, shape, kw, seed, sr=sr)
        except Exception as e:
            if env_skip(e):
                return {"skip": "env", "detail": repr(e)}
            if tiny_sparse_error(e):
                return _viol("sr:tiny-sparse-raises", "%s(%s, sr=%r) on a sparse 1x1 / 2x2 draw raises %r" % (init, shape, sr, e), c)
            return _viol("exception:%s:sr" % init, "valid %s(sr=%r) request raises %r" % (init, sr, e), c)
        if tuple(W.shape) != expected_shape(c) or fmt_of(W) != ef or W.dtype != dt:
            return _viol("sr:shape-format-dtype", "sr request changes shape/format/dtype", c, [expected_shape(c), ef, str(dt)],
                         [list(W.shape), fmt_of(W), str(W.dtype)])
        WD = dense(W).astype(float)
        rt = 1e-4 if dt == np.float32 else 1e-6      # radius
        mt = 1e-6 if dt == np.float32 else 1e-9      # entrywise proportionality
        if init == "fast_spectral_initialization":
            # FSI sets the bounds of the uniform law: W = |a| * (same-seed draw on [-1,1]), a positive multiple
            # (the factor is read off the result: which density enters the closed formula is itself judged below, on large matrices)
            a = float(np.abs(WD).max() / np.abs(D).max()) if np.abs(D).max() > 0 else 0.0
            if not (a > 0 or not D.any()) or not np.allclose(WD, a * D, rtol=mt, atol=mt * 1e-3 * max(a, 1e-300)):
                return _viol("sr:not-positive-multiple", "FSI(sr) is not |a| times the same-seed draw on [-1,1]", c, a)
            if shape[0] >= 150 and D.any():
                # FSI is a statistical rule: on a few hundred units the radius is within ~15 % of the request (measured 0.95..1.2 for
                # connectivity AND degree requests of the same density once the density is computed right); far outside = wrong formula
                rho = float(max(abs(np.linalg.eigvals(WD))))
                if not (0.6 * sr <= rho <= 1.6 * sr):
                    return _viol("fsi:radius-far-from-request%s" % (":degree" if "degree" in kw else ""),
                                 "fast_spectral_initialization(%d, sr=%r, %s) has spectral radius %.4f (ratio %.3f): the bounds of the uniform law "
                                 "are computed from `connectivity` although the density of the draw is given by `degree`"
                                 % (shape[0], sr, pykw(kw), rho, rho / sr), c, sr, rho)
            return None
        rho0 = float(max(abs(np.linalg.eigvals(D)))) if D.size else 0.0
        # a null radius is decided exactly (W0^n == 0 over the rationals): LAPACK/ARPACK estimates of a defective null
        # eigenvalue are of the order of eps^(1/n) * |W0|, not 0
        is_null = rho0 < EPS or (rho0 < 0.5 * np.abs(D).max() * D.shape[0] and exactly_nilpotent(D))
        if is_null:
            big = np.abs(WD).max() if WD.size else 0.0
            ref = np.abs(D).max() if D.size else 0.0
            if big > 100 * ref and big > 0:
                # which of the two mechanisms: the factor applied tells the radius the library divided by -- its epsilon
                # floor (pre-fix code) or a noisy ARPACK/LAPACK estimate above epsilon (the estimate of a null radius is
                # not even reproducible from one call to the next, so it is not re-measured here)
                est = sr * ref / big if big else None
                floored = est is not None and abs(est - EPS) <= 1e-6 * EPS
                key = "sr:null-radius-blown-up" if floored else "sr:null-radius-misestimated-blown-up"
                return _viol(key, "the same-seed draw has a null spectral radius (numpy eig: %.3g, radius the library divided by: %r) and the "
                             "sr=%r request multiplied it by %.3g" % (rho0, est, sr, big / ref if ref else float("inf")),
                             c, "the draw, not rescaled", {"max|W|": big, "max|W0|": ref, "radius_divided_by": est})
            return None
        if rho0 < 1e-5:
            return {"skip": "ill-conditioned", "detail": rho0}
        cst = float((WD * D).sum() / (D * D).sum())
        if not (cst > 0 and np.allclose(WD, cst * D, rtol=mt, atol=mt * 1e-3 * np.abs(WD).max())):
            return _viol("sr:not-positive-multiple", "%s(sr=%r) is not a positive multiple of the same-seed unscaled draw" % (init, sr),
                         c, None, cst)
        rho = float(max(abs(np.linalg.eigvals(WD))))
        # conditioning of the dominant eigenvalue: a defective eigenvalue of multiplicity k moves by ulp^(1/k) under a
        # one-ulp (of the largest entry) dense perturbation, for any eigenvalue solver; do not charge that to the library
        ulp = 6e-8 if dt == np.float32 else 1.2e-16
        pert = D + ulp * np.abs(D).max() * np.random.RandomState(0).choice([-1.0, 1.0], size=D.shape)
        sens = abs(float(max(abs(np.linalg.eigvals(pert)))) - rho0) / rho0
        rt = min(max(rt, 2000 * sens), 5e-2)
        if abs(rho - sr) > rt * sr:
            return _viol("sr:radius-mismatch", "%s(sr=%r) has spectral radius %r" % (init, sr, rho), c, sr, rho)
    # ---- input scaling
    if "input_scaling" in c or "input_scaling_vec" in c:
        if "input_scaling" in c:
            s = fl(c["input_scaling"])
            exp = D * s
            arg = s
        else:
            s = np.array([fl(x) for x in c["input_scaling_vec"]], dtype=np.float64)   # float64 factors, whatever the draw's dtype
            exp = D * s[None, :]
            arg = s
        try:
            W = call_init(init, shape, kw, seed, input_scaling=arg)
        except Exception as e:
            return _viol("exception:%s:input_scaling" % init, "valid %s(input_scaling=...) request raises %r" % (init, e), c)
        if tuple(W.shape) != expected_shape(c):
            return _viol("input_scaling:shape", "input_scaling changes the shape", c, expected_shape(c), list(W.shape))
        vt = {np.dtype(np.float16): 2e-3, np.dtype(np.float32): 1e-5}.get(dt, 1e-12)
        if not np.allclose(dense(W).astype(float), exp, rtol=vt, atol=0):
            return _viol("input_scaling:values", "result is not the unscaled draw times the %s" %
                         ("scalar" if "input_scaling" in c else "per-column factors"), c)
        if fmt_of(W) != ef:
            return _viol("input_scaling:%s-format-changed" % ("scalar" if "input_scaling" in c else "per-column"),
                         "%s(sparsity_type=%s, input_scaling=%s) returns format %s" %
                         (init, ef, "scalar" if "input_scaling" in c else "vector", fmt_of(W)), c, ef, fmt_of(W))
        if W.dtype != dt:
            return _viol("input_scaling:dtype-changed", "input_scaling (factors of dtype %s) changes dtype %s -> %s" % (dt, dt, W.dtype),
                         c, str(dt), str(W.dtype))
    # ---- the caller's weights array is an argument: never modified
    if init in ("ring", "line") and "weights" in kw:
        k = pykw(kw)
        wobj = k.pop("weights")
        wb = wobj.copy()
        extra = {"sr": fl(c["sr"])} if "sr" in c else {"input_scaling": fl(c["input_scaling"])} if "input_scaling" in c else {}
        try:
            with warnings.catch_warnings():
                warnings.simplefilter("ignore")
                obj(*shape, weights=wobj, **k, **extra)
        except Exception:
            pass
        if not np.array_equal(wobj, wb):
            return _viol("purity:argument-array-mutated", "%s(weights=w, %s) modified the caller's array w in place" % (init, extra), c,
                         wb.tolist(), wobj.tolist())
    # ---- partial application: composes like dict update, never alters the original
    seed = seed_int
    items = list(kw.items()) + ([("seed", seed)] if seed is not None and form != "global" else [])
    items = [it for it in items if it[0] != "weights_int"]
    prng = __import__("random").Random(c.get("split", 0))
    prng.shuffle(items)
    cut = prng.randint(1, len(items)) if items else 0
    k1, k2 = dict(items[:cut]), dict(items[cut:])
    if items:
        # a value given first and overridden later
        ok, ov = items[prng.randrange(len(items))]
        if ok == "seed":
            k1["seed"], k2["seed"] = (seed + 1), seed
        elif ok == "connectivity":
            k1["connectivity"], k2["connectivity"] = 0.9, ov
        if kw.get("weights_int"):
            for d in (k1, k2):
                if "weights" in d:
                    d["weights_int"] = True
        try:
            q1, q2 = pykw(k1), pykw(k2)
            for d in (q1, q2):
                if "seed" in d:
                    d["seed"] = mkseed(form, d["seed"])
            p1 = obj(**q1)
            p2 = p1(**q2) if q2 else p1
            args = shape[:1] if init == "fast_spectral_initialization" else shape
            with warnings.catch_warnings():
                warnings.simplefilter("ignore")
                if form == "global" and seed is not None:
                    mkseed(form, seed)
                viap = p2(*args)
                again = call_init(init, shape, kw, seed_factory(c))
        except Exception as e:
            return _viol("exception:%s:partial" % init, "partial application of %s raises %r" % (init, e), c)
        if not same_matrix(viap, base):
            return _viol("purity:partial-application-composition",
                         "%s(**k1)(**k2)(shape) differs from %s(shape, **merged)" % (init, init), c, None, {"k1": k1, "k2": k2})
        if not same_matrix(again, base):
            return _viol("purity:partial-application-alters-original", "a later call of the original %s changed" % init, c)
    if obj._kwargs != kwargs_before or obj._kwargs != {}:
        return _viol("purity:module-initializer-mutated", "mat_gen.%s._kwargs changed: %r" % (init, obj._kwargs), c)
    return None


def judge(case):
    c = case["scenario"]
    if c.get("kind") == "mutable":
        return _judge_mutable(c)
    if c.get("kind") in ("sr", "is"):
        c2 = dict(c, kind="oracle", split=0)
        v = _judge(c2)
        return v if v and "key" in v else None
    return None


def oracle(ctx, scale=1):
    rng = ctx.rng("oracle")
    cases = [gen_oracle_case(rng, i) for i in range(ctx.n(350, 4000) * scale)] + null_radius_cases() + dtype_probe_cases() + fixed_defect_probes()
    cases += [gen_mutable(rng) for _ in range(ctx.n(80, 600) * scale)]
    out, dist = [], {}
    for c in cases:
        if c["kind"] == "mutable":
            v = _judge_mutable(c)
            dist["mutable:" + c["what"]] = dist.get("mutable:" + c["what"], 0) + 1
            if v:
                out.append(v)
            continue
        v = _judge(c)
        if v and "skip" in v:
            dist["skip:" + v["skip"]] = dist.get("skip:" + v["skip"], 0) + 1
            continue
        lab = c["init"] + (":sr" if "sr" in c else ":is" if "input_scaling" in c else ":isvec" if "input_scaling_vec" in c else "")
        dist[lab] = dist.get(lab, 0) + 1
        if v:
            out.append(v)
    m = mg()
    # a spectral radius AND an input scaling requested together (directly, or through successive partial applications): no matrix can honour
    # both requests in general, so the call is refused -- silently honouring one of them would break the clause of the ignored one
    for how in ("direct", "partial"):
        scb = {"kind": "oracle-both", "init": "uniform", "how": how}
        try:
            if how == "direct":
                Wb = m.uniform(5, 5, sr=0.5, input_scaling=2.0, seed=3)
            else:
                Wb = m.uniform(sr=0.5)(input_scaling=2.0)(5, 5, seed=3)
            W0 = dense(m.uniform(5, 5, seed=3)).astype(float)
            rb = float(max(abs(np.linalg.eigvals(dense(Wb).astype(float)))))
            if not (np.allclose(dense(Wb), 2.0 * W0) and abs(rb - 0.5) < 1e-6):
                out.append(_viol("sr-and-input_scaling:one-request-ignored", "uniform(5, 5, sr=0.5, input_scaling=2.0) (%s) is accepted and returns a matrix that is "
                                 "not the draw times 2 with spectral radius 0.5 (radius %.4f)" % (how, rb), scb))
        except Exception:  # noqa: BLE001 -- refused: the conforming answer
            pass
    # a spectral radius requested from a STRUCTURED initialiser on a matrix large enough for ARPACK (all eigenvalues of a ring have the same modulus:
    # ARPACK does not converge): the call returns, the result is a positive multiple of the unscaled matrix with the requested radius
    import signal

    def _alarm(*a):
        raise TimeoutError("no answer within 30 s")
    scr = {"kind": "oracle-ring-sr", "init": "ring", "shape": [50, 50], "sr": 0.875}
    old_h = signal.signal(signal.SIGALRM, _alarm)
    signal.alarm(30)
    try:
        Wr = m.ring(50, 50, sr=0.875)
        W0 = dense(m.ring(50, 50)).astype(float)
        rr = float(max(abs(np.linalg.eigvals(dense(Wr).astype(float)))))
        if abs(rr - 0.875) > 1e-6 or not np.allclose(dense(Wr), 0.875 * W0, atol=1e-9):
            out.append(_viol("sr:radius-mismatch:ring", "ring(50, 50, sr=0.875) has spectral radius %r / is not 0.875 times the unscaled ring" % rr, scr, 0.875, rr))
    except TimeoutError as ex:
        out.append(_viol("sr:arpack-no-convergence:endless-redraw", "ring(50, 50, sr=0.875) does not return (%s): ARPACK does not converge on a matrix whose eigenvalues all have "
                         "the same modulus, and the retry loop redraws with seed + 1 an initialiser that ignores the seed" % ex, scr))
    except Exception as ex:  # noqa: BLE001
        out.append(_viol("exception:ring:sr", "ring(50, 50, sr=0.875) raises %r" % (ex,), scr))
    finally:
        signal.alarm(0)
        signal.signal(signal.SIGALRM, old_h)
    for nm in INITS:
        if getattr(m, nm)._kwargs != {}:
            out.append(_viol("purity:module-initializer-mutated", "mat_gen.%s._kwargs = %r at the end of the run" % (nm, getattr(m, nm)._kwargs),
                             {"kind": "oracle-final", "init": nm}))
    return {"evaluations": len(cases), "violations": out, "distribution": dist,
            "rule": "on the real initialisers: shape, storage format, dtype, nnz == int(round(connectivity*m*n)) (scipy's formula), exact "
                    "per-row/column degrees, value support, byte-identical repeat with the same seed, sr request = positive multiple of the "
                    "same-seed draw with numpy-eig radius == sr (rtol 1e-6) or an untouched null-radius draw, input_scaling = draw x scalar / "
                    "per-column, init(**k1)(**k2)(shape) == init(shape, **merged), module-level _kwargs unchanged; plus "
                    "normal(5,5,sr=.9,connectivity=.1) for seeds 0..49; float64 per-column factors on float32 (dense/csr/csc) and float16 (dense) "
                    "draws; plus histories on partials storing a mutable value (numpy Generator "
                    "as seed, weights array): every partial returns the same matrix at each of its calls, the stored / caller's "
                    "Generator state and array are unchanged, partial(seed=rng)(shape) == init(shape, seed=equal rng)"}


def replay(payload):
    c = payload["scenario"]
    if c.get("kind") == "mutable":
        v = _judge_mutable(c)
        return {"violates": bool(v), "detail": v}
    if c.get("kind") in ("sr", "is"):
        c = dict(c, kind="oracle", split=0)
    v = _judge(c)
    bad = bool(v) and "key" in v
    return {"violates": bad, "detail": v}
