"""C02 — a model computes the composition of its nodes along the graph."""
import numpy as np

from vlib import core, scen, scengen

IMPORTS = scen.IMPORTS
TRUSTED = ["fan-in order and execution order are read from the real Model (graphflow.find_parents_and_children, model.nodes); "
           "the model checks that the observed execution order is a topological order (is_topo) instead of predicting it",
           "node forward functions of coq/model/Kinds.v as renderings of Reservoir / Ridge / Delay / NVAR / custom nodes"]
ASSUMPTIONS = ["small dyadic weights and inputs: float64 arithmetic is exact on these paths",
               "at rest all state proxies are None (no operation is nested inside another one)"]


def gen_scenario(rng, i, esn_ok=False):
    if esn_ok and rng.random() < 0.12:
        # the ESN convenience node computes the composition reservoir >> readout (run on copies, results carried back)
        nodes, models, din = scengen.gen_esn(rng, fb=False)
        edges, entries = [[0, 1]], [0]
        sc = {"nodes": nodes, "models": models, "ops": [], "entries": entries, "din": din, "tag": i}
    else:
        nodes, edges, entries, din = scengen.gen_dag(rng)
        sc = {"nodes": nodes, "models": scengen.chain_models(nodes, edges), "ops": [], "entries": entries, "din": din, "tag": i}
    if len(nodes) >= 3 and rng.random() < 0.35:
        # same graph assembled in place:  Model(first nodes) &= Model(rest)
        sc["models"][0].update(build="iand", cut=rng.randint(1, len(nodes) - 1))
    T = rng.randint(1, 5)
    sc["ops"].append({"op": "run", "model": 0, "X": scengen.rows(rng, T, din)})
    sc["ops"].append({"op": "call", "model": 0, "x": scengen.rows(rng, 1, din)[0]})
    # name-keyed input: every entry gets its own data
    T2 = rng.randint(1, 4)
    sc["ops"].append({"op": "run", "model": 0, "X": {str(e): scengen.rows(rng, T2, din) for e in entries},
                      "return_states": rng.choice([None, "all"]), "rev_keys": len(entries) > 1})
    if rng.random() < 0.5:
        sc["ops"].append({"op": "run", "model": 0, "X": scengen.rows(rng, rng.randint(1, 3), din), "stateful": False})
    if rng.random() < 0.4:
        # one run over a list of sequences (for a Model: the same operation on every sequence in turn)
        sc["ops"].append({"op": "runs", "model": 0, "Xs": [scengen.rows(rng, rng.randint(1, 3), din) for _ in range(rng.randint(2, 3))],
                          "stateful": rng.random() < 0.7})
    if rng.random() < 0.4:
        # integer-typed input arrays: results are still the (float) composition of the nodes
        sc["ops"].append({"op": "run", "model": 0, "X": [[str(rng.randint(-5, 5)) for _ in range(din)] for _ in range(rng.randint(1, 4))],
                          "int_input": True, "return_states": rng.choice([None, "all"])})
    return sc


def nontrivial(sc, obs):
    multi = len(sc["models"][0]["edges"]) >= 2
    moved = any(any(abs(v) > 0 for step in (ob["outs"] or []) for out in step for v in out) for ob in obs)
    return multi and moved


def run_case(sc):
    b, obs = scen.run_history(sc)
    return b, obs, scen.to_coq(sc, b, obs)


def correspondence(ctx):
    rng = ctx.rng("corr")
    n = ctx.n(120, 1200)
    terms, keep, nt, dist = [], [], set(), {}
    for i in range(n):
        sc = gen_scenario(rng, i, esn_ok=True)
        try:
            b, obs, term = run_case(sc)
        except Exception as e:  # harness-level failure on a valid scenario
            terms.append("false")
            keep.append({"scenario": scen.jsonable(sc), "harness_error": repr(e)})
            continue
        terms.append(term)
        keep.append({"scenario": scen.jsonable(sc), "observed": scen.jsonable(obs)})
        for nd in sc["nodes"]:
            dist[nd["kind"]] = dist.get(nd["kind"], 0) + 1
        dist["fanin_models"] = dist.get("fanin_models", 0) + (1 if b.extra else 0)
        dist["esn_node"] = dist.get("esn_node", 0) + (1 if sc["models"][0].get("build") == "esn" else 0)
        if nontrivial(sc, obs):
            nt.add(repr(scen.jsonable(sc)))
    failing, err = core.run_cases(ctx.pid, IMPORTS, terms, chunk=60)
    return {"evaluations": n, "distinct_nontrivial": len(nt),
            "rule": "random DAGs (2-6 nodes, fan-in/fan-out/diamonds/several entries and exits; node kinds fun, acc, Reservoir internal/external, "
                    "Ridge readout, Delay, NVAR), histories run(array) / call / run(name-keyed mapping, return_states) / stateless run; "
                    "non-trivial = at least 2 edges and a non-zero output; distinct by scenario text",
            "samples": keep[:2], "distribution": dist, "tolerance": "1e-9 relative (qclose)",
            "failing": [dict(keep[i], index=i) for i in failing], "error": err}


# ------------------------------------------------------------------------------------------ oracle on the implementation
def _viol(key, what, sc, expected=None, observed=None):
    return {"key": key, "what": what, "scenario": scen.jsonable(sc), "expected": scen.jsonable(expected), "observed": scen.jsonable(observed)}


def _judge(sc):
    """Model.run vs explicit node-by-node evaluation with the real nodes (independent of the Coq model)."""
    from reservoirpy.utils.graphflow import find_parents_and_children
    b1 = scen.Built(sc)
    b2 = scen.Built(sc)
    model = b1.models[0]
    din, entries = sc["din"], sc["entries"]
    rng = core.random.Random(str(sc.get("tag")))
    T = 4
    X = {e: scen.fl(scengen.rows(rng, T, din)) for e in entries}
    use_map = len(entries) > 1
    try:
        if use_map:
            # written with the keys in descending name order: a mapping means the same in any order
            res = model.run({b1.nodes[e].name: X[e] for e in sorted(entries, key=lambda e: b1.nodes[e].name, reverse=True)}, return_states="all")
        else:
            res = model.run(X[entries[0]], return_states="all")
    except Exception as e:
        return _viol("run:exception", "valid model run raises %r" % (e,), sc)
    # explicit evaluation on the second copy, node by node in index order (a topological order by construction)
    par = {nd["id"]: sorted(a for a, c in sc["models"][0]["edges"] if c == nd["id"]) for nd in sc["nodes"]}
    outs = {nd["id"]: [] for nd in sc["nodes"]}
    for t in range(T):
        cur = {}
        for nd in sc["nodes"]:
            i = nd["id"]
            if par[i]:
                # fan-in order of the real model (by the key parent.name + Concat name) restricted to real parents
                real_par, _ = find_parents_and_children(model.edges)
                node1 = b1.nodes[i]
                ps = real_par[node1]
                if len(ps) == 1 and ps[0].name not in b1.ids:   # a Concat was inserted
                    ps = real_par[ps[0]]
                order = [b1.ids[p.name] for p in ps]
                if sorted(order) != par[i]:
                    return _viol("graph:parents", "node %d does not receive exactly its predecessors once" % i, sc, par[i], order)
                x = np.concatenate([cur[p] for p in order], axis=1)
            else:
                x = X[i][t:t + 1]
            cur[i] = np.atleast_2d(b2.nodes[i].call(x))
            outs[i].append(cur[i].ravel())
    for nd in sc["nodes"]:
        exp = np.array(outs[nd["id"]])
        got = np.asarray(res[b1.nodes[nd["id"]].name])
        if exp.shape != got.shape or not np.allclose(exp, got, rtol=1e-12, atol=1e-12):
            return _viol("compose:node-output", "node %d (%s): Model.run differs from node-by-node evaluation" % (nd["id"], nd["kind"]),
                         sc, exp.tolist(), got.tolist())
    # requested outputs given as any iterable of names (list, tuple, set, dict keys) come from exactly the named nodes
    names = [b1.nodes[nd["id"]].name for nd in sc["nodes"]]
    if len(names) >= 2:
        ref = {i: np.asarray(res[b1.nodes[i].name]) for i in (nd["id"] for nd in sc["nodes"])}   # the return_states="all" run above
        for mk in (tuple, set, lambda l: dict.fromkeys(l).keys()):
            b4 = scen.Built(sc)          # a fresh copy per form: hidden memory must not differ between the compared runs
            m4 = b4.models[0]
            names4 = {nd["id"]: b4.nodes[nd["id"]].name for nd in sc["nodes"]}
            arg = {b4.nodes[e].name: X[e] for e in entries} if use_map else X[entries[0]]
            form = mk(list(names4.values()))
            try:
                got = m4.run(arg, return_states=form)
            except Exception as e:
                return _viol("return_states:iterable-form", "return_states given as %s raises %r" % (type(form).__name__, e), sc)
            if not isinstance(got, dict) or sorted(got) != sorted(names4.values()) or \
                    any(not np.allclose(got[names4[i]], ref[i], atol=1e-12) for i in names4):
                return _viol("return_states:iterable-form", "return_states given as %s does not return the named nodes' states" % type(form).__name__, sc)
    # a PROPER SUBSET of the nodes requested by name: the named states are returned, and every node of the model has still been
    # evaluated at every step (its state afterwards, and whatever a later run returns, are those of the complete evaluation)
    if len(names) >= 2:
        b5, b6 = scen.Built(sc), scen.Built(sc)
        m5, m6 = b5.models[0], b6.models[0]
        ids = [nd["id"] for nd in sc["nodes"]]
        sub = sorted(rng.sample(ids, rng.randint(1, len(ids) - 1)))
        arg5 = {b5.nodes[e].name: X[e] for e in entries} if use_map else X[entries[0]]
        arg6 = {b6.nodes[e].name: X[e] for e in entries} if use_map else X[entries[0]]
        try:
            got = m5.run(arg5, return_states=[b5.nodes[i].name for i in sub])
            allr = m6.run(arg6, return_states="all")
            if not isinstance(got, dict) or sorted(got) != sorted(b5.nodes[i].name for i in sub) or \
                    any(not np.allclose(got[b5.nodes[i].name], allr[b6.nodes[i].name], atol=1e-12) for i in sub):
                return _viol("return_states:subset:wrong-values", "return_states=<some node names> does not return those nodes' states", sc)
            for i in ids:
                s5, s6 = b5.nodes[i].state(), b6.nodes[i].state()
                if (s5 is None) != (s6 is None) or (s5 is not None and not np.allclose(s5, s6, atol=1e-12)):
                    return _viol("return_states:subset:node-not-evaluated", "after run(return_states=%s) node %d does not hold the state the complete "
                                 "evaluation gives it" % (sub, i), sc, None if s6 is None else np.asarray(s6).tolist(), None if s5 is None else np.asarray(s5).tolist())
            X2 = {e: scen.fl(scengen.rows(rng, 2, din)) for e in entries}
            r5 = m5.run({b5.nodes[e].name: X2[e] for e in entries} if use_map else X2[entries[0]], return_states="all")
            r6 = m6.run({b6.nodes[e].name: X2[e] for e in entries} if use_map else X2[entries[0]], return_states="all")
            if any(not np.allclose(r5[b5.nodes[i].name], r6[b6.nodes[i].name], atol=1e-12) for i in ids):
                return _viol("return_states:subset:later-run-differs", "a run that follows run(return_states=%s) differs from the same run after a complete run" % sub, sc)
        except Exception as e:  # noqa: BLE001
            return _viol("return_states:subset:exception", "run(return_states=<some node names>) raises %r" % (e,), sc)
    # result form: one output and no return_states -> bare array; otherwise keyed by name
    b3 = scen.Built(sc)
    m3 = b3.models[0]
    r3 = m3.run({b3.nodes[e].name: X[e] for e in entries} if use_map else X[entries[0]])
    n_out = len(m3.output_nodes)
    if n_out == 1 and not isinstance(r3, np.ndarray):
        return _viol("result:form", "single-output model does not return a bare array", sc)
    if n_out > 1 and (not isinstance(r3, dict) or sorted(r3) != sorted(n.name for n in m3.output_nodes)):
        return _viol("result:form", "multi-output model does not return outputs keyed by output node names", sc)
    return None


def _judge_dtype(rng, tag):
    """A node with a non-default dtype inside a model: its state (what the model reports for it) is its forward result cast to that dtype, and
    every successor is evaluated on THAT value -- the reported states are a solution of the graph equations."""
    import reservoirpy as rpy
    rpy.verbosity(0)
    from reservoirpy.node import Node
    from reservoirpy.nodes import Input

    def init(node, x=None, **kw):
        node.set_input_dim(x.shape[1]); node.set_output_dim(x.shape[1])
    for dt in (np.int64, np.float32):
        sc = {"tag": tag, "kind": "dtype", "dtype": np.dtype(dt).name}
        try:
            A = Node(forward=lambda n, x: 0.75 * x + 0.3, initializer=init, dtype=dt, name="dt%s%s_A" % (tag, sc["dtype"]))
            B = Node(forward=lambda n, x: 2.0 * x, initializer=init, name="dt%s%s_B" % (tag, sc["dtype"]))
            m = Input(name="dt%s%s_in" % (tag, sc["dtype"])) >> A >> B
            X = scen.fl(scengen.rows(rng, 4, 2)) * 3.0
            res = m.run(X, return_states="all")
            a, b = np.asarray(res[A.name], dtype=float), np.asarray(res[B.name], dtype=float)
            want_a = (0.75 * X + 0.3).astype(dt).astype(float)
        except Exception as e:  # noqa: BLE001
            return _viol("dtype:exception", "a model with a %s node raises %r" % (sc["dtype"], e), sc)
        if not np.allclose(a, want_a, rtol=0, atol=1e-12):
            return _viol("dtype:state-not-cast", "the reported state of a dtype=%s node is not its forward result cast to that dtype" % sc["dtype"], sc, want_a.tolist(), a.tolist())
        if not np.allclose(b, 2.0 * a, rtol=0, atol=1e-12):
            return _viol("dtype:successor-fed-other-value", "the successor of a dtype=%s node was not evaluated on that node's (cast) state: reported states are "
                         "not a solution of the graph equations (max abs deviation %.3g)" % (sc["dtype"], float(np.max(np.abs(b - 2.0 * a)))), sc, (2.0 * a).tolist(), b.tolist())
    return None


def judge(case):
    return _judge(case["scenario"])


def oracle(ctx, scale=1):
    rng = ctx.rng("oracle")
    n = ctx.n(60, 600) * scale
    out = []
    for i in range(n):
        sc = gen_scenario(rng, "o%d" % i)
        v = _judge(sc)
        if v:
            out.append(v)
    v = _judge_dtype(rng, "%d" % ctx.seed)
    if v:
        out.append(v)
    return {"evaluations": n + 2, "violations": out,
            "rule": "Model.run(return_states='all') vs explicit evaluation of each real node after its predecessors; result form; nodes with a non-default dtype"}


def replay(payload):
    if (payload.get("scenario") or {}).get("kind") == "dtype":
        v = _judge_dtype(core.random.Random(0), "rp")
        return {"violates": bool(v), "detail": v}
    v = _judge(payload["scenario"])
    return {"violates": bool(v), "detail": v}
