"""C02 — a model computes the composition of its nodes along the graph."""
import numpy as np

from vlib import core, scen, scengen

IMPORTS = scen.IMPORTS
TRUSTED = ["fan-in order and execution order are read from the real Model (graphflow.find_parents_and_children, model.nodes); "
           "the model checks that the observed execution order is a topological order (is_topo) instead of predicting it",
           "node forward functions of coq/model/Kinds.v as renderings of Reservoir / Ridge / Delay / NVAR / custom nodes"]
ASSUMPTIONS = ["small dyadic weights and inputs: float64 arithmetic is exact on these paths",
               "at rest all state proxies are None (no operation is nested inside another one)"]


def gen_scenario(rng, i, esn_ok=False):
    if esn_ok and rng.random() < 0.12:
        # the ESN convenience node computes the composition reservoir >> readout (run on copies, results carried back)
        nodes, models, din = scengen.gen_esn(rng, fb=False)
        edges, entries = [[0, 1]], [0]
        sc = {"nodes": nodes, "models": models, "ops": [], "entries": entries, "din": din, "tag": i}
    else:
        nodes, edges, entries, din = scengen.gen_dag(rng)
        sc = {"nodes": nodes, "models": scengen.chain_models(nodes, edges), "ops": [], "entries": entries, "din": din, "tag": i}
    if len(nodes) >= 3 and rng.random() < 0.35:
        # same graph assembled in place:  Model(first nodes) &= Model(rest)
        sc["models"][0].update(build="iand", cut=rng.randint(1, len(nodes) - 1))
    T = rng.randint(1, 5)
    sc["ops"].append({"op": "run", "model": 0, "X": scengen.rows(rng, T, din)})
    sc["ops"].append({"op": "call", "model": 0, "x": scengen.rows(rng, 1, din)[0]})
    # name-keyed input: every entry gets its own data
    T2 = rng.randint(1, 4)
    sc["ops"].append({"op": "run", "model": 0, "X": {str(e): scengen.rows(rng, T2, din) for e in entries},
                      "return_states": rng.choice([None, "all"]), "rev_keys": len(entries) > 1})
    if rng.random() < 0.5:
        sc["ops"].append({"op": "run", "model": 0, "X": scengen.rows(rng, rng.randint(1, 3), din), "stateful": False})
    if rng.random() < 0.4:
        # one run over a list of sequences (for a Model: the same operation on every sequence in turn)
        sc["ops"].append({"op": "runs", "model": 0, "Xs": [scengen.rows(rng, rng.randint(1, 3), din) for _ in range(rng.randint(2, 3))],
                          "stateful": rng.random() < 0.7})
    if rng.random() < 0.4:
        # integer-typed input arrays: results are still the (float) composition of the nodes
        sc["ops"].append({"op": "run", "model": 0, "X": [[str(rng.randint(-5, 5)) for _ in range(din)] for _ in range(rng.randint(1, 4))],
                          "int_input": True, "return_states": rng.choice([None, "all"])})
    return sc


def nontrivial(sc, obs):
    multi = len(sc["models"][0]["edges"]) >= 2
    moved = any(any(abs(v) > 0 for step in (ob["outs"] or []) for out in step for v in out) for ob in obs)
    return multi and moved


def run_case(sc):
    b, obs = scen.run_history(sc)
    return b, obs, scen.to_coq(sc, b, obs)


def correspondence(ctx):
    rng = ctx.rng("corr")
    n = ctx.n(120, 1200)
    terms, keep, nt, dist = [], [], set(), {}
    for i in range(n):
        sc = gen_scenario(rng, i, esn_ok=True)
        try:
            b, obs, term = run_case(sc)
        except Exception as e:  # harness-level failure on a valid scenario
            terms.append("false")
            keep.append({"scenario": scen.jsonable(sc), "harness_error": repr(e)})
            continue
        terms.append(term)
        keep.append({"scenario": scen.jsonable(sc), "observed": scen.jsonable(obs)})
        for nd in sc["nodes"]:
            dist[nd["kind"]] = dist.get(nd["kind"], 0) + 1
        dist["fanin_models"] = dist.get("fanin_models", 0) + (1 if b.extra else 0)
        dist["esn_node"] = dist.get("esn_node", 0) + (1 if sc["models"][0].get("build") == "esn" else 0)
        if nontrivial(sc, obs):
            nt.add(repr(scen.jsonable(sc)))
    failing, err = core.run_cases(ctx.pid, IMPORTS, terms, chunk=60)
    res = {"evaluations": n, "distinct_nontrivial": len(nt),
           "rule": "random DAGs (2-6 nodes, fan-in/fan-out/diamonds/several entries and exits; node kinds fun, acc, Reservoir internal/external, "
                   "Ridge readout, Delay, NVAR), histories run(array) / call / run(name-keyed mapping, return_states) / stateless run; "
                   "non-trivial = at least 2 edges and a non-zero output; distinct by scenario text",
           "samples": keep[:2], "distribution": dist, "tolerance": "1e-9 relative (qclose)",
           "failing": [dict(keep[i], index=i) for i in failing], "error": err}
    # second family: the data plumbing around the model (coq/model/Mapping.v); counts are merged
    mp = mapping_correspondence(ctx)
    res["evaluations"] += mp["evaluations"]
    res["distinct_nontrivial"] += mp["distinct_nontrivial"]
    res["rule"] += " || " + mp["rule"]
    res["samples"] = res["samples"] + mp["samples"]
    res["distribution"].update(mp["distribution"])
    res["failing"] += [dict(c, index=n + c["index"], family="mapping") for c in mp["failing"]]
    if mp["error"]:
        res["error"] = (res["error"] or "") + "[mapping family] " + mp["error"]
    return res


# ------------------------------------------------------------------------------------------ family "mapping" (coq/model/Mapping.v)
# The data plumbing of Model.run / Model.fit: utils/model_utils.py (to_ragged_seq_set, build_mapping, to_data_mapping, unfold_mapping,
# fold_mapping, allocate_returned_states) and Model.run's loop over sequences, against coq/run/RunMapping.v.
TRUSTED += ["family mapping: model.nodes / input_nodes / output_nodes (and their orders) and the is_trainable / unsupervised / fitted flags are read from the "
            "real Model; _base.check_xy is modelled only as the acceptance test 'every receiver node is named' (its dimension checks and array "
            "conversions are not modelled; scenarios keep dimensions consistent)"]
ASSUMPTIONS += ["family mapping: under one sequence index all named inputs have the same number of timesteps (graphflow.dispatch takes the first key's "
                "length and indexes the others: shorter ones raise IndexError, longer ones are silently cut - not modelled)",
                "family mapping: Model.run without forced feedbacks (forced feedbacks over several sequences are covered by the 'runs' operation of "
                "the scenario language)"]
MAP_IMPORTS = ("From Coq Require Import List QArith.\nFrom RV Require Import base.Num model.ModelSem model.Kinds model.Mapping run.RunModel "
               "run.RunMapping.\nImport ListNotations.\nOpen Scope Q_scope.")
_mp_uid = [0]


def _mp_real(v):
    """A scenario value {"f": form, "v": payload} as the real object handed to reservoirpy."""
    f, x = v["f"], v["v"]
    if f == "arr1":
        return np.array([float(core.frac(a)) for a in x], dtype=float)
    if f == "arr2":
        return scen.fl(x)
    if f == "arr3":
        return np.stack([scen.fl(r) for r in x])
    return [scen.fl(r) for r in x]


def _mp_value_term(v):
    f, x = v["f"], v["v"]
    if f == "arr1":
        return "(VArr1 %s)" % core.qvec(x)
    if f == "arr2":
        return "(VArr2 %s)" % core.qmat(x)
    return "(%s %s)" % ("VArr3" if f == "arr3" else "VList", core.coqlist([core.qmat(r) for r in x]))


def _mp_data_real(d, name_of):
    if "map" in d:
        return {name_of(i): _mp_real(v) for i, v in d["map"]}
    return _mp_real(d["val"])


def _mp_data_term(d):
    if "map" in d:
        return "(DMap %s)" % core.coqlist(["(%s, %s)" % (core.nat(i), _mp_value_term(v)) for i, v in d["map"]])
    return "(DVal %s)" % _mp_value_term(d["val"])


def _mp_gen_value(rng, d, k=None, Ts=None, forms=("arr2", "arr3", "list", "list")):
    """A random value with k sequences of lengths Ts (k = 1 for the 1-D / 2-D forms)."""
    f = rng.choice(forms)
    if f in ("arr1", "arr2"):
        T = 1 if f == "arr1" else (Ts[0] if Ts else rng.randint(1, 4))
        r = scengen.rows(rng, T, d)
        return {"f": f, "v": r[0] if f == "arr1" else r}
    k = k or rng.randint(1, 3)
    if f == "arr3":
        T = Ts[0] if Ts else rng.randint(1, 4)
        if Ts and len(set(Ts)) > 1:
            f = "list"
        else:
            return {"f": "arr3", "v": [scengen.rows(rng, T, d) for _ in range(k)]}
    Ts = Ts or [rng.randint(1, 4) for _ in range(k)]
    return {"f": "list", "v": [scengen.rows(rng, Ts[j], d) for j in range(k)]}


def _mp_nseq(v):
    return 1 if v["f"] in ("arr1", "arr2") else len(v["v"])


def _mp_arr_term(a):
    return core.qmat(np.asarray(a, dtype=float).reshape(np.shape(a)[0], -1).tolist())


def _mp_dict_term(d, id_of, f):
    return core.coqlist(["(%s, %s)" % (core.nat(id_of(k)), f(v)) for k, v in d.items()])


def _mp_result_term(res, id_of):
    if isinstance(res, np.ndarray):
        return "(RBare %s)" % _mp_arr_term(res)
    if isinstance(res, list):
        return "(RBareList %s)" % core.coqlist([_mp_arr_term(a) for a in res])
    if isinstance(res, dict):
        if any(isinstance(v, list) for v in res.values()):
            return "(RDictList %s)" % _mp_dict_term(res, id_of, lambda l: core.coqlist([_mp_arr_term(a) for a in l]))
        return "(RDict %s)" % _mp_dict_term(res, id_of, _mp_arr_term)
    return "RErr"


def _mp_rs_term(rs):
    if rs is None:
        return "RsNone"
    if rs == "all":
        return "RsAll"
    return "(RsNames %s)" % core.coqlist([core.nat(i) for i in rs])


def _mp_mm_term(model, id_of):
    mn = lambda n: "mkMN %s %s %s %s" % (core.nat(id_of(n.name)), core.coqbool(bool(n.is_trainable)), core.coqbool(bool(n.unsupervised)),
                                         core.coqbool(bool(n.fitted)))
    return "(mkMM %s %s %s)" % (core.coqlist([mn(n) for n in model.nodes]), core.coqlist([mn(n) for n in model.input_nodes]),
                                core.coqlist([mn(n) for n in model.output_nodes]))


# ---- (a) plumbing on small real models that are never run
def _mp_gen_plumb(rng, i):
    n = rng.randint(2, 5)
    kinds = [rng.choice(["plain", "plain", "ridge", "ridge", "unsup", "ipres", "input"]) for _ in range(n)]
    edges = []
    for j in range(1, n):
        for a in range(j):
            if kinds[j] != "input" and rng.random() < 0.4:
                edges.append([a, j])
    d = rng.randint(1, 2)
    sc = {"family": "mapping", "sub": "plumb", "tag": i, "kinds": kinds, "edges": edges, "d": d}
    receivers = set(b for _, b in edges)
    entries = [j for j in range(n) if j not in receivers]
    sup = [j for j in range(n) if kinds[j] == "ridge"]
    # X
    r = rng.random()
    if r < 0.45:
        sc["X"] = {"val": _mp_gen_value(rng, d, forms=("arr1", "arr2", "arr3", "list", "list"))}
    else:
        k = rng.randint(1, 3)
        Ts = [rng.randint(1, 4) for _ in range(k)]
        items = [[e, _mp_gen_value(rng, d, k, Ts, forms=("arr2", "arr3", "list") if k == 1 else ("arr3", "list"))] for e in entries]
        u = rng.random()
        if u < 0.15 and len(items) > 1:
            items.pop(rng.randrange(len(items)))                          # an input node is not named: refused
        elif u < 0.30 and len(items) > 1:
            items[rng.randrange(len(items))][1] = _mp_gen_value(rng, d, k + 1, None, forms=("list",))   # inconsistent numbers of sequences
        elif u < 0.45:
            items.append([rng.choice([j for j in range(n)] + [900]), _mp_gen_value(rng, d, k, Ts, forms=("list",))])  # a further name
            if items[-1][0] in [a for a, _ in items[:-1]]:
                items.pop()
        rng.shuffle(items)
        sc["X"] = {"map": items}
    # Y
    r = rng.random()
    if r < 0.35:
        sc["Y"] = None
    elif r < 0.6:
        sc["Y"] = {"val": _mp_gen_value(rng, d, forms=("arr2", "arr3", "list"))}
    else:
        k = rng.randint(1, 3)
        Ts = [rng.randint(1, 4) for _ in range(k)]
        items = [[e, _mp_gen_value(rng, d, k, Ts, forms=("arr2", "list") if k == 1 else ("arr3", "list"))] for e in sup]
        if items and rng.random() < 0.2:
            items.pop(rng.randrange(len(items)))
        if len(items) > 1 and rng.random() < 0.2:
            items[0][1] = _mp_gen_value(rng, d, k + 1, None, forms=("list",))
        sc["Y"] = {"map": items}
    # a mapping of lists handed to unfold_mapping directly
    k = rng.randint(1, 3)
    keysu = rng.sample(range(n), rng.randint(0 if rng.random() < 0.1 else 1, n))
    sc["U"] = [[j, [scengen.rows(rng, rng.randint(1, 3), d) for _ in range(k + (1 if rng.random() < 0.15 else 0))]] for j in keysu]
    # states handed to fold_mapping directly
    sc["rs"] = rng.choice([None, None, "all", "names"])
    sc["nstates"] = rng.randint(1, 3)
    sc["ragged_keys"] = rng.random() < 0.15
    return sc


def _mp_build_plumb(sc):
    import reservoirpy as rpy
    rpy.verbosity(0)
    from reservoirpy.model import Model
    from reservoirpy.node import Node, Unsupervised
    from reservoirpy.nodes import Input, IPReservoir, Ridge
    _mp_uid[0] += 1
    pre = "mp%d_" % _mp_uid[0]

    def init(node, x=None, **kw):
        node.set_input_dim(x.shape[1]); node.set_output_dim(x.shape[1])
    nodes = []
    for j, k in enumerate(sc["kinds"]):
        nm = "%sn%d" % (pre, j)
        if k == "plain":
            nodes.append(Node(forward=lambda nd, x: x, initializer=init, name=nm))
        elif k == "ridge":
            nodes.append(Ridge(output_dim=sc["d"], name=nm))
        elif k == "unsup":
            nodes.append(Unsupervised(forward=lambda nd, x: x, initializer=init, partial_backward=lambda *a, **kw: None,
                                      backward=lambda *a, **kw: None, name=nm))
        elif k == "ipres":
            nodes.append(IPReservoir(2, name=nm))
        else:
            nodes.append(Input(name=nm))
    model = Model(nodes, [(nodes[a], nodes[b]) for a, b in sc["edges"]], name=pre + "m")
    ids = {n.name: j for j, n in enumerate(nodes)}
    ids[pre + "zz"] = 900
    extra = [n for n in model.nodes if n.name not in ids]
    for q_, n in enumerate(extra):
        ids[n.name] = 1000 + q_
    names = {v: k for k, v in ids.items()}
    return model, ids, names


def _mp_plumb_terms(sc):
    """Run the real helper functions on one plumbing scenario; returns the list of chk_* terms."""
    from reservoirpy.utils import model_utils as mu
    model, ids, names = _mp_build_plumb(sc)
    id_of, name_of = (lambda nm: ids[nm]), (lambda i: names[i])
    mm = _mp_mm_term(model, id_of)
    seqs = lambda l: core.coqlist([_mp_arr_term(a) for a in l])
    terms = []
    # to_data_mapping
    X = _mp_data_real(sc["X"], name_of)
    Y = None if sc["Y"] is None else _mp_data_real(sc["Y"], name_of)
    try:
        xs, ys = mu.to_data_mapping(model, X, Y)
        obs = "(Some (%s, %s))" % (core.coqlist([_mp_dict_term(m, id_of, _mp_arr_term) for m in xs]),
                                   core.coqlist(["None" if m is None else "(Some %s)" % _mp_dict_term(m, id_of, _mp_arr_term) for m in ys]))
    except (ValueError, IndexError, KeyError):
        obs = "None"
    terms.append("chk_to_data_mapping %s %s %s %s" % (mm, _mp_data_term(sc["X"]), "None" if sc["Y"] is None else "(Some %s)" % _mp_data_term(sc["Y"]), obs))
    # build_mapping on the input nodes / the trainable nodes
    for d, nodes, tgt in ((sc["X"], model.input_nodes, False), (sc["Y"], model.trainable_nodes, True)):
        if d is None:
            continue
        got = mu.build_mapping(nodes, _mp_data_real(d, name_of), io_type="target" if tgt else "input")
        mn = lambda n: "mkMN %s %s %s %s" % (core.nat(id_of(n.name)), core.coqbool(bool(n.is_trainable)), core.coqbool(bool(n.unsupervised)), core.coqbool(bool(n.fitted)))
        terms.append("chk_build_mapping %s %s %s %s" % (core.coqlist([mn(n) for n in nodes]), _mp_data_term(d), core.coqbool(tgt),
                                                        _mp_dict_term(got, id_of, lambda l: seqs(list(l)))))
    # unfold_mapping
    dm = {name_of(j): [scen.fl(r) for r in l] for j, l in sc["U"]}
    try:
        obs = "(Some %s)" % core.coqlist([_mp_dict_term(m, id_of, _mp_arr_term) for m in mu.unfold_mapping(dm)])
    except (ValueError, IndexError):
        obs = "None"
    terms.append("chk_unfold %s %s" % (core.coqlist(["(%s, %s)" % (core.nat(j), core.coqlist([core.qmat(r) for r in l])) for j, l in sc["U"]]), obs))
    # fold_mapping on per-sequence state dicts keyed like allocate_returned_states keys them
    rng = core.random.Random("fold/%s" % sc["tag"])
    if sc["rs"] is None:
        keysf, rs = [ids[n.name] for n in model.output_nodes], None
    elif sc["rs"] == "all":
        keysf, rs = [ids[n.name] for n in model.nodes], "all"
    else:
        rs = [ids[n.name] for n in rng.sample(model.nodes, rng.randint(1, len(model.nodes)))]
        keysf = list(rs)
    states = []
    for j in range(sc["nstates"]):
        ks = list(keysf)
        if sc["ragged_keys"] and j > 0:
            ks = list(reversed(ks))[:max(1, len(ks) - 1)] + [900]
        T = rng.randint(1, 3)
        states.append([[k, scengen.rows(rng, T, sc["d"])] for k in ks])
    real_states = [{name_of(k): scen.fl(r) for k, r in st} for st in states]
    try:
        got = mu.fold_mapping(model, real_states, None if rs is None else ("all" if rs == "all" else [name_of(k) for k in rs]))
        obs = _mp_result_term(got, id_of)
    except KeyError:
        obs = "RErr"
    terms.append("chk_fold %s %s %s %s" % (mm, core.coqlist([core.coqlist(["(%s, %s)" % (core.nat(k), core.qmat(r)) for k, r in st]) for st in states]),
                                           _mp_rs_term(rs), obs))
    return terms


# ---- (b) Model.run on scenario models (the node kinds of the scenario language), every input / return_states form
def _mp_gen_run(rng, i):
    nodes, edges, entries, din = scengen.gen_dag(rng, n=rng.randint(2, 5))
    sc = {"family": "mapping", "sub": "run", "nodes": nodes, "models": scengen.chain_models(nodes, edges), "ops": [], "entries": entries,
          "din": din, "tag": i, "runs": []}
    for _ in range(rng.randint(1, 2)):
        k = rng.randint(1, 3)
        Ts = [rng.randint(1, 3) for _ in range(k)]
        if rng.random() < 0.5:
            X = {"val": _mp_gen_value(rng, din, k, Ts, forms=("arr1", "arr2") if (k == 1 and rng.random() < 0.5) else ("arr3", "list", "list"))}
        else:
            X = {"map": [[e, _mp_gen_value(rng, din, k, Ts, forms=("arr2", "list", "arr3") if k == 1 else ("arr3", "list"))] for e in entries]}
            rng.shuffle(X["map"])
        r = rng.random()
        rs = None if r < 0.4 else ("all" if r < 0.65 else "names")
        if rs == "names":
            ids = [nd["id"] for nd in nodes]
            rs = rng.sample(ids, rng.randint(1, len(ids)))
            if rng.random() < 0.3:
                rs.append(rs[0])
        sc["runs"].append({"X": X, "rs": rs, "stateful": rng.random() < 0.75, "reset": rng.random() < 0.3})
    return sc


def _mp_nodes_models_terms(sc, b):
    """The static part of scen.to_coq (node and model records, inserted Concat nodes) for model 0."""
    nodes = ["mkSN %s %s %s %s %s" % (core.nat(nd["id"]), scen.kind_term(nd), scen.fb_term(nd, b), core.nat(nd["odim"]), scen.hid_term(nd))
             for nd in sc["nodes"]]
    order, parents, outs = b.model_struct(0)
    odim = {nd["id"]: nd["odim"] for nd in sc["nodes"]}
    for i in order:
        if i >= 1000 and i not in odim:
            odim[i] = sum(odim.get(p, 0) for p in parents.get(i, []))
            nodes.append("mkSN %s KId None %s []" % (core.nat(i), core.nat(odim[i])))
    sm = "(mkSM %s %s %s)" % (core.coqlist([core.nat(i) for i in order]),
                              core.coqlist(["(%s, %s)" % (core.nat(c), core.coqlist([core.nat(p) for p in ps])) for c, ps in sorted(parents.items())]),
                              core.coqlist([core.nat(i) for i in outs]))
    return core.coqlist(nodes), sm


def _mp_states(b):
    st = {}
    for i, n in b.all_nodes().items():
        s = n.state() if getattr(n, "is_initialized", False) else None
        if s is not None:
            st[i] = np.asarray(s, dtype=float).ravel().tolist()
    return st


def _mp_run_terms(sc):
    from reservoirpy.utils import model_utils as mu
    b = scen.Built(sc)
    model = b.models[0]
    b.model_struct(0)                       # registers inserted Concat nodes (ids >= 1000)
    id_of = lambda nm: b.ids[nm]
    name_of = lambda i: b.all_nodes()[int(i)].name
    mm = _mp_mm_term(model, id_of)
    nodes_t, sm_t = _mp_nodes_models_terms(sc, b)
    obs, moved = [], False
    for r in sc["runs"]:
        kw = dict(stateful=r["stateful"], reset=r["reset"])
        if r["rs"] is not None:
            kw["return_states"] = "all" if r["rs"] == "all" else [name_of(i) for i in r["rs"]]
        res = model.run(_mp_data_real(r["X"], name_of), **kw)
        obs.append(_mp_result_term(res, id_of))
        flat = res if isinstance(res, np.ndarray) else np.concatenate([np.ravel(a) for v in (res.values() if isinstance(res, dict) else [res])
                                                                       for a in (v if isinstance(v, list) else [v])])
        moved = moved or bool(np.any(np.asarray(flat) != 0))
    states = scen.pairs(_mp_states(b), core.qvec)
    R = sc["runs"]
    args = lambda r, o: "%s %s %s %s %s" % (core.coqbool(r["stateful"]), core.coqbool(r["reset"]), _mp_data_term(r["X"]), _mp_rs_term(r["rs"]), o)
    if len(R) == 1:
        r = R[0]
        terms = ["chk_model_run %s %s %s %s %s [] %s %s true %s %s" % (nodes_t, sm_t, mm, core.coqbool(r["stateful"]), core.coqbool(r["reset"]),
                                                                      _mp_data_term(r["X"]), _mp_rs_term(r["rs"]), obs[0], states)]
    else:
        terms = ["chk_model_run2 %s %s %s %s %s %s" % (nodes_t, sm_t, mm, args(R[0], obs[0]), args(R[1], obs[1]), states)]
    # allocate_returned_states on the (now initialised) model: names, and one zero row per timestep and output dimension per name
    T = 3
    inputs = {n.name: np.zeros((T, n.input_dim if isinstance(n.input_dim, int) else 1)) for n in model.input_nodes}
    for rs in (None, "all", R[0]["rs"] if isinstance(R[0]["rs"], list) else [sc["nodes"][0]["id"], 900]):
        try:
            al = mu.allocate_returned_states(model, inputs, None if rs is None else ("all" if rs == "all" else [name_of(i) if i != 900 else "no_such_node" for i in rs]))
            ok_shapes = all(np.shape(v) == (T, model[k].output_dim) and not np.any(v) for k, v in al.items())
            o = "(Some %s)" % core.coqlist([core.nat(id_of(k)) for k in al]) if ok_shapes else "(Some [4242%nat])"
        except KeyError:
            o = "None"
        terms.append("chk_alloc %s %s %s" % (mm, _mp_rs_term(rs), o))
    return terms, moved


def _mp_nontrivial(sc):
    if sc["sub"] == "plumb":
        return "map" in sc["X"] or _mp_nseq(sc["X"]["val"]) >= 2
    return any("map" in r["X"] or _mp_nseq(r["X"]["val"]) >= 2 for r in sc["runs"])


def mapping_correspondence(ctx):
    """Correspondence family of coq/model/Mapping.v.  Returns the same kind of dict as `correspondence`."""
    rng = ctx.rng("corr-mapping")
    n_pl, n_run = ctx.n(90, 900), ctx.n(45, 450)
    terms, keep, nt, dist = [], [], set(), {}
    scs = [_mp_gen_plumb(rng, "p%d" % i) for i in range(n_pl)] + [_mp_gen_run(rng, "r%d" % i) for i in range(n_run)]
    for sc in scs:
        try:
            if sc["sub"] == "plumb":
                ts, moved = _mp_plumb_terms(sc), True
            else:
                ts, moved = _mp_run_terms(sc)
        except Exception as e:  # noqa: BLE001 - a valid scenario must not make the real functions (or the harness) fail
            terms.append("false")
            keep.append({"scenario": scen.jsonable(sc), "harness_error": repr(e)})
            continue
        terms.append("(" + ") && (".join(ts) + ")" if len(ts) > 1 else ts[0])
        keep.append({"scenario": scen.jsonable(sc), "checks": len(ts)})
        dist["mapping:" + sc["sub"]] = dist.get("mapping:" + sc["sub"], 0) + 1
        for d in ([sc["X"]] if sc["sub"] == "plumb" else [r["X"] for r in sc["runs"]]):
            f = "mapping:X=" + ("dict" if "map" in d else d["val"]["f"])
            dist[f] = dist.get(f, 0) + 1
        if moved and _mp_nontrivial(sc):
            nt.add(repr(scen.jsonable(sc)))
    failing, err = core.run_cases(ctx.pid + "_mapping", MAP_IMPORTS, terms, chunk=20)
    return {"evaluations": len(scs), "distinct_nontrivial": len(nt),
            "rule": "family mapping (model/Mapping.v): the real to_data_mapping / build_mapping / unfold_mapping / fold_mapping / allocate_returned_states on "
                    "small models (plain, Ridge, Unsupervised, IPReservoir, Input nodes) with 1-D / 2-D / 3-D arrays, lists and name-keyed mappings of 1-3 "
                    "sequences of different lengths (also refused ones: missing input name, unequal numbers of sequences), and Model.run with every input "
                    "form x return_states None / 'all' / names x stateful / reset, one or two runs in a row; keys and key order, nesting form, numbers and "
                    "lengths of sequences compared exactly, values within 1e-9; non-trivial = a mapping or >= 2 sequences (and a non-zero output for runs)",
            "samples": keep[:1], "distribution": dist, "failing": [dict(keep[i], index=i) for i in failing], "error": err}


# ------------------------------------------------------------------------------------------ oracle on the implementation
def _viol(key, what, sc, expected=None, observed=None):
    return {"key": key, "what": what, "scenario": scen.jsonable(sc), "expected": scen.jsonable(expected), "observed": scen.jsonable(observed)}


def _judge(sc):
    """Model.run vs explicit node-by-node evaluation with the real nodes (independent of the Coq model)."""
    from reservoirpy.utils.graphflow import find_parents_and_children
    b1 = scen.Built(sc)
    b2 = scen.Built(sc)
    model = b1.models[0]
    din, entries = sc["din"], sc["entries"]
    rng = core.random.Random(str(sc.get("tag")))
    T = 4
    X = {e: scen.fl(scengen.rows(rng, T, din)) for e in entries}
    use_map = len(entries) > 1
    try:
        if use_map:
            # written with the keys in descending name order: a mapping means the same in any order
            res = model.run({b1.nodes[e].name: X[e] for e in sorted(entries, key=lambda e: b1.nodes[e].name, reverse=True)}, return_states="all")
        else:
            res = model.run(X[entries[0]], return_states="all")
    except Exception as e:
        return _viol("run:exception", "valid model run raises %r" % (e,), sc)
    # explicit evaluation on the second copy, node by node in index order (a topological order by construction)
    par = {nd["id"]: sorted(a for a, c in sc["models"][0]["edges"] if c == nd["id"]) for nd in sc["nodes"]}
    outs = {nd["id"]: [] for nd in sc["nodes"]}
    for t in range(T):
        cur = {}
        for nd in sc["nodes"]:
            i = nd["id"]
            if par[i]:
                # fan-in order of the real model (by the key parent.name + Concat name) restricted to real parents
                real_par, _ = find_parents_and_children(model.edges)
                node1 = b1.nodes[i]
                ps = real_par[node1]
                if len(ps) == 1 and ps[0].name not in b1.ids:   # a Concat was inserted
                    ps = real_par[ps[0]]
                order = [b1.ids[p.name] for p in ps]
                if sorted(order) != par[i]:
                    return _viol("graph:parents", "node %d does not receive exactly its predecessors once" % i, sc, par[i], order)
                x = np.concatenate([cur[p] for p in order], axis=1)
            else:
                x = X[i][t:t + 1]
            cur[i] = np.atleast_2d(b2.nodes[i].call(x))
            outs[i].append(cur[i].ravel())
    for nd in sc["nodes"]:
        exp = np.array(outs[nd["id"]])
        got = np.asarray(res[b1.nodes[nd["id"]].name])
        if exp.shape != got.shape or not np.allclose(exp, got, rtol=1e-12, atol=1e-12):
            return _viol("compose:node-output", "node %d (%s): Model.run differs from node-by-node evaluation" % (nd["id"], nd["kind"]),
                         sc, exp.tolist(), got.tolist())
    # requested outputs given as any iterable of names (list, tuple, set, dict keys) come from exactly the named nodes
    names = [b1.nodes[nd["id"]].name for nd in sc["nodes"]]
    if len(names) >= 2:
        ref = {i: np.asarray(res[b1.nodes[i].name]) for i in (nd["id"] for nd in sc["nodes"])}   # the return_states="all" run above
        for mk in (tuple, set, lambda l: dict.fromkeys(l).keys()):
            b4 = scen.Built(sc)          # a fresh copy per form: hidden memory must not differ between the compared runs
            m4 = b4.models[0]
            names4 = {nd["id"]: b4.nodes[nd["id"]].name for nd in sc["nodes"]}
            arg = {b4.nodes[e].name: X[e] for e in entries} if use_map else X[entries[0]]
            form = mk(list(names4.values()))
            try:
                got = m4.run(arg, return_states=form)
            except Exception as e:
                return _viol("return_states:iterable-form", "return_states given as %s raises %r" % (type(form).__name__, e), sc)
            if not isinstance(got, dict) or sorted(got) != sorted(names4.values()) or \
                    any(not np.allclose(got[names4[i]], ref[i], atol=1e-12) for i in names4):
                return _viol("return_states:iterable-form", "return_states given as %s does not return the named nodes' states" % type(form).__name__, sc)
    # a PROPER SUBSET of the nodes requested by name: the named states are returned, and every node of the model has still been
    # evaluated at every step (its state afterwards, and whatever a later run returns, are those of the complete evaluation)
    if len(names) >= 2:
        b5, b6 = scen.Built(sc), scen.Built(sc)
        m5, m6 = b5.models[0], b6.models[0]
        ids = [nd["id"] for nd in sc["nodes"]]
        sub = sorted(rng.sample(ids, rng.randint(1, len(ids) - 1)))
        arg5 = {b5.nodes[e].name: X[e] for e in entries} if use_map else X[entries[0]]
        arg6 = {b6.nodes[e].name: X[e] for e in entries} if use_map else X[entries[0]]
        try:
            got = m5.run(arg5, return_states=[b5.nodes[i].name for i in sub])
            allr = m6.run(arg6, return_states="all")
            if not isinstance(got, dict) or sorted(got) != sorted(b5.nodes[i].name for i in sub) or \
                    any(not np.allclose(got[b5.nodes[i].name], allr[b6.nodes[i].name], atol=1e-12) for i in sub):
                return _viol("return_states:subset:wrong-values", "return_states=<some node names> does not return those nodes' states", sc)
            for i in ids:
                s5, s6 = b5.nodes[i].state(), b6.nodes[i].state()
                if (s5 is None) != (s6 is None) or (s5 is not None and not np.allclose(s5, s6, atol=1e-12)):
                    return _viol("return_states:subset:node-not-evaluated", "after run(return_states=%s) node %d does not hold the state the complete "
                                 "evaluation gives it" % (sub, i), sc, None if s6 is None else np.asarray(s6).tolist(), None if s5 is None else np.asarray(s5).tolist())
            X2 = {e: scen.fl(scengen.rows(rng, 2, din)) for e in entries}
            r5 = m5.run({b5.nodes[e].name: X2[e] for e in entries} if use_map else X2[entries[0]], return_states="all")
            r6 = m6.run({b6.nodes[e].name: X2[e] for e in entries} if use_map else X2[entries[0]], return_states="all")
            if any(not np.allclose(r5[b5.nodes[i].name], r6[b6.nodes[i].name], atol=1e-12) for i in ids):
                return _viol("return_states:subset:later-run-differs", "a run that follows run(return_states=%s) differs from the same run after a complete run" % sub, sc)
        except Exception as e:  # noqa: BLE001
            return _viol("return_states:subset:exception", "run(return_states=<some node names>) raises %r" % (e,), sc)
    # result form: one output and no return_states -> bare array; otherwise keyed by name
    b3 = scen.Built(sc)
    m3 = b3.models[0]
    r3 = m3.run({b3.nodes[e].name: X[e] for e in entries} if use_map else X[entries[0]])
    n_out = len(m3.output_nodes)
    if n_out == 1 and not isinstance(r3, np.ndarray):
        return _viol("result:form", "single-output model does not return a bare array", sc)
    if n_out > 1 and (not isinstance(r3, dict) or sorted(r3) != sorted(n.name for n in m3.output_nodes)):
        return _viol("result:form", "multi-output model does not return outputs keyed by output node names", sc)
    return None


# ---- direct decisions on the real code for the mapping family (no Coq model involved)
def _mp_seqs_of(v):
    """The sequences a scenario value stands for, as float arrays."""
    if v["f"] == "arr1":
        return [scen.fl([v["v"]])]
    if v["f"] == "arr2":
        return [scen.fl(v["v"])]
    return [scen.fl(r) for r in v["v"]]


def _mp_same(a, b):
    a, b = np.asarray(a, dtype=float), np.asarray(b, dtype=float)
    return a.shape == b.shape and bool(np.allclose(a, b, rtol=1e-12, atol=1e-12))


def _judge_mapping(sc):
    from reservoirpy.utils import model_utils as mu
    if sc["sub"] == "plumb":
        model, ids, names = _mp_build_plumb(sc)
        name_of = lambda i: names[i]
        ins = [n.name for n in model.input_nodes]
        tr = [n for n in model.trainable_nodes]
        X, Y = sc["X"], sc["Y"]
        # --- which data are well-formed
        if "map" in X:
            given = {name_of(i): _mp_seqs_of(v) for i, v in X["map"]}
            x_ok = all(nm in given for nm in ins) and len(set(len(l) for l in given.values())) == 1
            x_uneq = len(set(len(l) for l in given.values())) > 1
        else:
            given, x_ok, x_uneq = {nm: _mp_seqs_of(X["val"]) for nm in ins}, True, False
        Xr = _mp_data_real(X, name_of)
        try:
            xs, _ = mu.to_data_mapping(model, Xr)
        except (ValueError, IndexError, KeyError) as e:
            if x_ok:
                return _viol("mapping:valid-input-refused", "to_data_mapping refuses a well-formed input (%r)" % (e,), sc)
            xs = None
        if xs is not None:
            if x_uneq:
                return _viol("mapping:unequal-sequence-counts-accepted", "a mapping whose keys have different numbers of sequences is accepted "
                             "(sequences are silently dropped or mixed)", sc)
            if x_ok:
                k = len(next(iter(given.values())))
                if len(xs) != k:
                    return _viol("mapping:sequence-count", "to_data_mapping yields %d sequences for an input of %d" % (len(xs), k), sc, k, len(xs))
                for j, m in enumerate(xs):
                    if "map" not in X and sorted(m) != sorted(ins):
                        return _viol("mapping:array-input:not-exactly-entries", "an array input is not given to exactly the input nodes", sc, sorted(ins), sorted(m))
                    if "map" in X and list(m) != list(given):
                        return _viol("mapping:named-input:keys", "a name-keyed input does not reach exactly the named nodes", sc, list(given), list(m))
                    for nm in m:
                        if not _mp_same(m[nm], given[nm][j]):
                            return _viol("mapping:input-values", "sequence %d of node %s is not the data given for it" % (j, nm), sc)
        # --- targets
        if Y is not None and x_ok:
            sup = [n.name for n in tr if not n.unsupervised]
            if "map" in Y:
                giveny = {name_of(i): _mp_seqs_of(v) for i, v in Y["map"]}
                y_ok = all((n.name in giveny) or n.fitted for n in tr) and len(set(len(l) for l in giveny.values())) <= 1
            else:
                giveny = {nm: _mp_seqs_of(Y["val"]) for nm in sup}
                y_ok = all((not n.unsupervised) or n.fitted for n in tr)
            try:
                _, ys = mu.to_data_mapping(model, Xr, _mp_data_real(Y, name_of))
            except (ValueError, IndexError, KeyError) as e:
                if y_ok:
                    return _viol("mapping:valid-target-refused", "to_data_mapping refuses well-formed targets (%r)" % (e,), sc)
                ys = None
            if ys is not None and y_ok and giveny:
                ky = len(next(iter(giveny.values())))
                if len(ys) != ky:
                    return _viol("mapping:sequence-count", "to_data_mapping yields %d target sequences for targets of %d" % (len(ys), ky), sc, ky, len(ys))
                for j, m in enumerate(ys):
                    if "map" not in Y and sorted(m) != sorted(sup):
                        return _viol("mapping:target-array:not-exactly-trainable", "a target array is not given to exactly the supervised trainable nodes",
                                     sc, sorted(sup), sorted(m))
                    if "map" in Y and list(m) != list(giveny):
                        return _viol("mapping:named-target:keys", "name-keyed targets do not reach exactly the named nodes", sc, list(giveny), list(m))
                    for nm in m:
                        if not _mp_same(m[nm], giveny[nm][j]):
                            return _viol("mapping:target-values", "target sequence %d of node %s is not the data given for it" % (j, nm), sc)
        # --- unfold_mapping on its own
        dm = {name_of(j): [scen.fl(r) for r in l] for j, l in sc["U"]}
        if dm:
            rect = len(set(len(l) for l in dm.values())) == 1
            try:
                un = mu.unfold_mapping(dm)
            except ValueError:
                un = None
                if rect:
                    return _viol("mapping:valid-input-refused", "unfold_mapping refuses a mapping whose keys all have the same number of sequences", sc)
            if un is not None:
                if not rect:
                    return _viol("mapping:unequal-sequence-counts-accepted", "unfold_mapping accepts a mapping whose keys have different numbers of sequences", sc)
                k = len(next(iter(dm.values())))
                if len(un) != k or any(list(m) != list(dm) for m in un) or any(not _mp_same(un[j][nm], dm[nm][j]) for j in range(len(un)) for nm in dm):
                    return _viol("mapping:unfold", "unfold_mapping does not return, for every sequence index, each name with its own sequence of that index", sc)
        # --- fold_mapping on rectangular per-sequence states
        if not sc["ragged_keys"]:
            rng = core.random.Random("fold/%s" % sc["tag"])
            if sc["rs"] is None:
                keysf, rs = [n.name for n in model.output_nodes], None
            elif sc["rs"] == "all":
                keysf, rs = [n.name for n in model.nodes], "all"
            else:
                rs = [n.name for n in rng.sample(model.nodes, rng.randint(1, len(model.nodes)))]
                keysf = list(rs)
            states = []
            for j in range(sc["nstates"]):
                T = rng.randint(1, 3)
                states.append({k: scen.fl(scengen.rows(rng, T, sc["d"])) for k in keysf})
            try:
                got = mu.fold_mapping(model, states, rs)
            except KeyError as e:
                return _viol("mapping:result-form", "fold_mapping raises %r on the per-sequence states of one model" % (e,), sc)
            v = _mp_form(sc, got, states, keysf, rs is None and len(keysf) == 1, "fold_mapping")
            if v:
                return v
        return None
    # ---- sub == "run": Model.run on a list / 3-D array / mapping of lists = the per-sequence runs in turn
    b1, b2 = scen.Built(sc), scen.Built(sc)
    m1, m2 = b1.models[0], b2.models[0]
    for r in sc["runs"]:
        kw1 = dict(stateful=r["stateful"], reset=r["reset"])
        kw2 = dict(kw1)
        if r["rs"] is not None:
            kw1["return_states"] = "all" if r["rs"] == "all" else [b1.nodes[i].name for i in r["rs"]]
            kw2["return_states"] = "all" if r["rs"] == "all" else [b2.nodes[i].name for i in r["rs"]]
        X = r["X"]
        try:
            got = m1.run(_mp_data_real(X, lambda i: b1.nodes[int(i)].name), **kw1)
        except Exception as e:  # noqa: BLE001
            return _viol("mapping:run-exception", "Model.run on a valid input raises %r" % (e,), sc)
        per = {i: _mp_seqs_of(v) for i, v in X["map"]} if "map" in X else None
        k = len(next(iter(per.values()))) if per else len(_mp_seqs_of(X["val"]))
        singles = []
        for j in range(k):
            xj = {b2.nodes[int(i)].name: l[j] for i, l in per.items()} if per else _mp_seqs_of(X["val"])[j]
            try:
                one = m2.run(xj, **kw2)
            except Exception as e:  # noqa: BLE001
                return _viol("mapping:run-exception", "Model.run on one valid sequence raises %r" % (e,), sc)
            singles.append(one if isinstance(one, dict) else {None: one})
        # names as ids so that both builds compare
        id1 = lambda nm: b1.ids.get(nm, nm)
        id2 = lambda nm: b2.ids.get(nm, nm) if nm is not None else None
        if r["rs"] is None:
            want = [n.name for n in m1.output_nodes]
        elif r["rs"] == "all":
            want = [n.name for n in m1.nodes]
        else:
            want = list(dict.fromkeys(kw1["return_states"]))
        bare = r["rs"] is None and len(want) == 1
        cat1 = {n.name for n in m1.nodes if n.name not in b1.ids}
        cat2 = {n.name for n in m2.nodes if n.name not in b2.ids}
        states = []
        for one in singles:
            st = {}
            for nm2, a in one.items():
                if nm2 is None:
                    st[want[0]] = a
                elif nm2 in cat2:
                    if len(cat1) == 1 and len(cat2) == 1:
                        st[next(iter(cat1))] = a
                else:
                    st[b1.nodes[b2.ids[nm2]].name] = a
            states.append(st)
        if len(cat1) > 1:      # several inserted Concat nodes cannot be paired between two builds by name: compare the others
            want_cmp = [w for w in want if w not in cat1]
        else:
            want_cmp = want
        v = _mp_form(sc, got, states, want, bare, "Model.run", compare=want_cmp)
        if v:
            return v
    return None


def _mp_form(sc, got, states, want, bare, who, compare=None):
    """The folded result [got] of per-sequence results [states] (dicts name -> array): one sequence -> arrays, several -> lists of that length;
    a bare value iff [bare], else keyed by exactly the names [want]; the j-th entry is the j-th sequence's."""
    k = len(states)
    compare = want if compare is None else compare
    if bare:
        if isinstance(got, dict):
            return _viol("mapping:result-form", "%s: a single output without return_states is not returned bare" % who, sc)
        got = {want[0]: got}
    else:
        if not isinstance(got, dict) or sorted(got) != sorted(want):
            return _viol("mapping:result-form", "%s: results are not keyed by exactly the requested / output node names" % who, sc,
                         sorted(want), sorted(got) if isinstance(got, dict) else type(got).__name__)
    for nm in want:
        val = got[nm]
        if k == 1:
            if isinstance(val, list):
                return _viol("mapping:result-form", "%s: one input sequence gives a list instead of an array" % who, sc)
            val = [val]
        elif not isinstance(val, list) or len(val) != k:
            return _viol("mapping:result-form", "%s: %d input sequences do not give a list of %d arrays" % (who, k, k), sc, k,
                         len(val) if isinstance(val, list) else type(val).__name__)
        if nm in compare:
            for j in range(k):
                if not _mp_same(val[j], states[j][nm]):
                    return _viol("mapping:run-sequences", "%s: entry %d of node %s is not the result of sequence %d processed in its turn" % (who, j, nm, j), sc,
                                 np.asarray(states[j][nm]).tolist(), np.asarray(val[j]).tolist())
    return None


def _judge_dtype(rng, tag):
    """A node with a non-default dtype inside a model: its state (what the model reports for it) is its forward result cast to that dtype, and
    every successor is evaluated on THAT value -- the reported states are a solution of the graph equations."""
    import reservoirpy as rpy
    rpy.verbosity(0)
    from reservoirpy.node import Node
    from reservoirpy.nodes import Input

    def init(node, x=None, **kw):
        node.set_input_dim(x.shape[1]); node.set_output_dim(x.shape[1])
    for dt in (np.int64, np.float32):
        sc = {"tag": tag, "kind": "dtype", "dtype": np.dtype(dt).name}
        try:
            A = Node(forward=lambda n, x: 0.75 * x + 0.3, initializer=init, dtype=dt, name="dt%s%s_A" % (tag, sc["dtype"]))
            B = Node(forward=lambda n, x: 2.0 * x, initializer=init, name="dt%s%s_B" % (tag, sc["dtype"]))
            m = Input(name="dt%s%s_in" % (tag, sc["dtype"])) >> A >> B
            X = scen.fl(scengen.rows(rng, 4, 2)) * 3.0
            res = m.run(X, return_states="all")
            a, b = np.asarray(res[A.name], dtype=float), np.asarray(res[B.name], dtype=float)
            want_a = (0.75 * X + 0.3).astype(dt).astype(float)
        except Exception as e:  # noqa: BLE001
            return _viol("dtype:exception", "a model with a %s node raises %r" % (sc["dtype"], e), sc)
        if not np.allclose(a, want_a, rtol=0, atol=1e-12):
            return _viol("dtype:state-not-cast", "the reported state of a dtype=%s node is not its forward result cast to that dtype" % sc["dtype"], sc, want_a.tolist(), a.tolist())
        if not np.allclose(b, 2.0 * a, rtol=0, atol=1e-12):
            return _viol("dtype:successor-fed-other-value", "the successor of a dtype=%s node was not evaluated on that node's (cast) state: reported states are "
                         "not a solution of the graph equations (max abs deviation %.3g)" % (sc["dtype"], float(np.max(np.abs(b - 2.0 * a)))), sc, (2.0 * a).tolist(), b.tolist())
    return None


def judge(case):
    if (case.get("scenario") or {}).get("family") == "mapping":
        return _judge_mapping(case["scenario"])
    return _judge(case["scenario"])


def oracle(ctx, scale=1):
    rng = ctx.rng("oracle")
    n = ctx.n(60, 600) * scale
    out = []
    for i in range(n):
        sc = gen_scenario(rng, "o%d" % i)
        v = _judge(sc)
        if v:
            out.append(v)
    v = _judge_dtype(rng, "%d" % ctx.seed)
    if v:
        out.append(v)
    # the data plumbing (family mapping): array / named inputs and targets reach exactly the right nodes, sequences are unfolded / folded index by
    # index, Model.run over several sequences = the per-sequence runs in turn, result form
    rngm = ctx.rng("oracle-mapping")
    mscs = [_mp_gen_plumb(rngm, "op%d" % i) for i in range(ctx.n(60, 600) * scale)] + [_mp_gen_run(rngm, "or%d" % i) for i in range(ctx.n(25, 250) * scale)]
    for sc in mscs:
        v = _judge_mapping(sc)
        if v:
            out.append(v)
    # run -> in-place extension of the SAME Model object -> run (whatever the first run cached about the graph must be forgotten)
    from props import c02_probes
    out += c02_probes.judge_inplace_after_run("%d" % ctx.seed)
    out += c02_probes.judge_oneshot_return_states("%d" % ctx.seed)
    out += c02_probes.judge_call_iterable_forms("%d" % ctx.seed)
    return {"evaluations": n + 2 + len(mscs) + 8, "violations": out,
            "rule": "Model.run(return_states='all') vs explicit evaluation of each real node after its predecessors; result form; nodes with a non-default dtype; "
                    "to_data_mapping / unfold_mapping / fold_mapping / Model.run over 1-3 sequences decided directly (keys, sequence counts, values, per-sequence runs); "
                    "run / call, in-place extension (&=, merge(inplace=True)) that changes the exits, run / call again: result = composition along the new graph"}


def replay(payload):
    if (payload.get("scenario") or {}).get("kind") == "call-iterable-forms":
        from props import c02_probes
        vs = c02_probes.judge_call_iterable_forms("rp")
        return {"violates": bool(vs), "detail": vs[:1]}
    if (payload.get("scenario") or {}).get("kind") == "oneshot-return-states":
        from props import c02_probes
        vs = c02_probes.judge_oneshot_return_states("rp")
        return {"violates": bool(vs), "detail": vs[:1]}
    if (payload.get("scenario") or {}).get("kind") == "inplace-after-run":
        from props import c02_probes
        vs = c02_probes.judge_inplace_after_run("rp")
        return {"violates": bool(vs), "detail": vs[:1]}
    if (payload.get("scenario") or {}).get("kind") == "dtype":
        v = _judge_dtype(core.random.Random(0), "rp")
        return {"violates": bool(v), "detail": v}
    if (payload.get("scenario") or {}).get("family") == "mapping":
        v = _judge_mapping(payload["scenario"])
        return {"violates": bool(v), "detail": v}
    v = _judge(payload["scenario"])
    return {"violates": bool(v), "detail": v}


# ------------------------------------------------------------------------------------------ tie (T)
def pregen(ctx):
    """tie (T) for the data dispatcher and the forward pass: re-translate class DataDispatcher (__init__, _check_inputs, get,
    __getitem__, load) of utils/graphflow.py and forward(model, x) of model.py of the tree under test into coq/gen/Gen_dispatch.v
    (a rejected translation leaves a stub that does not compile, so proofs/Gen_dispatch_eq.v and props/C02.v stop checking)"""
    from vlib import py2coq_dispatch
    return py2coq_dispatch.pregen()


TRUSTED += ["tie T (dispatcher / forward pass): the translator tools/vlib/py2coq_dispatch.py and its preludes coq/base/PyColl.v, PyColl2.v, "
            "PyColl3.v as the meaning of the Python constructs it accepts; pinned by text: utils.safe_defaultdict_copy, DataPoint, the plain "
            "properties Model.nodes / edges / input_nodes / output_nodes / data_dispatcher, `Model._dispatcher = DataDispatcher(self)`, "
            "`Model._forward = forward` run by Model._call; is_mapping / isinstance(_, _Node) are read as the case distinction of the "
            "input / source sum types; node states and node calls (_base.call) are parameters"]
