"""C03 — linking and merging build exactly the intended acyclic graph.

Correspondence: expressions over nodes / lists / models (>>, link, &, &=) and explicit digraphs are built with the real
library and evaluated by coq/model/Graph.v (`eval`); node set, edge set, entries, exits and RuntimeError are compared
inside Coq (run/RunC03.v, chk_expr); the observed execution order is only checked to be a topological order.
Oracle: reference semantics on plain digraphs + networkx, decided on the real Model objects (no Coq involved).
"""
import itertools
import json
import operator

from vlib import core

IMPORTS = ("From Coq Require Import List Arith Bool.\nFrom RV Require Import base.Num model.Graph run.RunC03.\n"
           "Import ListNotations.\nClose Scope Q_scope.\nOpen Scope nat_scope.")
TRUSTED = ["networkx (is_directed_acyclic_graph, is_isomorphic) is used by the implementation oracle only, never by the proof",
           "node ids stand for Python object identity; the harness maps objects to ids with a dict keyed by id(obj) "
           "(objects kept alive for the whole case)",
           "tie (T): tools/vlib/py2coq_graph.py (fail-closed ast translator of find_entries_and_exits / find_parents_and_children / "
           "topological_sort) and coq/base/PyColl.v, the meaning it gives to Python set / defaultdict(list) / deque / list / for / "
           "while (explicit fuel) / raise; its output is also executed against the real functions (run/RunGenC03.v, sub-id C03_gen)"]
ASSUMPTIONS = ["operands are Node / Concat instances and non-frozen Models with unique names; no FrozenModel, no dimension "
               "mismatch between already-initialised nodes (nodes are never initialised in the scenarios)",
               "explicit Model(nodes, edges) scenarios use duplicate-free node lists and edges whose endpoints are listed",
               "C03_generated_*: Python's set iteration order (ord_n k s, one site per set->sequence conversion) and "
               "sorted(edges, key=parent.name + child.name) (sorted_by_name) are parameters of the generated code assumed only to "
               "return a permutation of their argument; an explicit `inputs` list is the entry set, each node once, in any order"]

CAT_BASE = 100      # ids of automatically inserted Concat nodes start here
FALLBACK = 1000    # fallback naming base used by the model for constructions that raised (nothing to observe)
LABELS = ["a", "b", "ab", "ba", "c", "B", "_x", "z1", "z10", "z2", "aa", "Zz"]
_uid = [0]


def rpy():
    import reservoirpy
    reservoirpy.verbosity(0)
    return reservoirpy


def jsonable(c):
    return json.loads(json.dumps(c, default=str))


# ------------------------------------------------------------------------------------------ building real objects
class World:
    """The real objects of one scenario and their ids in the model."""

    def __init__(self, pool):
        rpy()
        from reservoirpy.node import Node
        from reservoirpy.nodes import Concat
        _uid[0] += 1
        self.tag = "k%d_" % _uid[0]
        self.Concat = Concat
        self.objs, self.ids = [], {}
        self.next_cat = CAT_BASE

        def fwd(node, x):
            return x

        def init(node, x=None, **kw):
            node.set_input_dim(x.shape[1])
            node.set_output_dim(x.shape[1])
        for i, p in enumerate(pool):
            nm = self.tag + p["name"]
            n = Concat(name=nm) if p.get("cat") else Node(forward=fwd, initializer=init, name=nm)
            self.objs.append(n)
            self.ids[id(n)] = i
        self.ucat = [i for i, p in enumerate(pool) if p.get("cat")]
        self.autos = []          # automatically inserted Concat objects (kept alive)
        self.vars, self.vterms = [], []   # let-bound models (None once a construction raised) and their Gallina terms

    def nid(self, obj):
        return self.ids[id(obj)]

    def register_new(self, model):
        """ids for the Concat nodes created by this construction; returns the table child id -> concat id"""
        new = [n for n in model.nodes if id(n) not in self.ids]
        for n in new:
            if type(n) is not self.Concat:
                raise AssertionError("unknown non-Concat node %r appeared in a model" % (n.name,))
            self.ids[id(n)] = self.next_cat
            self.next_cat += 1
            self.autos.append(n)
        table = []
        for n in new:
            for (p, c) in model.edges:
                if p is n:
                    table.append((self.nid(c), self.nid(n)))
        return table

    def observe(self, model):
        return {"order": [self.nid(n) for n in model.nodes],
                "edges": sorted([self.nid(a), self.nid(b)] for a, b in model.edges),
                "ins": [self.nid(n) for n in model.input_nodes],
                "outs": [self.nid(n) for n in model.output_nodes]}


def _is_cycle_error(e):
    return isinstance(e, RuntimeError) and "cycle" in str(e)


def build(t, W):
    """Evaluate the expression tree on the real library.  Returns (value | None when construction raised the cycle
    RuntimeError here or below, Gallina term of the tree annotated with the observed Concat tables)."""
    from reservoirpy.model import Model
    from reservoirpy.ops import link
    k = t[0]
    if k == "n":
        return W.objs[t[1]], "(ENode %d)" % t[1]
    if k == "v":     # a let-bound operand model, reused: the model inlines its (immutable) denotation
        return W.vars[t[1]], W.vterms[t[1]]

    def construct(thunk, operands):
        if any(o is None for o in operands):
            return None, []
        try:
            m = thunk()
        except RuntimeError as e:
            if _is_cycle_error(e):
                return None, []
            raise
        return m, W.register_new(m)

    def tbl(table):
        return "[" + ";".join("(%d,%d)" % p for p in table) + "]"
    if k == "graph":
        V, E = t[1], t[2]
        m, table = construct(lambda: Model(nodes=[W.objs[i] for i in V], edges=[(W.objs[a], W.objs[b]) for a, b in E]), [])
        return m, "(EGraph %s [%s] [%s])" % (tbl(table), ";".join(map(str, V)), ";".join("(%d,%d)" % tuple(e) for e in E))
    if k == "link":
        ls, rs, lseq, rseq = t[1], t[2], t[3], t[4]
        lv = [build(x, W) for x in ls]
        rv = [build(x, W) for x in rs]
        lo, ro = [v for v, _ in lv], [v for v, _ in rv]

        def thunk():
            if lseq and rseq:
                return link(lo, ro)            # many-to-many needs the function
            if lseq:
                return lo >> ro[0]             # list.__rshift__ missing -> Node.__rrshift__
            if rseq:
                return lo[0] >> ro
            return lo[0] >> ro[0]
        m, table = construct(thunk, lo + ro)
        return m, "(ELink %s [%s] [%s])" % (tbl(table), ";".join(c for _, c in lv), ";".join(c for _, c in rv))
    if k in ("and", "iand"):
        a, ca = build(t[1], W)
        b, cb = build(t[2], W)
        if k == "and":
            m, table = construct(lambda: a & b, [a, b])
        else:
            m, table = construct(lambda: operator.iand(a, b), [a, b])
        return m, "(EMerge %s %s %s)" % (tbl(table), ca, cb)
    if k == "andl":      # merge with list operands: a & [b..] | a &= [b..] | merge(a, b0, [b1..])
        from reservoirpy.ops import merge
        a, ca = build(t[1], W)
        bv = [build(x, W) for x in t[2]]
        bo = [v for v, _ in bv]
        if t[3] == "and":
            thunk = lambda: a & bo
        elif t[3] == "iand":
            thunk = lambda: operator.iand(a, bo)
        else:
            thunk = lambda: merge(a, bo[0], bo[1:]) if len(bo) > 1 else merge(a, bo)
        m, table = construct(thunk, [a] + bo)
        return m, "(EMergeL %s %s [%s])" % (tbl(table), ca, ";".join(cb for _, cb in bv))
    raise ValueError(k)


def run_impl(c):
    W = World(c["pool"])
    m, term = build(c["expr"], W)
    obs = None if m is None else W.observe(m)
    return W, m, term, obs


def to_coq(c, W, term, obs):
    if obs is None:
        o = "None"
    else:
        o = "(Some ([%s], [%s], [%s], [%s]))" % (";".join(map(str, obs["order"])),
                                                ";".join("(%d,%d)" % tuple(e) for e in obs["edges"]),
                                                ";".join(map(str, obs["ins"])), ";".join(map(str, obs["outs"])))
    return "chk_expr %d %d [%s] %s %s" % (CAT_BASE, FALLBACK, ";".join(map(str, W.ucat)), term, o)


# ------------------------------------------------------------------------------------------ scenarios
def pool_of(rng, n, cats=0.0):
    labels = rng.sample(LABELS, n)
    return [{"name": lb, "cat": bool(rng.random() < cats)} for lb in labels]


def digraphs(n):
    """every labelled digraph on n nodes without self-loops and with a non-empty edge set"""
    pairs = [(a, b) for a in range(n) for b in range(n) if a != b]
    for mask in range(1, 2 ** len(pairs)):
        yield [list(p) for i, p in enumerate(pairs) if mask >> i & 1]


def graph_cases(rng, sizes, sample=None):
    cases = []
    for n in sizes:
        gs = list(digraphs(n))
        if sample is not None and len(gs) > sample:
            gs = rng.sample(gs, sample)
        for E in gs:
            pool = pool_of(rng, n)
            cases.append({"kind": "graph", "pool": pool, "expr": ["graph", list(range(n)), E]})
            # the same digraph through the operators: one 1-to-1 link per edge, merged; isolated nodes merged in
            parts = [["link", [["n", a]], [["n", b]], False, False] for a, b in E]
            parts += [["n", v] for v in range(n) if all(v not in e for e in E)]
            rng.shuffle(parts)
            t = parts[0]
            for p in parts[1:]:
                t = ["iand" if (t[0] != "n" and rng.random() < 0.3) else "and", t, p]
            if t[0] == "n":
                t = ["and", t, t]
            cases.append({"kind": "merged-links", "pool": pool, "expr": t})
    return cases


def corner_cases():
    """self-loop, single node graph, duplicate edge, user Concat fan-in, nested / duplicated fan-in, many-to-many"""
    cases = []
    p4 = [{"name": "s", "cat": False}, {"name": "p1", "cat": False}, {"name": "p2", "cat": False}, {"name": "c", "cat": False}]
    N = lambda i: ["n", i]
    L = lambda a, b: ["link", [a], [b], False, False]
    fan = lambda: ["link", [["link", [N(0)], [N(1), N(2)], False, True]], [N(3)], False, False]
    cases += [
        {"kind": "graph", "pool": p4[:1], "expr": ["graph", [0], [[0, 0]]]},
        {"kind": "graph", "pool": p4[:1], "expr": ["graph", [0], []]},
        # duplicated edges in an explicit edge LIST: outside the property (edge sets), model/implementation correspondence only
        {"kind": "graph", "pool": p4[:2], "expr": ["graph", [0, 1], [[0, 1], [0, 1]]], "corr_only": True},
        {"kind": "graph", "pool": p4[:3], "expr": ["graph", [0, 1, 2], [[0, 2], [1, 2], [0, 2]]], "corr_only": True},
        {"kind": "expr", "pool": p4[:3] + [{"name": "c", "cat": True}], "expr": ["link", [N(0), N(1), N(2)], [N(3)], True, False]},
        {"kind": "expr", "pool": p4, "expr": ["and", fan(), L(L(N(0), N(1)), N(3))]},
        {"kind": "expr", "pool": p4, "expr": ["and", fan(), fan()]},
        {"kind": "expr", "pool": p4, "expr": ["and", ["and", L(N(0), N(3)), L(N(1), N(3))], L(N(2), N(3))]},
        {"kind": "expr", "pool": p4, "expr": ["link", [N(0), N(1)], [N(2), N(3)], True, True]},
        {"kind": "expr", "pool": p4, "expr": L(L(N(0), N(1)), N(0))},
        # merge with list operands (x & [y, z]; merge(x, y, [z, w]); m &= [y, z])
        {"kind": "expr", "pool": p4, "expr": ["andl", N(0), [N(1), N(2)], "and"]},
        {"kind": "expr", "pool": p4, "expr": ["andl", N(0), [N(1), L(N(2), N(3))], "merge"]},
        {"kind": "expr", "pool": p4, "expr": ["andl", L(N(0), N(1)), [L(N(1), N(2)), N(3)], "iand"]},
        # the exact shapes of the open finding fanin:predecessor-delivered-twice (a=1, b=2, c=3)
        {"kind": "expr", "pool": p4, "expr": ["and", ["link", [N(1), N(2)], [N(3)], True, False], ["link", [N(1), N(2)], [N(3)], True, False]]},
        {"kind": "expr", "pool": p4, "expr": ["and", ["link", [N(1), N(2)], [N(3)], True, False], L(N(1), N(3))]},
    ]
    return cases


def _leaf(rng, n, st):
    if st["next"] < n and rng.random() < 0.7:
        st["next"] += 1
        return ["n", st["next"] - 1]
    return ["n", rng.randrange(n)]


def gen_tree(rng, n, depth, top=True, st=None):
    """random expression over nodes 0..n-1; leaves prefer not-yet-used nodes (otherwise most expressions are cyclic)"""
    st = st if st is not None else {"next": 0}

    def leaf():
        return _leaf(rng, n, st)
    if not top and (depth == 0 or rng.random() < 0.35):
        return leaf()
    r = rng.random()
    if r < 0.6:
        def side():
            if rng.random() < 0.3:
                k = rng.randint(2, 3)
                return [gen_tree(rng, n, max(0, depth - 2), False, st) if rng.random() < 0.25 else leaf() for _ in range(k)], True
            return [gen_tree(rng, n, depth - 1, False, st)], False
        ls, lseq = side()
        rs, rseq = side()
        return ["link", ls, rs, lseq, rseq]
    a = gen_tree(rng, n, depth - 1, False, st)
    if rng.random() < 0.3:      # merge with a list operand
        bs = [gen_tree(rng, n, max(0, depth - 2), False, st) if rng.random() < 0.3 else leaf() for _ in range(rng.randint(1, 3))]
        kind = rng.choice(["and", "merge"] if a[0] == "n" else ["and", "iand", "merge"])
        return ["andl", a, bs, kind]
    b = gen_tree(rng, n, depth - 1, False, st)
    if r < 0.88 or a[0] == "n":
        return ["and", a, b]
    return ["iand", a, b]



# ------------------------------------------------------------------------------------------ sharing (reused operand models)
def inline(t, defs):
    """variable-free tree: every reference ["v", j] replaced by the (already inlined) current definition of variable j"""
    k = t[0]
    if k == "v":
        return defs[t[1]]
    if k in ("n", "graph"):
        return t
    if k == "link":
        return ["link", [inline(x, defs) for x in t[1]], [inline(x, defs) for x in t[2]], t[3], t[4]]
    if k == "andl":
        return ["andl", inline(t[1], defs), [inline(x, defs) for x in t[2]], t[3]]
    return [k, inline(t[1], defs), inline(t[2], defs)]


def _sets(obs):
    return None if obs is None else {"nodes": sorted(set(obs["order"])), "edges": sorted(set(map(tuple, obs["edges"]))),
                                     "ins": sorted(set(obs["ins"])), "outs": sorted(set(obs["outs"]))}


def _obs4(o):
    return "([%s], [%s], [%s], [%s])" % (";".join(map(str, o["order"])), ";".join("(%d,%d)" % tuple(e) for e in o["edges"]),
                                        ";".join(map(str, o["ins"])), ";".join(map(str, o["outs"])))


def _update_stmt(t):
    """(variable index, operand trees) when the use is the statement `v &= e` / `v &= [e..]`, else None"""
    if t[0] == "iand" and t[1][0] == "v":
        return t[1][1], [t[2]]
    if t[0] == "andl" and t[3] == "iand" and t[1][0] == "v":
        return t[1][1], list(t[2])
    return None


def run_share(c):
    """lets: models bound to variables; uses: later expressions reusing them (left / right operand of >>, list member,
    operand of & and of &=).  `v &= e` / `v &= [e..]` as a statement updates variable j in place when accepted and must
    leave it untouched when rejected (cycle).
    Returns (W, parts, finals, updates): parts = [(label, variable-free tree, Gallina term, observation, raw chk term or
    None)], one per use and one per variable re-observed at the very end; finals = [(j, observation when last bound,
    observation at the end)]; updates = [(j, accepted, observation before, observation after)]."""
    W = World(c["pool"])
    defs, base, parts, updates = [], [], [], []
    for t in c["lets"]:
        m, term = build(t, W)
        W.vars.append(m)
        W.vterms.append(term)
        defs.append(inline(t, defs))
        base.append(None if m is None else W.observe(m))
    for i, t in enumerate(c["uses"]):
        tree = inline(t, defs)
        upd = _update_stmt(t)
        if upd is None or W.vars[upd[0]] is None:
            m, term = build(t, W)
            parts.append(("use%d" % i, tree, term, None if m is None else W.observe(m), None))
            continue
        j, bs = upd
        obj, eold = W.vars[j], W.vterms[j]
        bv = [build(x, W) for x in bs]
        bo = [v for v, _ in bv]
        bterms = "[%s]" % ";".join(cb for _, cb in bv)
        if any(o is None for o in bo):          # an operand raised: the statement is never executed
            parts.append(("use%d" % i, tree, "(EMergeL [] %s %s)" % (eold, bterms), None, None))
            continue
        before = W.observe(obj)
        try:
            m = operator.iand(obj, bo[0] if t[0] == "iand" else bo)
            table = W.register_new(m)
        except RuntimeError as e:
            if not _is_cycle_error(e):
                raise
            m, table = None, []
        after = W.observe(obj)
        tb = "[" + ";".join("(%d,%d)" % p for p in table) + "]"
        ret = None if m is None else W.observe(m)
        raw = "chk_update %d %d [%s] %s %s %s %s %s" % (CAT_BASE, FALLBACK, ";".join(map(str, W.ucat)), eold, tb, bterms,
                                                     "None" if ret is None else "(Some %s)" % _obs4(ret), _obs4(after))
        parts.append(("use%d" % i, tree, "(EMergeL %s %s %s)" % (tb, eold, bterms), ret, raw))
        updates.append((j, m is not None, before, after))
        if m is not None:                        # accepted: the variable now denotes the merged model
            W.vterms[j], defs[j], base[j] = "(EMergeL %s %s %s)" % (tb, eold, bterms), tree, after
    finals = []
    for j, m in enumerate(W.vars):
        if m is None:
            continue
        obs = W.observe(m)
        parts.append(("var%d" % j, defs[j], W.vterms[j], obs, None))
        finals.append((j, base[j], obs))
    return W, parts, finals, updates


def _judge_share(c):
    try:
        W, parts, finals, updates = run_share(c)
    except Exception as e:
        return _viol("exception:%s" % type(e).__name__, "valid sharing scenario raises %r" % (e,), c)
    for j, accepted, before, after in updates:
        if not accepted and _sets(before) != _sets(after):
            return _viol("iand:rejected-update-modified-model",
                         "an in-place merge (&=) rejected with the cycle RuntimeError left the model modified (variable %d)" % j,
                         c, _sets(before), _sets(after))
    for j, before, after in finals:
        if _sets(before) != _sets(after):
            return _viol("sharing:operand-mutated",
                         "a model reused as an operand of later link / merge expressions is no longer the graph it was "
                         "(variable %d)" % j, c, _sets(before), _sets(after))
    for label, tree, term, obs, raw in parts:
        v = _check_model(c, tree, W, None if obs is None else True, obs)
        if v:
            v["what"] += " [%s of a scenario reusing operand models]" % label
            return v
    return None


def share_cases(rng, count):
    out = []
    for _ in range(count):
        n = rng.randint(4, 10)
        st = {"next": 0}
        leaf = lambda: _leaf(rng, n, st)
        lets = [gen_tree(rng, n, rng.randint(1, 2), True, st)]
        if rng.random() < 0.5:
            t = gen_tree(rng, n, 1, True, st)
            lets.append(["link", [["v", 0]], [t], False, False] if rng.random() < 0.5 else t)
        uses = []
        for _u in range(rng.randint(2, 4)):
            v = ["v", rng.randrange(len(lets))]
            sub = lambda: gen_tree(rng, n, 1, True, st) if rng.random() < 0.4 else leaf()
            r = rng.randrange(12)
            if r <= 1:
                uses.append(["link", [v], [sub()], False, False])               # left operand of >>
            elif r == 2:
                uses.append(["link", [sub()], [v], False, False])               # right operand of >>
            elif r == 3:
                uses.append(["link", [v, leaf()], [sub()], True, False])        # member of a list on the left
            elif r == 4:
                uses.append(["link", [leaf()], [leaf(), v], False, True])       # member of a list on the right
            elif r == 5:
                uses.append(["and", v, sub()])
            elif r == 6:
                uses.append(["and", sub(), v])
            elif r == 7:
                uses.append(["iand", v, sub()])                                 # v &= e : updates the variable
            elif r == 8:
                uses.append(["iand", gen_tree(rng, n, 1, True, st), v])        # operand of &= on the right
            elif r == 9:                                                        # v &= x >> y over ANY nodes: often a cycle
                uses.append(["iand", v, ["link", [["n", rng.randrange(n)]], [["n", rng.randrange(n)]], False, False]])
            elif r == 10:
                uses.append(["andl", v, [sub() for _k in range(rng.randint(1, 3))], "iand"])   # v &= [e..]
            else:
                uses.append(["andl", sub(), [v, leaf()], rng.choice(["and", "merge"])])        # member of a list operand of &
        out.append({"kind": "share", "pool": pool_of(rng, n, cats=0.05), "lets": lets, "uses": uses})
    # the lead's pattern: one trunk, two successive left-operand links, then a many-to-one link with a model on the right
    p = [{"name": x, "cat": False} for x in ("src", "res", "read1", "read2", "probe")]
    N = lambda i: ["n", i]
    out.append({"kind": "share", "pool": p, "lets": [["link", [N(0)], [N(1)], False, False]],
                "uses": [["link", [["v", 0]], [N(2)], False, False], ["link", [["v", 0]], [N(3)], False, False],
                         ["link", [["v", 0], N(2)], [["link", [N(3)], [N(4)], False, False]], True, False]]})
    # rejected in-place update: m = p >> q >> r ; m &= r >> p (cycle) ; m must still be p >> q >> r and usable afterwards
    p3 = [{"name": x, "cat": False} for x in ("p", "q", "r", "t")]
    chain = ["link", [["link", [N(0)], [N(1)], False, False]], [N(2)], False, False]
    out.append({"kind": "share", "pool": p3, "lets": [chain],
                "uses": [["iand", ["v", 0], ["link", [N(2)], [N(0)], False, False]],
                         ["link", [["v", 0]], [N(3)], False, False],
                         ["andl", ["v", 0], [["link", [N(2)], [N(0)], False, False], N(3)], "iand"]]})
    return out


def expr_cases(rng, count):
    out = []
    for _ in range(count):
        n = rng.randint(2, 10)
        out.append({"kind": "expr", "pool": pool_of(rng, n, cats=0.08), "expr": gen_tree(rng, n, rng.randint(1, 4))})
    return out


def all_cases(ctx, stream):
    rng = ctx.rng(stream)
    if ctx.thorough:
        cs = graph_cases(rng, [1, 2, 3, 4]) + graph_cases(rng, [5], sample=200) + corner_cases() + expr_cases(rng, 3000)
    else:
        cs = graph_cases(rng, [2, 3]) + corner_cases() + expr_cases(rng, 300)
    return cs


# ------------------------------------------------------------------------------------------ reference semantics (oracle)
def ref_eval(t):
    """Plain digraph denoted by an expression: (nodes, edges) — what the property says link/merge must build,
    automatically inserted concatenations looked through."""
    k = t[0]
    if k == "n":
        return {t[1]}, set()
    if k == "graph":
        return set(t[1]), {tuple(e) for e in t[2]}
    if k == "link":
        L = [ref_eval(x) for x in t[1]]
        R = [ref_eval(x) for x in t[2]]
        V, E = set(), set()
        for (lv, le) in L:
            for (rv, re_) in R:
                V |= lv | rv
                E |= le | re_
                louts = {v for v in lv if not any(a == v for a, _ in le)}
                rins = {v for v in rv if not any(b == v for _, b in re_)}
                E |= set(itertools.product(louts, rins))
        return V, E
    if k == "andl":
        V, E = ref_eval(t[1])
        for x in t[2]:
            xv, xe = ref_eval(x)
            V, E = V | xv, E | xe
        return V, E
    a, b = ref_eval(t[1]), ref_eval(t[2])
    return a[0] | b[0], a[1] | b[1]


def _viol(key, what, c, expected=None, observed=None):
    return {"key": key, "what": what, "scenario": jsonable(c), "expected": jsonable(expected), "observed": jsonable(observed)}


def _judge_gen(c):
    """a `gen` scenario (digraph given directly to utils/graphflow.py) decided on the real functions, no Coq: entries / exits are
    the nodes without predecessors / successors; topological_sort (inputs None, and = the entry list in a shuffled order) returns
    a permutation of the nodes with every edge forward iff the graph is acyclic, and raises the cycle RuntimeError otherwise"""
    import random
    if c.get("dup"):
        return None                      # duplicated edges: outside the property (edge SETS)
    rpy()
    import networkx as nx
    from reservoirpy.node import Node
    from reservoirpy.utils import graphflow as gf
    _uid[0] += 1
    tag = "j%d_" % _uid[0]
    objs = [Node(forward=lambda node, x: x, name=tag + lb) for lb in c["labels"]]
    ids = {id(o): i for i, o in enumerate(objs)}
    V = [objs[i] for i in c["V"]]
    E = [(objs[a], objs[b]) for a, b in c["E"]]
    ents, exs = gf.find_entries_and_exits(V, E)
    ents, exs = sorted(ids[id(o)] for o in ents), sorted(ids[id(o)] for o in exs)
    rents = sorted(v for v in c["V"] if all(b != v for _, b in c["E"]))
    rexs = sorted(v for v in c["V"] if all(a != v for a, _ in c["E"]))
    if ents != rents or exs != rexs:
        return _viol("graphflow:entries-exits", "find_entries_and_exits does not return the nodes without predecessors / successors",
                     c, [rents, rexs], [ents, exs])
    g = nx.DiGraph()
    g.add_nodes_from(c["V"])
    g.add_edges_from(c["E"])
    acyclic = nx.is_directed_acyclic_graph(g)
    ins = list(rents)
    random.Random(c["seed"]).shuffle(ins)
    for label, thunk in (("inputs=None", lambda: gf.topological_sort(V, E)),
                         ("inputs=%r" % (ins,), lambda: gf.topological_sort(V, E, [objs[i] for i in ins]))):
        try:
            order = [ids[id(o)] for o in thunk()]
        except RuntimeError as e:
            if not _is_cycle_error(e):
                raise
            order = None
        except (KeyError, ValueError, IndexError) as e:
            return _viol("graphflow:toposort-crash", "topological_sort(%s) raises %r on a duplicate-free graph" % (label, e), c)
        if order is None:
            if acyclic:
                return _viol("graphflow:dag-rejected", "topological_sort(%s) raises the cycle error on an acyclic graph" % label, c)
            continue
        if not acyclic:
            return _viol("graphflow:cycle-accepted", "topological_sort(%s) returns an order for a cyclic graph" % label, c, None, order)
        if sorted(order) != sorted(c["V"]) or any(order.index(a) >= order.index(b) for a, b in c["E"]):
            return _viol("graphflow:not-a-topological-order", "topological_sort(%s) does not return a topological order" % label,
                         c, None, order)
    return None


def _judge(c):
    if c.get("kind") == "share":
        return _judge_share(c)
    if c.get("kind") == "gen":
        return _judge_gen(c)
    try:
        W, m, term, obs = run_impl(c)
    except Exception as e:
        return _viol("exception:%s" % type(e).__name__, "valid expression raises %r" % (e,), c)
    return _check_model(c, c["expr"], W, m, obs)


def _has_andl(t):
    if not isinstance(t, list) or not t:
        return False
    return t[0] == "andl" or any(_has_andl(x) for x in t if isinstance(x, list))


def _check_model(c, tree, W, m, obs):
    v = _check_model0(c, tree, W, m, obs)
    if v and v["key"] in ("nodes:wrong-set", "edges:missing") and _has_andl(tree):
        v["key"] = "merge:list-operand-ignored"
        v["what"] = "merge / & / &= with a list operand does not contain every operand node and edge (" + v["what"] + ")"
    return v


def _check_model0(c, tree, W, m, obs):
    """the property's statement for one built model (obs) against the plain digraph denoted by the variable-free tree"""
    import networkx as nx
    V, E = ref_eval(tree)
    G = nx.DiGraph()
    G.add_nodes_from(V)
    G.add_edges_from(E)
    acyclic = nx.is_directed_acyclic_graph(G)
    if m is None:
        if acyclic:
            return _viol("dag:rejected", "an acyclic graph is rejected with the cycle RuntimeError", c, "a Model", "RuntimeError")
        return None
    auto = lambda i: i >= CAT_BASE
    if not acyclic:
        # accepted although the denoted graph is cyclic: a cycle went through only if the model really holds all the
        # denoted nodes and edges; otherwise the defect is the missing operand (reported by the checks below)
        oe = [tuple(e) for e in obs["edges"]]

        def leaves(v, seen=()):
            out = []
            for p, q in oe:
                if q == v and p not in seen:
                    out += leaves(p, seen + (p,)) if auto(p) else [p]
            return out
        holds_all = {v for v in obs["order"] if not auto(v)} == V and all(a in leaves(b) for a, b in E)
        if holds_all:
            return _viol("cycle:accepted", "a graph containing a directed cycle is accepted", c, "RuntimeError", obs)
    order, edges = obs["order"], [tuple(e) for e in obs["edges"]]
    if len(set(order)) != len(order):
        return _viol("nodes:duplicated", "a node occurs twice in Model.nodes", c, None, order)
    if len(set(edges)) != len(edges):
        return _viol("edges:duplicated", "an edge occurs twice in Model.edges", c, None, edges)
    plain = {v for v in order if not auto(v)}
    if plain != V:
        return _viol("nodes:wrong-set", "the model does not contain exactly the operand nodes", c, sorted(V), sorted(plain))
    pos = {v: i for i, v in enumerate(order)}
    for a, b in edges:
        if a not in pos or b not in pos:
            return _viol("edges:dangling", "an edge mentions a node that is not in Model.nodes", c, None, [a, b])
        if pos[a] >= pos[b]:
            return _viol("order:not-topological", "Model.nodes is not a topological order: edge goes backwards", c, None,
                         {"order": order, "edge": [a, b]})
    preds = {v: [a for a, b in edges if b == v] for v in order}
    succs = {v: [b for a, b in edges if a == v] for v in order}
    if set(obs["ins"]) != {v for v in order if not preds[v]} or len(set(obs["ins"])) != len(obs["ins"]):
        return _viol("entries:wrong", "input_nodes are not exactly the nodes without predecessors", c,
                     sorted(v for v in order if not preds[v]), obs["ins"])
    if set(obs["outs"]) != {v for v in order if not succs[v]} or len(set(obs["outs"])) != len(obs["outs"]):
        return _viol("exits:wrong", "output_nodes are not exactly the nodes without successors", c,
                     sorted(v for v in order if not succs[v]), obs["outs"])
    ucat = set(W.ucat)
    for v in order:
        if auto(v):
            if len(succs[v]) != 1 or len(preds[v]) < 2:
                return _viol("concat:shape", "an inserted Concat does not have one child and several parents", c, None,
                             {"concat": v, "parents": preds[v], "children": succs[v]})
        elif v not in ucat and len(preds[v]) > 1:
            return _viol("fanin:not-concatenated", "a node with several predecessors has no inserted concatenation", c, None,
                         {"node": v, "parents": preds[v]})

    def feeds(v):
        out = []
        for p in preds[v]:
            out += feeds(p) if auto(p) else [p]
        return out
    for v in sorted(plain):
        got = sorted(feeds(v))
        want = sorted(a for a, b in E if b == v)
        if got != want:
            if sorted(set(got)) == want:
                return _viol("fanin:predecessor-delivered-twice",
                             "a node receives one of its predecessors more than once (an already concatenated fan-in was wrapped again)",
                             c, {"node": v, "receives": want}, {"node": v, "receives": got})
            if set(want) - set(got):
                return _viol("edges:missing", "an edge of an operand / of outputs x inputs is missing", c,
                             {"node": v, "receives": want}, {"node": v, "receives": got})
            return _viol("edges:extra", "the model contains an edge that no operand and no link introduced", c,
                         {"node": v, "receives": want}, {"node": v, "receives": got})
    return None


def _labelled(W, m):
    import networkx as nx
    G = nx.DiGraph()
    for n in m.nodes:
        i = W.nid(n)
        G.add_node(i, lab="C" if i >= CAT_BASE else i)
    for a, b in m.edges:
        G.add_edge(W.nid(a), W.nid(b))
    return G


def _same_up_to_concat_names(W, m1, m2):
    import networkx as nx
    if (m1 is None) != (m2 is None):
        return False
    if m1 is None:
        return True
    nm = lambda a, b: a["lab"] == b["lab"]
    return (nx.is_isomorphic(_labelled(W, m1), _labelled(W, m2), node_match=nm)
            and {W.nid(n) for n in m1.input_nodes} == {W.nid(n) for n in m2.input_nodes}
            and {W.nid(n) for n in m1.output_nodes} == {W.nid(n) for n in m2.output_nodes})


def _judge_law(c):
    """chaining associative (operands on disjoint nodes), merging commutative and idempotent, up to Concat names"""
    W = World(c["pool"])
    law = c["law"]
    try:
        if law == "assoc":
            def side(left):
                a, _ = build(c["a"], W)
                b, _ = build(c["b"], W)
                cc, _ = build(c["c"], W)
                if a is None or b is None or cc is None:
                    return "skip"
                try:
                    return ((a >> b) >> cc) if left else (a >> (b >> cc))
                except RuntimeError as e:
                    if _is_cycle_error(e):
                        return None
                    raise
            m1, m2 = side(True), side(False)
            if isinstance(m1, str) or isinstance(m2, str):
                return None
            for m in (m1, m2):
                if m is not None:
                    W.register_new(m)
            # intermediate models' Concats are inside the final ones: register_new above saw them all
            if not _same_up_to_concat_names(W, m1, m2):
                return _viol("law:chain-not-associative", "(a >> b) >> c and a >> (b >> c) differ beyond Concat names", c,
                             None if m1 is None else W.observe(m1), None if m2 is None else W.observe(m2))
        else:
            def mk(t):
                v, _ = build(t, W)
                return v
            a, b = mk(c["a"]), mk(c["b"])
            if a is None or b is None:
                return None

            def tr(f):
                try:
                    m = f()
                except RuntimeError as e:
                    if _is_cycle_error(e):
                        return None
                    raise
                W.register_new(m)
                return m
            if law == "comm":
                m1, m2 = tr(lambda: a & b), tr(lambda: b & a)
                if not _same_up_to_concat_names(W, m1, m2):
                    return _viol("law:merge-not-commutative", "a & b and b & a differ beyond Concat names", c,
                                 None if m1 is None else W.observe(m1), None if m2 is None else W.observe(m2))
            else:
                from reservoirpy.model import Model
                if not isinstance(a, Model):
                    a = tr(lambda: a & a)
                m1 = tr(lambda: a & a)
                if not _same_up_to_concat_names(W, a, m1):
                    return _viol("law:merge-not-idempotent", "m & m differs from m beyond Concat names", c,
                                 W.observe(a), None if m1 is None else W.observe(m1))
    except Exception as e:
        return _viol("exception:%s" % type(e).__name__, "law scenario raises %r" % (e,), c)
    return None


def shift(t, k):
    if t[0] == "n":
        return ["n", t[1] + k]
    if t[0] == "link":
        return ["link", [shift(x, k) for x in t[1]], [shift(x, k) for x in t[2]], t[3], t[4]]
    if t[0] == "andl":
        return ["andl", shift(t[1], k), [shift(x, k) for x in t[2]], t[3]]
    return [t[0], shift(t[1], k), shift(t[2], k)]


def law_cases(rng, count):
    out = []
    for i in range(count):
        law = ["assoc", "comm", "idem"][i % 3]
        if law == "assoc":
            ns = [rng.randint(1, 3) for _ in range(3)]
            ts, off = [], 0
            for n in ns:
                ts.append(shift(gen_tree(rng, n, rng.randint(0, 2), top=False), off))
                off += n
            out.append({"kind": "law", "law": law, "pool": pool_of(rng, off), "a": ts[0], "b": ts[1], "c": ts[2]})
        else:
            n = rng.randint(2, 6)
            out.append({"kind": "law", "law": law, "pool": pool_of(rng, n),
                        "a": gen_tree(rng, n, rng.randint(0, 3), top=False), "b": gen_tree(rng, n, rng.randint(0, 3), top=False)})
    return out


def pregen(ctx):
    """tie (T): re-translate find_entries_and_exits / find_parents_and_children / topological_sort of utils/graphflow.py of the
    tree under test into coq/gen/Gen_graphflow.v (a rejected translation leaves a stub that does not compile)"""
    from vlib import py2coq_graph
    errs = [py2coq_graph.pregen()]
    # second, independent unit: concat_multi_inputs of ops.py -> coq/gen/Gen_ops.v (tools/vlib/py2coq_ops.py; it only READS the
    # graphflow translator to learn the signature of the callee find_parents_and_children).  A failure here never touches
    # Gen_graphflow.v; it leaves a Gen_ops.v stub that does not compile, so proofs/Gen_ops_eq.v and props/C03.v stop checking.
    try:
        from vlib import py2coq_ops
        errs.append(py2coq_ops.pregen())
    except Exception:
        import traceback
        errs.append("unit ops: translator exception: " + traceback.format_exc()[-1500:])
    # third, independent unit: Model.update_graph of model.py -> coq/gen/Gen_update.v (tools/vlib/py2coq_upd.py; it only READS the
    # two translators above).  A failure here touches neither Gen_graphflow.v nor Gen_ops.v; it leaves a Gen_update.v stub that
    # does not compile, so proofs/Gen_update_eq.v and props/C03.v stop checking.
    try:
        from vlib import py2coq_upd
        errs.append(py2coq_upd.pregen())
    except Exception:
        import traceback
        errs.append("unit update: translator exception: " + traceback.format_exc()[-1500:])
    errs = [e for e in errs if e]
    return "\n".join(errs) if errs else None


# ------------------------------------------------------------------------------------------ tie (T), executed
IMPORTS_GEN = ("From Coq Require Import List Arith Bool.\nFrom RV Require Import base.Num base.PyColl model.Graph run.RunGenC03.\n"
               "Import ListNotations.\nClose Scope Q_scope.\nOpen Scope nat_scope.")


def _nl(l):
    return "[" + ";".join(str(int(x)) for x in l) + "]"


def _el(l):
    return "[" + ";".join("(%d,%d)" % (a, b) for a, b in l) + "]"


def gen_graph_cases(rng, count):
    """digraphs on 1-6 nodes given to the REAL graphflow functions directly (cyclic ones, self-loops, lonely nodes; a few
    off-contract ones: duplicated edges, an `inputs` list that is not the entry set), names drawn from LABELS (sort-key ties occur)"""
    cases = []
    for i in range(count):
        n = rng.randint(1, 6)
        dens = rng.choice([0.15, 0.3, 0.5])
        E = [(a, b) for a in range(n) for b in range(n) if (a != b or rng.random() < 0.05) and rng.random() < dens]
        if rng.random() < 0.5:       # bias towards acyclic graphs: keep forward edges of a random order
            perm = list(range(n))
            rng.shuffle(perm)
            E = [(a, b) for a, b in E if perm.index(a) < perm.index(b)]
        rng.shuffle(E)
        dup = rng.random() < 0.06 and len(E) > 0
        if dup:
            E.insert(rng.randrange(len(E) + 1), rng.choice(E))
        V = list(range(n))
        rng.shuffle(V)
        cases.append({"kind": "gen", "labels": rng.sample(LABELS, n), "V": V, "E": E, "dup": dup,
                      "inputs_mode": rng.choice(["shuffled", "shuffled", "subset", "extra", "twice"]), "seed": rng.randrange(10 ** 6)})
    return cases


def run_gen_case(c):
    """-> (terms, observations) : calls the real find_entries_and_exits / find_parents_and_children / topological_sort"""
    import random
    rpy()
    from reservoirpy.node import Node
    from reservoirpy.utils import graphflow as gf
    _uid[0] += 1
    tag = "g%d_" % _uid[0]
    objs = [Node(forward=lambda node, x: x, name=tag + lb) for lb in c["labels"]]
    ids = {id(o): i for i, o in enumerate(objs)}
    nid = lambda o: ids[id(o)]
    V = [objs[i] for i in c["V"]]
    E = [(objs[a], objs[b]) for a, b in c["E"]]
    sortedE = [(nid(a), nid(b)) for a, b in sorted(list(E), key=lambda x: x[0].name + x[1].name)]     # Python's own sort
    terms, obs = [], {}

    def outcome(thunk):
        try:
            return "(Val %s)" % _nl([nid(o) for o in thunk()])
        except (RuntimeError, KeyError, ValueError, IndexError) as e:
            return "(Exc %s)" % type(e).__name__
    ents, exs = gf.find_entries_and_exits(V, E)
    ents, exs = [nid(o) for o in ents], [nid(o) for o in exs]
    obs["entries"], obs["exits"] = ents, exs
    terms.append("chk_gen_ee %s %s %s %s" % (_nl(c["V"]), _el(c["E"]), _nl(ents), _nl(exs)))
    P, C = gf.find_parents_and_children(E)
    par = [[nid(o) for o in P.get(v, ())] for v in V]
    chi = [[nid(o) for o in C.get(v, ())] for v in V]
    terms.append("chk_gen_pc %s %s %s [%s] [%s]" % (_nl(c["V"]), _el(c["E"]), _el(sortedE), ";".join(map(_nl, par)), ";".join(map(_nl, chi))))
    r0 = outcome(lambda: gf.topological_sort(V, E))
    obs["toposort(None)"] = r0
    terms.append("chk_gen_topo %s %s %s %s None %s" % (_nl(c["V"]), _el(c["E"]), _el(sortedE), _nl(ents), r0))
    r = random.Random(c["seed"])
    ins = list(ents)
    r.shuffle(ins)
    if c["inputs_mode"] == "subset" and len(ins) > 1:
        ins = ins[:-1]
    elif c["inputs_mode"] == "extra":
        ins.insert(r.randrange(len(ins) + 1), r.choice(c["V"]))
    elif c["inputs_mode"] == "twice" and ins:
        ins.append(r.choice(ins))
    r1 = outcome(lambda: gf.topological_sort(V, E, [objs[i] for i in ins]))
    obs["inputs"], obs["toposort(inputs)"] = ins, r1
    terms.append("chk_gen_topo %s %s %s [] (Some %s) %s" % (_nl(c["V"]), _el(c["E"]), _el(sortedE), _nl(ins), r1))
    return terms, obs


def gen_correspondence(ctx):
    """the GENERATED graphflow functions executed by vm_compute against the real ones (sub-id C03_gen)"""
    cases = gen_graph_cases(ctx.rng("corr-gen"), ctx.n(250, 2500))
    terms, keep, dist = [], [], {}
    for c in cases:
        try:
            ts, obs = run_gen_case(c)
        except Exception as e:
            ts, obs = ["false"], {"impl_error": repr(e)}
        for t in ts:
            terms.append(t)
            keep.append({"scenario": jsonable(c), "observed": obs, "term": t if len(t) < 600 else t[:600] + "..."})
        k = "gen:" + ("dup-edges" if c["dup"] else c["inputs_mode"]) + ":" + str(obs.get("toposort(inputs)", "?"))[1:4]
        dist[k] = dist.get(k, 0) + 1
    failing, err = core.run_cases(ctx.pid + "_gen", IMPORTS_GEN, terms, chunk=300)
    return terms, keep, dist, failing, err


def judge(case):
    c = case["scenario"]
    return _judge_law(c) if c.get("kind") == "law" else _judge(c)      # _judge dispatches kind == "share"


def nontrivial(c, obs, ref):
    """the denoted graph has an edge and (it is cyclic, or some node has a fan-in, or it has at least two levels)"""
    V, E = ref
    if not E:
        return False
    if obs is None:
        return True
    indeg = {}
    for a, b in E:
        indeg[b] = indeg.get(b, 0) + 1
    two_levels = any(b == a2 for (_, b) in E for (a2, _) in E)
    return two_levels or any(k > 1 for k in indeg.values())


def correspondence(ctx):
    cases = all_cases(ctx, "corr")
    shares = share_cases(ctx.rng("corr-share"), ctx.n(150, 1500))
    terms, keep, dist, nt = [], [], {}, set()
    for c in shares:
        try:
            W, parts, finals, updates = run_share(c)
        except Exception as e:
            terms.append("false")
            keep.append({"scenario": jsonable(c), "impl_error": repr(e)})
            continue
        for label, tree, term, obs, raw in parts:
            terms.append(raw if raw is not None else to_coq(c, W, term, obs))
            keep.append({"scenario": jsonable(c), "part": label,
                         "observed": obs if obs is not None else "RuntimeError: Model has a cycle",
                         "term": terms[-1] if len(terms[-1]) < 600 else terms[-1][:600] + "..."})
            k = "share:" + label[:3] + (":cycle" if obs is None else ":ok")
            dist[k] = dist.get(k, 0) + 1
            if label.startswith("use") and nontrivial(c, obs, ref_eval(tree)):
                nt.add(json.dumps([[p["cat"] for p in c["pool"]], c["lets"], c["uses"]]))
    for c in cases:
        try:
            W, m, term, obs = run_impl(c)
        except Exception as e:
            terms.append("false")
            keep.append({"scenario": jsonable(c), "impl_error": repr(e)})
            continue
        terms.append(to_coq(c, W, term, obs))
        keep.append({"scenario": jsonable(c), "observed": obs if obs is not None else "RuntimeError: Model has a cycle",
                     "term": terms[-1] if len(terms[-1]) < 600 else terms[-1][:600] + "..."})
        k = c["kind"] + (":cycle" if obs is None else ":ok" + (":concat" if any(v >= CAT_BASE for v in obs["order"]) else ""))
        dist[k] = dist.get(k, 0) + 1
        if nontrivial(c, obs, ref_eval(c["expr"])):
            nt.add(json.dumps([[p["cat"] for p in c["pool"]], c["expr"]]))
    # the runner and the model it executes are (re)built from the current sources, independently of the proofs
    ok, log, failed = core.compile_cone(core.coq_cone("run/RunC03.v"))
    if not ok:
        return {"evaluations": len(cases), "distinct_nontrivial": len(nt), "rule": "", "samples": keep[:3], "failing": [],
                "error": "cannot build run/RunC03.v (%s):\n%s" % (failed, log[-1500:])}
    failing, err = core.run_cases(ctx.pid, IMPORTS, terms, chunk=400)
    # tie (T), executed: the generated graphflow functions against the real ones (separate runner, sub-id C03_gen)
    gterms, gkeep, gdist, gfail, gerr = gen_correspondence(ctx)
    base = len(terms)
    terms, keep = terms + gterms, keep + gkeep
    dist.update(gdist)
    dist["generated-code disagreements"] = len(gfail)
    failing = sorted(set(failing) | {base + j for j in gfail})
    if gerr:
        err = (err or "") + "generated-code run (tie T): " + gerr
    return {"evaluations": len(terms), "distinct_nontrivial": len(nt),
            "rule": "[tie T executed: random digraphs on 1-6 nodes (cyclic, self-loops, lonely nodes, name-key ties; a few off-contract: "
                    "duplicated edges / inputs not the entry set) given DIRECTLY to the real find_entries_and_exits, find_parents_and_children, "
                    "topological_sort(inputs=None | list) and to the code generated from graphflow.py: entry/exit sets, parents/children "
                    "lists, and the returned ORDER or the exception compared exactly] "
                    "sharing scenarios: 1-2 let-bound models reused by 2-4 later expressions (left/right operand of >>, list "
                    "member, operand of & and &=; `v &= e` updates v), every use AND every variable re-observed at the end "
                    "compared with the model's eval of the inlined expression; every labelled digraph without self-loops and with >=1 edge on 2-3 nodes (quick) / 1-4 nodes + a 5-node sample "
                    "(thorough), each built twice: Model(nodes, edges) and as merged 1-to-1 links (& / &=); hand-written corner "
                    "cases; random expressions over 2-10 nodes with >>, link on lists, &, &= and user Concat nodes.  Non-trivial = "
                    "the denoted graph has an edge and is cyclic, has a fan-in or has two levels; distinct by (Concat flags, tree)",
            "samples": [keep[5], keep[3 * len(keep) // 4], keep[-1]],
            "distribution": dist, "tolerance": "exact (sets of ids)",
            "failing": [dict(keep[i], index=i) for i in failing], "error": err}


def _judge_declared(c):
    """Fan-in onto a node created with DECLARED dimensions (never run): the widths of the predecessors add up to the receiver's
    input dimension, so the construction is legal whichever way it is written; the graph must be built (each operand once, one
    inserted concatenation feeding the receiver, entries/exits) and must run."""
    import numpy as np
    rpy()
    from reservoirpy import link
    from reservoirpy.nodes import Concat, Identity
    _uid[0] += 1
    tag = "dd%d_" % _uid[0]
    dims = c["dims"]
    try:
        ss = [Identity(name="%ss%d" % (tag, i), input_dim=d, output_dim=d) for i, d in enumerate(dims)]
        r = Identity(name=tag + "r", input_dim=sum(dims), output_dim=sum(dims))
        if c.get("initialised"):          # the same nodes, each already run once on data of its width
            for n_, d in zip(ss + [r], dims + [sum(dims)]):
                n_.run(np.ones((1, d)))
        how = c["how"]
        if how == "list":
            m = ss >> r
        elif how == "link":
            m = link(ss, r)
        elif how == "merge":
            m = ss[0] >> r
            for s_ in ss[1:]:
                m = m & (s_ >> r)
        else:
            u = ss[0]
            for s_ in ss[1:]:
                u = u & s_
            m = u >> r
        plain = [n for n in m.nodes if type(n) is not Concat]
        if sorted(n.name for n in plain) != sorted(n.name for n in ss + [r]):
            return _viol("declared-dims:nodes:wrong-set", "fan-in of declared-dimension nodes: wrong node set", c, None, [n.name for n in m.nodes])
        if sorted(n.name for n in m.input_nodes) != sorted(n.name for n in ss) or [n.name for n in m.output_nodes] != [r.name]:
            return _viol("declared-dims:entries-exits", "fan-in of declared-dimension nodes: wrong entries / exits", c)
        X = {s_.name: np.full((2, d), float(i + 1)) for i, (s_, d) in enumerate(zip(ss, dims))}
        out = np.asarray(m.run(X))
        exp = sorted(v for i, d in enumerate(dims) for v in [float(i + 1)] * d)
        if out.shape != (2, sum(dims)) or sorted(out[0].tolist()) != exp:
            return _viol("declared-dims:wrong-output", "fan-in of declared-dimension nodes: the receiver does not get each predecessor once", c, exp, out.tolist())
    except Exception as e:  # noqa: BLE001
        if c.get("initialised"):
            return _viol("link:initialised-fan-in-rejected", "a legal fan-in of INITIALISED nodes of widths %s -> %d (%s) raises %r"
                         % (dims, sum(dims), c["how"], e), c)
        return _viol("declared-dims:fan-in-rejected", "a legal fan-in of nodes created with declared dimensions %s -> %d (%s) raises %r"
                     % (dims, sum(dims), c["how"], e), c)
    return None


def declared_cases(rng, count):
    return [{"kind": "declared", "dims": [rng.randint(1, 3) for _ in range(rng.randint(2, 3))], "how": rng.choice(["list", "link", "merge", "union"]),
             "initialised": k % 3 == 2} for k in range(count)]


def oracle(ctx, scale=1):
    rng = ctx.rng("oracle")
    if ctx.thorough:
        cases = graph_cases(rng, [1, 2, 3, 4]) + corner_cases() + expr_cases(rng, 2000 * scale)
    else:
        cases = graph_cases(rng, [2, 3]) + corner_cases() + expr_cases(rng, 300 * scale)
    laws = law_cases(rng, ctx.n(150, 1500) * scale)
    out, dist = [], {}
    cases = [c for c in cases if not c.get("corr_only")] + share_cases(ctx.rng("oracle-share"), ctx.n(150, 1500) * scale)
    cases += gen_graph_cases(ctx.rng("oracle-gen"), ctx.n(200, 2000) * scale)      # utils/graphflow.py called directly
    for c in cases:
        v = _judge(c)
        if v:
            out.append(v)
    for c in laws:
        v = _judge_law(c)
        dist[c["law"]] = dist.get(c["law"], 0) + 1
        if v:
            out.append(v)
    decl = declared_cases(ctx.rng("oracle-declared"), ctx.n(12, 120) * scale)
    for c in decl:
        v = _judge_declared(c)
        dist["declared-dims:" + c["how"]] = dist.get("declared-dims:" + c["how"], 0) + 1
        if v:
            out.append(v)
    return {"evaluations": len(cases) + len(laws) + len(decl), "violations": out, "distribution": dist,
            "rule": "utils/graphflow.py called directly on random digraphs: entries/exits, topological_sort(inputs=None | shuffled entries) "
                    "returns a topological order iff networkx says acyclic, cycle RuntimeError otherwise; "
                    "networkx acyclicity of the denoted plain digraph vs RuntimeError; operand nodes once; predecessors received "
                    "through inserted Concats == denoted predecessors, each once; entries/exits; topological order; "
                    "reused operand models unchanged (nodes, edges, entries, exits as sets) and every expression reusing them "
                    "denoting the plain graph of the inlined expression; isomorphism up to Concat names for (a>>b)>>c vs a>>(b>>c) (disjoint operands), a&b vs b&a, m&m vs m"}


def replay(payload):
    c = payload["scenario"]
    v = _judge_law(c) if c.get("kind") == "law" else (_judge_declared(c) if c.get("kind") == "declared" else _judge(c))
    return {"violates": bool(v), "detail": v}
