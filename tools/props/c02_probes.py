"""Directed oracle probes of C02 that need a multi-step history on ONE Model object (called from c02.oracle).

run -> in-place extension (&=, merge(inplace=True), update_graph) -> run: whatever the first run cached about the graph (which nodes
are returned, result form, allocation) must be forgotten: the second run is the composition along the NEW graph, with the new exits /
new nodes in the result."""
import numpy as np


def _viol(key, what, sc, expected=None, observed=None):
    return {"key": key, "what": what, "scenario": sc, "expected": expected, "observed": observed}


def _mk(tag):
    import reservoirpy as rpy
    rpy.verbosity(0)
    from reservoirpy.node import Node

    def init(node, x=None, **kw):
        node.set_input_dim(x.shape[1]); node.set_output_dim(x.shape[1])

    def mk(name, a, b):
        return Node(forward=lambda n, x, a=a, b=b: a * x + b, initializer=init, name="ip%s_%s" % (tag, name))
    return mk


def judge_inplace_after_run(tag="0"):
    """a >> b run once (return_states None and "all"), then extended in place so that the exits change (b >> c added, or a second exit a >> d),
    then run again with the same selection"""
    import reservoirpy as rpy
    out = []
    X = np.arange(6, dtype=float).reshape(3, 2) / 4.0
    for how in ("iand", "merge-inplace"):
        for ext in ("new-exit-downstream", "second-exit"):
            for rs in (None, "all"):
                sc = {"kind": "inplace-after-run", "how": how, "ext": ext, "return_states": rs, "tag": tag}
                mk = _mk("%s%s%s%s" % (tag, how[0], ext[0], "n" if rs is None else "a"))
                a, b, c = mk("a", 2.0, 1.0), mk("b", 0.5, -1.0), mk("c", 3.0, 0.25)
                try:
                    m = a >> b
                    m.run(X, return_states=rs)
                    m.call(X[0], return_states=rs)
                    other = (b >> c) if ext == "new-exit-downstream" else (a >> c)
                    if how == "iand":
                        m &= other
                    else:
                        m = rpy.merge(m, other, inplace=True)
                    res = m.run(X, return_states=rs, reset=True)
                    one = m.call(X[0], return_states=rs, reset=True)
                except Exception as e:  # noqa: BLE001
                    out.append(_viol("inplace-after-run:exception", "run, in-place extension (%s, %s), run raises %r" % (how, ext, e), sc))
                    continue
                va = 2.0 * X + 1.0
                vb = 0.5 * va - 1.0
                vc = 3.0 * (vb if ext == "new-exit-downstream" else va) + 0.25
                vals = {a.name: va, b.name: vb, c.name: vc}
                exits = [c.name] if ext == "new-exit-downstream" else [b.name, c.name]
                want_keys = sorted(vals) if rs == "all" else exits
                for label, got, sl in (("run", res, slice(None)), ("call", one, slice(0, 1))):
                    if rs is None and len(exits) == 1:
                        ok = isinstance(got, np.ndarray) and np.allclose(got, vals[exits[0]][sl])
                    else:
                        ok = isinstance(got, dict) and sorted(got) == sorted(want_keys) and all(np.allclose(got[k], vals[k][sl]) for k in want_keys)
                    if not ok:
                        out.append(_viol("inplace-after-run:stale-result", "model a >> b %s(return_states=%r) once, extended in place (%s, %s), then %s again: the result is not "
                                         "the composition along the new graph keyed by %s (got %s)"
                                         % (label, rs, how, ext, label, want_keys, sorted(got) if isinstance(got, dict) else "a bare array"), sc,
                                         want_keys, sorted(got) if isinstance(got, dict) else np.asarray(got).tolist()))
                        break
    seen, uniq = set(), []
    for v in out:
        if v["key"] not in seen:
            seen.add(v["key"]); uniq.append(v)
    return uniq


def judge_oneshot_return_states(tag="0"):
    """return_states given as a ONE-SHOT iterable of names (a generator, an iterator over a list): the named nodes' states come back as with a list"""
    out = []
    X = np.arange(8, dtype=float).reshape(4, 2) / 4.0
    for form in ("generator", "iter"):
        sc = {"kind": "oneshot-return-states", "form": form, "tag": tag}
        mk = _mk("%so%s" % (tag, form[0]))
        a, b, c = mk("a", 2.0, 1.0), mk("b", 0.5, -1.0), mk("c", 3.0, 0.25)
        try:
            m = a >> b >> c
            names = [a.name, b.name]
            rs = (n for n in names) if form == "generator" else iter(names)
            got = m.run(X, return_states=rs)
        except Exception as e:  # noqa: BLE001
            out.append(_viol("return_states:oneshot-iterable", "return_states given as a %s of node names raises %r" % (form, e), sc))
            continue
        va = 2.0 * X + 1.0
        vals = {a.name: va, b.name: 0.5 * va - 1.0}
        ok = isinstance(got, dict) and sorted(got) == sorted(vals) and all(np.allclose(got[k], vals[k]) for k in vals)
        if not ok:
            out.append(_viol("return_states:oneshot-iterable", "run(return_states=<%s of two node names>) does not return those nodes' states (got %s)"
                             % (form, {k: np.asarray(v).tolist() for k, v in got.items()} if isinstance(got, dict) else "a bare array"), sc,
                             {k: v.tolist() for k, v in vals.items()}, None))
    return out[:1]


def judge_call_iterable_forms(tag="0"):
    """single-step Model.call with return_states given as a tuple / set / dict keys / frozenset of node names: exactly the named nodes' states, keyed by name"""
    out = []
    x = np.array([[0.5, -1.25]])
    for form_name, mkform in (("tuple", tuple), ("set", set), ("frozenset", frozenset), ("dict_keys", lambda l: dict.fromkeys(l).keys())):
        sc = {"kind": "call-iterable-forms", "form": form_name, "tag": tag}
        mk = _mk("%sc%s" % (tag, form_name[0] + form_name[-1]))
        a, b, c = mk("a", 2.0, 1.0), mk("b", 0.5, -1.0), mk("c", 3.0, 0.25)
        try:
            m = a >> b >> c
            m.run(np.zeros((1, 2)))
            names = [a.name, b.name]
            got = m.call(x, return_states=mkform(names))
        except Exception as e:  # noqa: BLE001
            out.append(_viol("return_states:iterable-form:call", "Model.call(return_states=<%s of two node names>) raises %r" % (form_name, e), sc))
            continue
        va = 2.0 * x + 1.0
        vals = {a.name: va, b.name: 0.5 * va - 1.0}
        ok = isinstance(got, dict) and sorted(got) == sorted(vals) and all(np.allclose(got[k], vals[k]) for k in vals)
        if not ok:
            out.append(_viol("return_states:iterable-form:call", "Model.call(return_states=<%s of two node names>) does not return exactly those nodes' states (got %s)"
                             % (form_name, sorted(got) if isinstance(got, dict) else "a bare array"), sc, sorted(vals), sorted(got) if isinstance(got, dict) else None))
    return out[:1]
