"""C09 — offline training is invariant to batching, order and parallel schedule.

Correspondence with model/BatchAcc.v (data level), model/Conc.v (schedule level, result order) and an implementation
oracle.  The schedule level is observed WITHOUT any hook in /repo: the harness replaces the shared XXT / YXT buffers of
the readout by `ProbeAcc` arrays (an ndarray subclass whose `+=` is, like `+=` on a memmap shared between processes, a
read of the shared array followed later by a write; a short seeded dwell separates them and both micro-steps are logged
in one global order).  With mutual exclusion the logged sections are disjoint and the sums complete; without it
(pre-fix legacy trainers) sections overlap and updates are lost.
"""
import json
import threading
import time
from fractions import Fraction

import numpy as np

from vlib import core
from vlib.core import q, qmat, qvec, nat, coqbool, coqlist

IMPORTS = ("From Coq Require Import List QArith.\nFrom RV Require Import base.Num run.RunC09.\n"
           "Import ListNotations.\nOpen Scope Q_scope.")
TRUSTED = [
    "ProbeAcc (tools/props/c09.py): test double for the shared np.memmap buffers, injected from the harness into "
    "readout._buffers / RidgeRegression._XXT,_YXT; its += is read / dwell / write, each micro-step logged under an "
    "internal mutex (the log order is the real order of the shared accesses); used with the joblib 'threading' and "
    "'sequential' backends only (it cannot cross process boundaries)",
    "process backends (loky, multiprocessing): only the final Wout/bias are observed; real interleavings, memmap "
    "coherence between processes and joblib's pickling of memmaps are outside the model (the theorem is about the "
    "transition system of model/Conc.v)",
    "LA.qsolve (exact Gauss-Jordan over Q) stands for scipy.linalg.solve in the runner; the comparison tolerance absorbs "
    "LAPACK rounding; reservoir states fed to the readout are taken from a twin Reservoir run (C01 owns the recurrence)",
    "joblib returns results in submission order; the arrival order given to the model's sort_and_unpack is a seeded "
    "permutation chosen by the harness",
]
ASSUMPTIONS = [
    "inputs, targets, weights and ridge are small dyadic rationals; Gram sums of the direct Ridge scenarios are exact in float64",
    "ridge > 0 so that XXT + ridge.I is non-singular and well conditioned",
    "contributions are added in a commutative monoid (float addition is treated as exact: dyadic data)",
]

_uid = [0]


def uname(prefix):
    _uid[0] += 1
    return "c09_%s_%d" % (prefix, _uid[0])


def rpy():
    import reservoirpy
    reservoirpy.verbosity(0)
    return reservoirpy


def jsonable(c):
    def d(o):
        if isinstance(o, np.ndarray):
            return o.tolist()
        if isinstance(o, np.generic):
            return o.item()
        return str(o)
    return json.loads(json.dumps(c, default=d))


def farr(rows, width=None):
    a = np.array([[float(Fraction(v)) for v in r] for r in rows], dtype=float)
    return a.reshape(len(rows), -1 if width is None else width)


def hardtanh(x):
    return np.clip(x, -1.0, 1.0)


# ------------------------------------------------------------------------------------------ the probe
class Mon:
    def __init__(self, dwell_s, seed):
        import random
        self.mutex = threading.Lock()
        self.log = []          # (kind 'r'|'w', name 'XXT'|'YXT', thread id, contribution or None)
        self.rng = random.Random(seed)
        self.dwell_s = dwell_s

    def dwell(self):
        with self.mutex:
            f = 0.5 + self.rng.random()
        time.sleep(self.dwell_s * f)


class ProbeAcc(np.ndarray):
    """Shared accumulator whose in-place addition is a non-atomic read-modify-write."""

    def __iadd__(self, other):
        mon, nm = self._mon, self._nm
        tid = threading.get_ident()
        with mon.mutex:
            t = np.array(np.asarray(self), copy=True)
            mon.log.append(("r", nm, tid, np.array(other, dtype=float, copy=True)))
        mon.dwell()
        with mon.mutex:
            np.asarray(self)[...] = t + np.asarray(other)
            mon.log.append(("w", nm, tid, None))
        return self


def probe(arr, mon, nm):
    p = np.array(arr, dtype=float).view(ProbeAcc)
    p._mon, p._nm = mon, nm
    return p


def tasks_of_log(log):
    """Group the log into tasks (one r XXT, w XXT, r YXT, w YXT per thread at a time).
    Returns (tasks, sched, ok): tasks[k] = dict(tid, xxt, yxt, start, end); sched = Conc.v schedule (list of task ids:
    acquire+read / write / read / write+release); ok False when a thread's events are out of program order."""
    cur, tasks, sched, ok = {}, [], [], True
    expect = {("r", "XXT"): 0, ("w", "XXT"): 1, ("r", "YXT"): 2, ("w", "YXT"): 3}
    for i, (k, nm, tid, other) in enumerate(log):
        ph = expect[(k, nm)]
        if ph == 0:
            if tid in cur:
                ok = False
            tasks.append({"tid": tid, "xxt": other, "yxt": None, "start": i, "end": None, "phase": 0})
            cur[tid] = len(tasks) - 1
            sched += [cur[tid], cur[tid]]
            continue
        if tid not in cur or tasks[cur[tid]]["phase"] != ph - 1:
            ok = False
            continue
        t = tasks[cur[tid]]
        t["phase"] = ph
        if ph == 2:
            t["yxt"] = other
        if ph == 3:
            t["end"] = i
            sched += [cur[tid], cur[tid]]
            del cur[tid]
        else:
            sched.append(cur[tid])
    if cur:
        ok = False
    return tasks, sched, ok


def overlapping(tasks):
    iv = sorted((t["start"], t["end"]) for t in tasks if t["end"] is not None)
    return sum(1 for a, b in zip(iv, iv[1:]) if b[0] < a[1])


def match_tasks(tasks, grams):
    """task k -> index of a sequence whose (xxt, yxt) equals the contribution the task added (each sequence once)."""
    free = list(range(len(grams)))
    out = []
    for t in tasks:
        hit = None
        for j in free:
            gx, gy = grams[j]
            if t["yxt"] is not None and gx.shape == t["xxt"].shape and gy.shape == t["yxt"].shape \
                    and np.allclose(gx, t["xxt"], rtol=1e-12, atol=1e-12) and np.allclose(gy, t["yxt"], rtol=1e-12, atol=1e-12):
                hit = j
                break
        if hit is None:
            return None
        free.remove(hit)
        out.append(hit)
    return out if not free else None


def grams_of(seq_rows, bias):
    out = []
    for S, Y in seq_rows:
        Xb = np.hstack([np.ones((S.shape[0], 1)), S]) if bias else S
        out.append((Xb.T.dot(Xb), Y.T.dot(Xb)))
    return out


# ------------------------------------------------------------------------------------------ scenarios
def rand_rows(rng, T, dim, lim=4, maxpow=1):
    return [[str(core.dyadic(rng, lim, maxpow)) for _ in range(dim)] for _ in range(T)]


def rand_rows_nz(rng, T, dim, lim=2, maxpow=1):
    """rows with at least one non-zero entry each (input weights: the reservoir must see its input)"""
    rows = rand_rows(rng, T, dim, lim, maxpow)
    for r in rows:
        if all(Fraction(v) == 0 for v in r):
            r[rng.randrange(dim)] = str(Fraction(rng.choice([-1, 1]), 2 ** rng.randint(0, maxpow)))
    return rows


def rand_partition(rng, items):
    """random order + random cut into >= 1 non-empty batches"""
    items = list(items)
    rng.shuffle(items)
    cuts = sorted(rng.sample(range(1, len(items)), rng.randint(0, len(items) - 1))) if len(items) > 1 else []
    out, a = [], 0
    for c in cuts + [len(items)]:
        out.append(items[a:c])
        a = c
    return out


def gen_dataset(rng, din, dout, m, warmup, tmax=6, tmin=1):
    Xs, Ys = [], []
    for _ in range(m):
        T = rng.randint(warmup + tmin, max(warmup + tmin + 1, tmax))
        Xs.append(rand_rows(rng, T, din))
        Ys.append(rand_rows(rng, T, dout))
    return Xs, Ys


def gen_twins(rng, n):
    """two live deep copies of one Ridge template (same name), partial fits interleaved, then both fitted"""
    cases = []
    for i in range(n):
        din, dout = rng.randint(1, 3), rng.randint(1, 2)
        warmup = rng.choice([0, 0, 1])
        XA, YA = gen_dataset(rng, din, dout, rng.randint(2, 4), warmup)
        XB, YB = gen_dataset(rng, din, dout, rng.randint(2, 4), warmup)
        ga, gb = rand_partition(rng, range(len(XA))), rand_partition(rng, range(len(XB)))
        if len(ga) == 1 and len(XA) > 1:
            ga = [ga[0][:1], ga[0][1:]]
        # random merge of the two call sequences; copy a always starts so that b's first call comes while a is live
        calls, ia, ib = [["a", ga[0]]], 1, 0
        while ia < len(ga) or ib < len(gb):
            if ib < len(gb) and (ia >= len(ga) or rng.random() < 0.6):
                calls.append(["b", gb[ib]]); ib += 1
            else:
                calls.append(["a", ga[ia]]); ia += 1
        cases.append({"kind": "twins", "din": din, "dout": dout, "warmup": warmup, "bias": rng.random() < 0.7,
                      "ridge": str(Fraction(rng.choice([1, 2, 4]), 4)), "XA": XA, "YA": YA, "XB": XB, "YB": YB,
                      "calls": calls, "in_model": i % 3 == 2, "fit_order": rng.choice(["ab", "ba"])})
    return cases


def gen_cases(rng, n_ridge, n_esn, n_legacy, n_run, thorough=False):
    cases = gen_twins(rng, max(2, n_ridge // 4))
    for i in range(n_ridge):
        din, dout = rng.randint(1, 3), rng.randint(1, 2)
        m, warmup = rng.randint(2, 5), rng.choice([0, 0, 1, 2])
        Xs, Ys = gen_dataset(rng, din, dout, m, warmup)
        cases.append({"kind": "ridge", "din": din, "dout": dout, "warmup": warmup, "bias": rng.random() < 0.7,
                      "ridge": str(Fraction(rng.choice([1, 1, 2, 4, 8]), 4)), "X": Xs, "Y": Ys,
                      "orders": [rng.sample(range(m), m) for _ in range(2)],
                      "groupings": [rand_partition(rng, range(m)) for _ in range(2)]})
    backs = [(1, "sequential"), (2, "threading"), (4, "threading"), (4, "sequential")]
    for i in range(n_esn):
        din, dout, N = rng.randint(1, 2), rng.randint(1, 2), rng.randint(2, 3)
        m, warmup = rng.randint(3, 6), rng.choice([0, 0, 1])
        Xs, Ys = gen_dataset(rng, din, dout, m, warmup, tmax=5)
        # documented joblib values n_jobs <= -2 (all CPUs but |n|-1) with an explicit parallel backend: several workers
        cfg = list(backs) + [((-2, "threading"), (-3, "threading"))[i % 2]]
        if thorough:
            cfg += [(-3 if i % 2 == 0 else -2, "threading"), (-4, "threading")] + ([(-2, "loky")] if i % 5 == 0 else [])
        if thorough:
            cfg += [(2, "loky"), (4, "multiprocessing"), (8, "threading"), (-1, "threading")][: 2 + i % 3]
        # a data set of exactly ONE series with a warm-up > 0 (array, [array], 3-D array of length 1)
        w1 = rng.choice([1, 2])
        X1, Y1 = gen_dataset(rng, din, dout, 1, w1, tmax=7, tmin=2)
        cases.append({"kind": "esn", "w1": w1, "X1": X1[0], "Y1": Y1[0],
                      "din": din, "dout": dout, "N": N, "warmup": warmup, "bias": rng.random() < 0.7,
                      "ridge": str(Fraction(rng.choice([1, 2, 4]), 4)), "lr": rng.choice(["1", "1/2", "1/4"]),
                      "act": rng.choice(["id", "relu", "hardtanh"]),
                      "W": rand_rows(rng, N, N, lim=2, maxpow=2), "Win": rand_rows_nz(rng, N, din),
                      "b": rand_rows(rng, N, 1, lim=2, maxpow=1),
                      "X": Xs, "Y": Ys, "configs": cfg, "order": rng.sample(range(m), m),
                      # a SECOND fit of an already fitted ESN under a parallel schedule (process backends ship the fitted readout
                      # to the workers): the same solution again
                      "refit_configs": [(2, "threading")] + ([(2, "loky")] if (thorough or i % 4 == 0) else [])
                                       + ([(3, "multiprocessing")] if thorough and i % 3 == 0 else []),
                      "dwell_seed": rng.randint(0, 10 ** 6)})
    for i in range(n_legacy):
        din, dout, N = rng.randint(1, 2), rng.randint(1, 2), rng.randint(2, 3)
        m = rng.randint(3, 6)
        # >= 3 steps: compat parallelize() mistakes a 2-row state array for an (outputs, states) pair when it fills the
        # returned states (the trained Wout is not affected, only the states this harness reads back)
        Xs, Ys = gen_dataset(rng, din, dout, m, 0, tmax=6, tmin=3)
        cases.append({"kind": "legacy", "din": din, "dout": dout, "N": N,
                      "ridge": str(Fraction(rng.choice([1, 2, 4]), 4)), "lr": rng.choice(["1", "1/2"]),
                      "act": rng.choice(["id", "hardtanh"]),
                      "W": rand_rows(rng, N, N, lim=2, maxpow=2), "Win": rand_rows_nz(rng, N, din + 1),
                      "X": Xs, "Y": Ys, "workers": [1, 2, 4] + ([8] if thorough else []),
                      "backends": ["threading"] + (["loky"] if thorough and i % 4 == 0 else []),
                      "dwell_seed": rng.randint(0, 10 ** 6)})
    for i in range(n_run):
        din, dout, N = rng.randint(1, 2), rng.randint(1, 2), rng.randint(2, 3)
        m = rng.randint(3, 6)
        lens = rng.sample(range(1, 9), m)            # pairwise different lengths: a wrong order cannot go unnoticed
        Xs = [rand_rows(rng, T, din) for T in lens]
        Xf, Yf = gen_dataset(rng, din, dout, 2, 0)
        cases.append({"kind": "run", "din": din, "dout": dout, "N": N, "ridge": "1/2", "lr": "1/2", "act": "hardtanh",
                      "bias": True, "W": rand_rows(rng, N, N, lim=2, maxpow=2), "Win": rand_rows_nz(rng, N, din),
                      "b": rand_rows(rng, N, 1, lim=2, maxpow=1), "Xfit": Xf, "Yfit": Yf, "X": Xs,
                      "configs": [(2, "threading"), (4, "threading")] + ([(3, "loky")] if thorough and i % 3 == 0 else []),
                      "arrival": rng.sample(range(m), m)})
    return cases


def act_id(x):
    return x


def act_relu(x):
    return np.maximum(x, 0.0)


# module-level functions: the multiprocessing backend pickles the ESN (and its activation) by reference
ACTS = {"id": act_id, "relu": act_relu, "hardtanh": hardtanh}


# ------------------------------------------------------------------------------------------ running the real library
def mk_reservoir(c, tag):
    from reservoirpy.nodes import Reservoir
    N = c["N"]
    return Reservoir(units=N, W=farr(c["W"], N), Win=farr(c["Win"]), bias=farr(c["b"], 1), lr=float(Fraction(c["lr"])),
                     activation=ACTS[c["act"]], input_bias=True, name=uname("res" + tag))


def mk_esn(c, workers, backend, tag):
    from reservoirpy.nodes import ESN, Ridge
    res = mk_reservoir(c, tag)
    rd = Ridge(ridge=float(Fraction(c["ridge"])), input_bias=c["bias"], name=uname("rd" + tag))
    return ESN(reservoir=res, readout=rd, workers=workers, backend=backend, name=uname("esn" + tag)), res, rd


def wb(rd):
    W = np.asarray(rd.Wout, dtype=float)
    b = np.asarray(rd.bias, dtype=float).reshape(1, -1)
    return {"W": W.tolist(), "b": b.tolist()}


def run_ridge(c):
    """Ridge node fed directly: (a) one array of the retained rows, (b) sequence lists in several orders, (c) partial
    fits in several groupings (buffers read before fit())."""
    rpy()
    from reservoirpy.nodes import Ridge
    Xs = [farr(x, c["din"]) for x in c["X"]]
    Ys = [farr(y, c["dout"]) for y in c["Y"]]
    w, ridge = c["warmup"], float(Fraction(c["ridge"]))

    def new():
        return Ridge(ridge=ridge, input_bias=c["bias"], name=uname("rdg"))
    sols, bufs = [], []
    rd = new()
    rd.fit(np.vstack([x[w:] for x in Xs]), np.vstack([y[w:] for y in Ys]))
    sols.append(dict(wb(rd), how="one-array"))
    rd = new()
    rd.fit(Xs, Ys, warmup=w)
    sols.append(dict(wb(rd), how="list"))
    for o in c["orders"]:
        rd = new()
        rd.fit([Xs[i] for i in o], [Ys[i] for i in o], warmup=w)
        sols.append(dict(wb(rd), how="order:%s" % o))
    for g in c["groupings"]:
        rd = new()
        for batch in g:
            rd.partial_fit([Xs[i] for i in batch], [Ys[i] for i in batch], warmup=w)
        bufs.append({"grouping": g, "XXT": np.array(rd.get_buffer("XXT")).tolist(), "YXT": np.array(rd.get_buffer("YXT")).tolist()})
        rd.fit()
        sols.append(dict(wb(rd), how="partial:%s" % g))
    return {"sols": sols, "bufs": bufs}


def esn_uses_lock(workers, backend):
    # reservoirpy/nodes/esn.py ESN.fit
    return (workers > 1 or workers < 0) and backend != "sequential"


def run_esn(c, dwell_ms=1.0):
    rpy()
    Xs = [farr(x, c["din"]) for x in c["X"]]
    Ys = [farr(y, c["dout"]) for y in c["Y"]]
    w = c["warmup"]
    twin = mk_reservoir(c, "twin")
    states = [np.array(twin.run(x, reset=True)) for x in Xs]
    rows = [(s[w:], y[w:]) for s, y in zip(states, Ys)]
    grams = grams_of(rows, c["bias"])
    sols, scheds = [], []
    for ci, (k, be) in enumerate(c["configs"]):
        for order in ([list(range(len(Xs)))] if ci else [list(range(len(Xs))), c["order"]]):
            esn, res, rd = mk_esn(c, k, be, "%s%d" % (be[:3], k if k > 0 else 0))
            mon = None
            if be in ("threading", "sequential"):
                esn.initialize(Xs[0], Ys[0])
                esn.initialize_buffers()
                mon = Mon(dwell_ms / 1000.0, c["dwell_seed"] + ci)
                rd._buffers["XXT"] = probe(rd._buffers["XXT"], mon, "XXT")
                rd._buffers["YXT"] = probe(rd._buffers["YXT"], mon, "YXT")
                px, py = rd._buffers["XXT"], rd._buffers["YXT"]
            esn.fit([Xs[i] for i in order], [Ys[i] for i in order], warmup=w)
            sols.append(dict(wb(rd), how="esn workers=%s backend=%s order=%s" % (k, be, order)))
            if mon is not None:
                tasks, sched, ok = tasks_of_log(mon.log)
                scheds.append({"workers": k, "backend": be, "use_lock": esn_uses_lock(k, be), "program_order": ok,
                               "n_tasks": len(tasks), "threads": len({t["tid"] for t in tasks}),
                               "overlaps": overlapping(tasks), "sched": sched, "task_seq": match_tasks(tasks, grams),
                               "XXT": np.asarray(px).tolist(), "YXT": np.asarray(py).tolist()})
    for k, be in c.get("refit_configs", []):
        esn, res, rd = mk_esn(c, k, be, "rf%s%d" % (be[:3], k))
        esn.fit(Xs[::-1], [2.0 * y + 1.0 for y in Ys[::-1]], warmup=w)          # an earlier, completed session on other targets
        esn.fit(Xs, Ys, warmup=w)
        sols.append(dict(wb(rd), how="esn RE-fit (already fitted) workers=%s backend=%s" % (k, be)))
    if len(Xs) >= 2:
        # the first sequence given to the readout directly (partial_fit on its reservoir states), the others through ESN.fit under a
        # parallel schedule: every sequence must still be counted exactly once
        for k, be in c.get("refit_configs", []):
            esn, res, rd = mk_esn(c, k, be, "pf%s%d" % (be[:3], k))
            rd.partial_fit(states[0], Ys[0], warmup=w)
            esn.fit(Xs[1:], Ys[1:], warmup=w)
            sols.append(dict(wb(rd), how="readout.partial_fit(first sequence) then esn.fit(the others) workers=%s backend=%s" % (k, be)))
    single = None
    if "X1" in c:
        x1, y1, w1 = farr(c["X1"], c["din"]), farr(c["Y1"], c["dout"]), c["w1"]
        s1 = np.array(twin.run(x1, reset=True))
        ssols = []
        for how, X, Y, k, be in (("array", x1, y1, 1, "sequential"), ("[array]", [x1], [y1], 1, "sequential"),
                                 ("3-D array of length 1", x1[None], y1[None], 1, "sequential"),
                                 ("[array] workers=2 threading", [x1], [y1], 2, "threading"),
                                 ("array workers=-1 threading", x1, y1, -1, "threading")):
            esn, res, rd = mk_esn(c, k, be, "one")
            esn.fit(X, Y, warmup=w1)
            ssols.append(dict(wb(rd), how="esn single series as %s, warmup=%d" % (how, w1)))
        # the same retained timesteps given directly to a Ridge node (explicit retained-timestep solution)
        from reservoirpy.nodes import Ridge
        ref = Ridge(ridge=float(Fraction(c["ridge"])), input_bias=c["bias"], name=uname("rd1ref"))
        ref.fit(s1[w1:], y1[w1:])
        single = {"states": s1.tolist(), "sols": ssols, "ref": dict(wb(ref), how="Ridge on the retained timesteps states[%d:]" % w1)}
    return {"states": [s.tolist() for s in states], "sols": sols, "scheds": scheds, "single": single}


def legacy_uses_lock(workers, nseq):
    # reservoirpy/compat/_esn.py ESN.train (commit e6e7ed9) / regression_models.py RidgeRegression.fit (d160369)
    n = min(nseq, workers)
    return n > 1 or n == -1


def run_legacy(c, dwell_ms=1.0):
    """compat.ESN.train with k workers, and compat RidgeRegression.fit(list, list) on the same states."""
    rpy()
    from reservoirpy.compat import ESN as LESN
    from reservoirpy.compat.regression_models import RidgeRegression
    import reservoirpy.utils.parallel as up
    Xs = [farr(x, c["din"]) for x in c["X"]]
    Ys = [farr(y, c["dout"]) for y in c["Y"]]
    N, ridge = c["N"], float(Fraction(c["ridge"]))
    saved = up._BACKEND
    sols, scheds, states = [], [], None
    try:
        for be in c["backends"]:
            up.set_joblib_backend(be)
            for ci, k in enumerate(c["workers"]):
                e = LESN(lr=float(Fraction(c["lr"])), W=farr(c["W"], N), Win=farr(c["Win"], c["din"] + 1), input_bias=True,
                         ridge=ridge, activation=ACTS[c["act"]])
                mon = None
                if be == "threading":
                    mon = Mon(dwell_ms / 1000.0, c["dwell_seed"] + ci)
                    _install_legacy_probe(e.model, mon)
                st = e.train(Xs, Ys, workers=k, return_states=True)
                if states is None:
                    states = [np.array(s) for s in st]
                    grams = grams_of(list(zip(states, Ys)), True)
                Wo = np.asarray(e.Wout, dtype=float)
                sols.append({"W": Wo[:, 1:].T.tolist(), "b": Wo[:, :1].T.tolist(), "how": "compat.ESN.train workers=%s backend=%s" % (k, be)})
                if mon is not None:
                    scheds.append(_sched_record(mon, "esn-train", k, be, legacy_uses_lock(k, len(Xs)), grams))
            # RidgeRegression.fit(list of states, list of targets)
            for ci, k in enumerate(c["workers"]):
                m = RidgeRegression(ridge=ridge, workers=k)
                m.initialize(N, c["dout"])
                mon = None
                if be == "threading":
                    mon = Mon(dwell_ms / 1000.0, c["dwell_seed"] + 100 + ci)
                    m._XXT, m._YXT = probe(m._XXT, mon, "XXT"), probe(m._YXT, mon, "YXT")
                    mon.px, mon.py = m._XXT, m._YXT
                Wo = np.asarray(m.fit([s.copy() for s in states], [y.copy() for y in Ys]), dtype=float)
                sols.append({"W": Wo[:, 1:].T.tolist(), "b": Wo[:, :1].T.tolist(), "how": "compat.RidgeRegression.fit workers=%s backend=%s" % (k, be)})
                if mon is not None:
                    scheds.append(_sched_record(mon, "ridge-fit", k, be, legacy_uses_lock(k, len(Xs)), grams))
    finally:
        up.set_joblib_backend(saved)
    return {"states": [s.tolist() for s in states], "sols": sols, "scheds": scheds}


def _install_legacy_probe(model, mon):
    orig = model.initialize

    def init(dim_in=None, dim_out=None):
        orig(dim_in, dim_out)
        if not isinstance(model._XXT, ProbeAcc):
            model._XXT, model._YXT = probe(model._XXT, mon, "XXT"), probe(model._YXT, mon, "YXT")
            if not hasattr(mon, "px"):
                mon.px, mon.py = model._XXT, model._YXT
    model.initialize = init


def _sched_record(mon, what, k, be, use_lock, grams):
    tasks, sched, ok = tasks_of_log(mon.log)
    return {"what": what, "workers": k, "backend": be, "use_lock": use_lock, "program_order": ok, "n_tasks": len(tasks),
            "threads": len({t["tid"] for t in tasks}), "overlaps": overlapping(tasks), "sched": sched,
            "task_seq": match_tasks(tasks, grams), "XXT": np.asarray(mon.px).tolist(), "YXT": np.asarray(mon.py).tolist()}


def run_runorder(c):
    rpy()
    Xf = [farr(x, c["din"]) for x in c["Xfit"]]
    Yf = [farr(y, c["dout"]) for y in c["Yfit"]]
    Xs = [farr(x, c["din"]) for x in c["X"]]
    e1, _, _ = mk_esn(c, 1, "sequential", "one")
    e1.fit(Xf, Yf)
    singles = [np.array(e1.run(x, reset=True)).tolist() for x in Xs]
    par = []
    for k, be in c["configs"]:
        ek, _, _ = mk_esn(c, k, be, "par")
        ek.fit(Xf, Yf)
        outs = ek.run(Xs, reset=True)
        par.append({"workers": k, "backend": be, "outs": [np.array(o).tolist() for o in outs]})
    return {"singles": singles, "par": par}


def run_twins(c):
    rpy()
    from copy import deepcopy
    from reservoirpy.nodes import Input, Ridge
    w, ridge = c["warmup"], float(Fraction(c["ridge"]))
    data = {"a": ([farr(x, c["din"]) for x in c["XA"]], [farr(y, c["dout"]) for y in c["YA"]]),
            "b": ([farr(x, c["din"]) for x in c["XB"]], [farr(y, c["dout"]) for y in c["YB"]])}
    template = Ridge(ridge=ridge, input_bias=c["bias"], name=uname("tmpl"))
    node = {"a": deepcopy(template), "b": deepcopy(template)}
    models = None
    if c["in_model"]:       # the two copies live in two different models
        models = [Input(name=uname("ina")) >> node["a"], Input(name=uname("inb")) >> node["b"]]
    for who, batch in c["calls"]:
        X, Y = data[who]
        node[who].partial_fit([X[i] for i in batch], [Y[i] for i in batch], warmup=w)
    out = {"names": [node["a"].name, node["b"].name], "copies": {}}
    for who in "ab":
        out["copies"][who] = {"grouping": [b for wh, b in c["calls"] if wh == who],
                              "XXT": np.array(node[who].get_buffer("XXT")).tolist(),
                              "YXT": np.array(node[who].get_buffer("YXT")).tolist()}
    for who in c["fit_order"]:
        node[who].fit()
        out["copies"][who].update(wb(node[who]))
    for who in "ab":
        ref = Ridge(ridge=ridge, input_bias=c["bias"], name=uname("ref"))
        ref.fit(data[who][0], data[who][1], warmup=w)
        out["copies"][who]["ref"] = wb(ref)
    return out


def run_impl(c):
    return {"ridge": run_ridge, "esn": run_esn, "legacy": run_legacy, "run": run_runorder, "twins": run_twins}[c["kind"]](c)


# ------------------------------------------------------------------------------------------ Gallina terms
def qrows(X, Y):
    return coqlist(["(%s, %s)" % (qvec(x), qvec(y)) for x, y in zip(X, Y)])


def qseqs(Xs, Ys):
    return coqlist([qrows(x, y) for x, y in zip(Xs, Ys)])


def sols_term(sols):
    return coqlist(["(%s, %s)" % (qmat(s["W"]), qmat(s["b"])) for s in sols])


def to_coq(c, o):
    """list of (label, term)"""
    out = []
    if c["kind"] == "ridge":
        canon = coqlist([qseqs(c["X"], c["Y"])])
        out.append(("solutions", "chk_solutions %s %s %s %s %s %s %s" % (
            coqbool(c["bias"]), nat(c["din"]), nat(c["dout"]), nat(c["warmup"]), canon, q(c["ridge"]), sols_term(o["sols"]))))
        for b in o["bufs"]:
            batches = coqlist([qseqs([c["X"][i] for i in batch], [c["Y"][i] for i in batch]) for batch in b["grouping"]])
            out.append(("buffers %s" % b["grouping"], "chk_buffers %s %s %s %s %s %s %s" % (
                coqbool(c["bias"]), nat(c["din"]), nat(c["dout"]), nat(c["warmup"]), batches, qmat(b["XXT"]), qmat(b["YXT"]))))
        return out
    if c["kind"] == "twins":
        for who, (X, Y) in (("a", (c["XA"], c["YA"])), ("b", (c["XB"], c["YB"]))):
            r = o["copies"][who]
            batches = coqlist([qseqs([X[i] for i in batch], [Y[i] for i in batch]) for batch in r["grouping"]])
            args = "%s %s %s %s" % (coqbool(c["bias"]), nat(c["din"]), nat(c["dout"]), nat(c["warmup"]))
            out.append(("copy %s buffers" % who, "chk_buffers %s %s %s %s" % (args, batches, qmat(r["XXT"]), qmat(r["YXT"]))))
            out.append(("copy %s solution" % who, "chk_solutions %s %s %s %s" % (
                args, coqlist([qseqs(X, Y)]), q(c["ridge"]), sols_term([r, r["ref"]]))))
        return out
    if c["kind"] in ("esn", "legacy"):
        bias = c["bias"] if c["kind"] == "esn" else True
        w = c["warmup"] if c["kind"] == "esn" else 0
        S = o["states"]
        canon = coqlist([qseqs(S, c["Y"])])
        out.append(("solutions", "chk_solutions %s %s %s %s %s %s %s" % (
            coqbool(bias), nat(c["N"]), nat(c["dout"]), nat(w), canon, q(c["ridge"]), sols_term(o["sols"]))))
        if o.get("single"):
            sg = o["single"]
            out.append(("single series with warm-up", "chk_solutions %s %s %s %s %s %s %s" % (
                coqbool(bias), nat(c["N"]), nat(c["dout"]), nat(c["w1"]), coqlist([coqlist([qrows(sg["states"], c["Y1"])])]),
                q(c["ridge"]), sols_term(sg["sols"] + [sg["ref"]]))))
        for r in o["scheds"]:
            lab = "schedule %s workers=%s backend=%s" % (r.get("what", "esn-fit"), r["workers"], r["backend"])
            if not r["program_order"] or r["task_seq"] is None:
                out.append((lab + " (trace is not a trace of the program)", "false"))
                continue
            tasks = coqlist([qrows(S[j][w:], c["Y"][j][w:]) for j in r["task_seq"]])
            out.append((lab, "chk_sched %s %s %s %s %s %s %s %s" % (
                coqbool(r["use_lock"]), coqbool(bias), nat(c["N"]), nat(c["dout"]), tasks,
                coqlist([nat(t) for t in r["sched"]]), qmat(r["XXT"]), qmat(r["YXT"]))))
        return out
    if c["kind"] == "run":
        for p in o["par"]:
            arrived = coqlist(["(%s, %s)" % (nat(i), qmat(o["singles"][i])) for i in c["arrival"]])
            obs = coqlist([qmat(x) for x in p["outs"]])
            out.append(("run workers=%s backend=%s" % (p["workers"], p["backend"]), "chk_order %s %s" % (arrived, obs)))
        return out
    raise ValueError(c["kind"])


def nontrivial(c, o):
    if c["kind"] == "twins":
        return o["names"][0] == o["names"][1] and sum(1 for wh, _ in c["calls"] if wh == "a") >= 2
    if c["kind"] == "ridge":
        perm = any(x != sorted(x) for x in c["orders"]) or any(len(g) > 1 for g in c["groupings"])
        return len(c["X"]) >= 2 and perm and any(abs(v) > 0 for r in o["sols"][0]["W"] for v in r)
    if c["kind"] in ("esn", "legacy"):
        return any(r["threads"] >= 2 for r in o["scheds"]) and any(abs(v) > 0 for r in o["sols"][0]["W"] for v in r)
    return len(c["X"]) >= 3 and c["arrival"] != sorted(c["arrival"])


def pregen(ctx):
    """tie (T): re-translate nodes/readouts/ridge.py + base.py of the tree under test into coq/gen/Gen_ridge.v"""
    from vlib import gen
    errs = [gen.pregen_units(["ridge"]), _pregen_parallel()]
    return "\n".join(e for e in errs if e) or None


def _pregen_parallel():
    """tie (T): re-translate the parallel glue of nodes/esn.py (_sort_and_unpack, the `return idx, ...` of _run_fn, the ESN.run and ESN.fit
    dispatches, the lock rule, except: clean_buffers; raise) of the tree under test into coq/gen/Gen_parallel.v (translator vlib/py2coq_par.py,
    vocabulary coq/base/ParPrelude.v); proofs/Gen_parallel_eq.v proves them against model/Conc.v (C09_generated_sort_and_unpack_*,
    C09_generated_run_*, C09_generated_fit_*).  Independent of the ridge unit.  Returns None or the error text; on rejection a stub that does
    not compile replaces the file (never a stale model)."""
    import os
    import traceback
    from vlib import py2coq_par
    path = os.path.join(core.COQ, "gen", "Gen_parallel.v")
    os.makedirs(os.path.dirname(path), exist_ok=True)
    err = None
    try:
        text = py2coq_par.emit(core.REPO)
    except py2coq_par.Reject as ex:
        err = "translation rejected: %s" % ex
    except Exception:
        err = "translator exception: " + traceback.format_exc()[-1500:]
    if err is not None:
        text = "(* GENERATED: translation of the parallel glue of nodes/esn.py FAILED -- %s *)\nDefinition translation_failed : True := 0.\n" % (
            err.replace("*)", "* )").replace("(*", "( *"))
    old = open(path).read() if os.path.exists(path) else None
    if old != text:               # keep the mtime (and the compiled cone) when nothing changed
        with open(path, "w") as f:
            f.write(text)
    return None if err is None else "parallel glue (_sort_and_unpack / ESN.run / ESN.fit dispatch): %s" % err


def correspondence(ctx):
    rng = ctx.rng("corr")
    cases = gen_cases(rng, ctx.n(32, 250), ctx.n(5, 30), ctx.n(3, 12), ctx.n(4, 24), ctx.thorough)
    terms, owner, keep, dist, nt = [], [], [], {}, set()
    for ci, c in enumerate(cases):
        try:
            o = run_impl(c)
            err = None
        except Exception as e:
            o, err = None, repr(e)
        if o is None:
            terms.append("false")
            owner.append((ci, "implementation raised"))
            keep.append({"scenario": jsonable(c), "impl_error": err})
            continue
        summ = {k: v for k, v in o.items() if k not in ("states",)}
        keep.append({"scenario": jsonable(c), "observed": _summary(jsonable(summ))})
        for lab, t in to_coq(c, o):
            terms.append(t)
            owner.append((ci, lab))
        dist[c["kind"]] = dist.get(c["kind"], 0) + 1
        for r in o.get("scheds", []):
            key = "sched:%s:%s:w%s" % (r.get("what", "esn-fit"), r["backend"], r["workers"])
            dist[key] = dist.get(key, 0) + 1
        if nontrivial(c, o):
            nt.add(repr(jsonable(c)))
    failing, err = core.run_cases(ctx.pid, IMPORTS, terms, chunk=40)
    bad = {}
    for i in failing:
        ci, lab = owner[i]
        bad.setdefault(ci, []).append(lab)
    return {"evaluations": len(terms), "distinct_nontrivial": len(nt),
            "rule": "seeded scenarios: Ridge node on dyadic rows presented as one array / sequence lists in 3 orders / 2 random "
                    "partial_fit groupings (buffers read with get_buffer before fit), ESN.fit with workers x backend configurations "
                    "(probe accumulators replayed through model/Conc.v), legacy compat.ESN.train and compat.RidgeRegression.fit with "
                    "1,2,4 workers, ESN.run on lists of sequences of pairwise different lengths; one Coq check per observation; "
                    "non-trivial = >= 2 sequences with a non-identity order or a real regrouping and a non-zero solution (ridge), "
                    ">= 2 distinct worker threads seen inside the accumulation section (esn, legacy), a non-sorted arrival order of "
                    ">= 3 sequences (run); distinct by scenario text",
            "samples": [keep[0], keep[min(len(keep) - 1, ctx.n(32, 250))], keep[-1]],
            "distribution": dist, "tolerance": "1e-9 relative (qclose)",
            "failing": [dict(keep[ci], index=ci, checks=labs) for ci, labs in sorted(bad.items())], "error": err}


def _summary(o):
    """keep the evidence readable: schedules and matrices are summarised"""
    if isinstance(o, dict):
        return {k: ("<%d steps>" % len(v) if k == "sched" else _summary(v)) for k, v in o.items() if k not in ("XXT", "YXT")}
    if isinstance(o, list):
        return [_summary(v) for v in o[:6]]
    return o


# ------------------------------------------------------------------------------------------ oracle on the implementation
def _viol(key, what, c, expected=None, observed=None):
    return {"key": key, "what": what, "scenario": jsonable(c), "expected": jsonable(expected), "observed": jsonable(observed)}


def _close(a, b):
    a, b = np.asarray(a, dtype=float), np.asarray(b, dtype=float)
    return a.shape == b.shape and bool(np.all(np.abs(a - b) <= 1e-9 * np.maximum(1.0, np.abs(a))))


def _exact_buffers(c, grouping):
    """exact rational XXT, YXT for the retained rows (Fractions)"""
    w, bias = c["warmup"], c["bias"]
    n = c["din"] + (1 if bias else 0)
    XX = [[Fraction(0)] * n for _ in range(n)]
    YX = [[Fraction(0)] * n for _ in range(c["dout"])]
    for batch in grouping:
        for i in batch:
            for x, y in list(zip(c["X"][i], c["Y"][i]))[w:]:
                xb = ([Fraction(1)] if bias else []) + [Fraction(v) for v in x]
                yy = [Fraction(v) for v in y]
                for a in range(n):
                    for b in range(n):
                        XX[a][b] += xb[a] * xb[b]
                    for d in range(c["dout"]):
                        YX[d][a] += yy[d] * xb[a]
    return XX, YX


def _sched_violations(c, r, who):
    key = {"esn-fit": "ridge:unlocked-accumulate", "ridge-fit": "compat-ridge:unlocked-accumulate",
           "esn-train": "compat-esn-train:unlocked-accumulate"}[who]
    if not r["program_order"]:
        return _viol("trace:program-order", "%s: accumulation events of one worker are out of program order" % who, c, None, r["n_tasks"])
    if r["overlaps"] > 0:
        return _viol(key, "%s with %s workers (%s backend): %d of %d accumulation sections overlap in time (no mutual exclusion "
                          "around XXT += xxt; YXT += yxt)" % (who, r["workers"], r["backend"], r["overlaps"], r["n_tasks"]),
                     c, "pairwise disjoint read..write sections", {"overlaps": r["overlaps"], "tasks": r["n_tasks"], "threads": r["threads"]})
    return None


def _judge_all(c, dwell_ms=1.0):
    """every violated clause of the statement on this scenario, at most one per key"""
    try:
        if c["kind"] == "esn":
            o = run_esn(c, dwell_ms)
        elif c["kind"] == "legacy":
            o = run_legacy(c, dwell_ms)
        else:
            o = run_impl(c)
    except Exception as e:
        return [_viol("%s:exception" % c["kind"], "valid %s scenario raises %r" % (c["kind"], e), c)]
    out = {}

    def add(v):
        if v:
            out.setdefault(v["key"], v)
    if c["kind"] == "ridge":
        ref = o["sols"][0]
        for s in o["sols"][1:]:
            if not (_close(ref["W"], s["W"]) and _close(ref["b"], s["b"])):
                key = "batching:partial-fit" if s["how"].startswith("partial") else ("order:sequence-list" if s["how"].startswith("order") else "batching:list-vs-array")
                add(_viol(key, "Ridge solution differs between presentations '%s' and '%s' of the same retained rows" % (ref["how"], s["how"]), c, ref, s))
        for b in o["bufs"]:
            XX, YX = _exact_buffers(c, b["grouping"])
            if [[float(v) for v in r] for r in XX] != b["XXT"] or [[float(v) for v in r] for r in YX] != b["YXT"]:
                add(_viol("batching:buffers", "XXT/YXT after partial fits %s are not the sums over the retained rows (lost or duplicated contribution)" % b["grouping"],
                          c, {"XXT": [[str(v) for v in r] for r in XX], "YXT": [[str(v) for v in r] for r in YX]}, b))
    elif c["kind"] == "twins":
        for who, (X, Y) in (("a", (c["XA"], c["YA"])), ("b", (c["XB"], c["YB"]))):
            r = o["copies"][who]
            XX, YX = _exact_buffers(dict(c, X=X, Y=Y), r["grouping"])
            if [[float(v) for v in rr] for rr in XX] != r["XXT"] or [[float(v) for v in rr] for rr in YX] != r["YXT"]:
                add(_viol("isolation:same-name-buffers", "copy %s of a Ridge template (live next to another copy with the same name %r, partial fits "
                          "interleaved): XXT/YXT before fit() are not the sums over the sequences it was given" % (who, o["names"]),
                          c, {"XXT": [[str(v) for v in rr] for rr in XX], "YXT": [[str(v) for v in rr] for rr in YX]}, {"XXT": r["XXT"], "YXT": r["YXT"]}))
            if not (_close(r["ref"]["W"], r["W"]) and _close(r["ref"]["b"], r["b"])):
                add(_viol("isolation:same-name-solution", "copy %s: solution after interleaved partial fits differs from the one-shot fit on its own sequences" % who,
                          c, r["ref"], {"W": r["W"], "b": r["b"]}))
    elif c["kind"] in ("esn", "legacy"):
        if o.get("single"):
            r1 = o["single"]["ref"]
            for s in o["single"]["sols"]:
                if not (_close(r1["W"], s["W"]) and _close(r1["b"], s["b"])):
                    add(_viol("batching:esn-single-series-warmup", "'%s' does not train on exactly the retained timesteps: differs from '%s'" % (s["how"], r1["how"]), c, r1, s))
        ref = o["sols"][0]
        for r in o["scheds"]:
            add(_sched_violations(c, r, r.get("what", "esn-fit")))
        for s in o["sols"][1:]:
            if not (_close(ref["W"], s["W"]) and _close(ref["b"], s["b"])):
                if c["kind"] == "esn":
                    key = "order:esn-fit" if "order=%s" % list(range(len(c["X"]))) not in s["how"] else "parallel:esn-fit"
                else:
                    key = "compat-ridge:unlocked-accumulate" if "RidgeRegression" in s["how"] else "compat-esn-train:unlocked-accumulate"
                add(_viol(key, "solution of '%s' differs from '%s' on the same data (a contribution was lost or counted twice)" % (s["how"], ref["how"]), c, ref, s))
    elif c["kind"] == "run":
        for p in o["par"]:
            if len(p["outs"]) != len(o["singles"]) or not all(_close(a, b) for a, b in zip(o["singles"], p["outs"])):
                add(_viol("parallel-run:order", "ESN.run(list) with workers=%s backend=%s does not return the per-sequence outputs in input order" % (p["workers"], p["backend"]),
                          c, [np.asarray(s).shape for s in o["singles"]], [np.asarray(s).shape for s in p["outs"]]))
    return list(out.values())


def _judge(c, dwell_ms=1.0):
    vs = _judge_all(c, dwell_ms)
    return vs[0] if vs else None


def judge(case):
    return _judge(case["scenario"])


def oracle(ctx, scale=1):
    rng = ctx.rng("oracle")
    cases = gen_cases(rng, ctx.n(24, 150) * scale, ctx.n(3, 16) * scale, ctx.n(3, 8) * scale, ctx.n(3, 16) * scale, ctx.thorough)
    out, dist = [], {}
    reps = ctx.n(1, 2)
    for c in cases:
        dist[c["kind"]] = dist.get(c["kind"], 0) + 1
        for rep in range(reps if c["kind"] in ("esn", "legacy") else 1):
            c2 = dict(c, dwell_seed=c.get("dwell_seed", 0) + 7919 * rep, backends=["threading"]) if rep else c
            vs = _judge_all(c2, dwell_ms=1.0 + rep)
            out += vs
            if vs:
                break
    return {"evaluations": len(cases), "violations": out, "distribution": dist,
            "rule": "on the real code: all presentations / worker counts / backends of one data set give the same Wout, bias within 1e-9; "
                    "buffers after partial fits equal the exact rational sums over the retained rows; probe accumulators: accumulation "
                    "sections of different workers never overlap; ESN.run(list) outputs equal the per-sequence runs in input order"}


def replay(payload):
    vs = _judge_all(payload["scenario"], dwell_ms=2.0)
    want = [v for v in vs if v["key"] == payload.get("key")]
    return {"violates": bool(vs), "same_key": bool(want), "detail": (want or vs or [None])[0], "all_keys": [v["key"] for v in vs]}
