"""C04 — Ridge readout fitting returns the regularised least-squares optimum.
Correspondence with coq/model/Ridge.v (run at Q by coq/run/RunC04.v) and an implementation oracle in exact rational
arithmetic (python fractions) that does not use the Coq model."""
import json
from fractions import Fraction

import numpy as np

from vlib import core
from vlib.core import q, qmat, qvec, nat, coqbool, coqlist

IMPORTS = ("From Coq Require Import List QArith.\nFrom RV Require Import base.Num run.RunC04.\n"
           "Import ListNotations.\nOpen Scope Q_scope.")
TRUSTED = [
    "scipy.linalg.solve (LAPACK, assume_a='sym') is a Section Variable `solve` with hypothesis `solve_ok : solve_spec solve d m` "
    "(returns a d x m solution of A X = B whenever A is d x d with a trivial kernel -- which C04_system_nonsingular proves for "
    "XXT + lam I) in coq/props/C04.v; C04_normal_equations_imply_optimal / _unique / C04_accumulators_are_gram do not use it, and "
    "every run re-checks the normal equations on the OBSERVED Wout/bias",
    "Gauss-Jordan over Q (base/LA.v qsolve) stands in for LAPACK in the correspondence runs only (its result is compared, not trusted)",
    "numpy X.T.dot(X), Y.T.dot(X), np.hstack, slicing X[warmup:] are given the list-level meaning of base/LA.v "
    "(mm/transpose/madd, skipn); compared with the library on every run through the fitted parameters",
]
ASSUMPTIONS = [
    "lambda > 0 (lambda in {1/8,...,4} in the runs); every sequence longer than warmup; a fresh Ridge node per fit",
    "float64 rounding of the LAPACK solve: parameters compared at 1e-9 relative; the data are small dyadic rationals, or small integers "
    "stored in narrow dtypes (the model is dtype-free: sums are exact), initial Wout/bias values are not model inputs (they must not matter)",
    "memory-mapped buffers / multi-process accumulation (ESN workers) are not exercised: Node.fit in one process",
]

_uid = [0]
LAMS = [Fraction(1, 8), Fraction(1, 4), Fraction(1, 2), Fraction(1), Fraction(2), Fraction(4)]
TOL = Fraction(1, 10 ** 9)


def uname(prefix):
    _uid[0] += 1
    return "%s_%d" % (prefix, _uid[0])


def rpy():
    import reservoirpy
    reservoirpy.verbosity(0)
    return reservoirpy


def rand_rows(rng, T, dim, lim=8, maxpow=2):
    return [[core.dyadic(rng, lim, maxpow) for _ in range(dim)] for _ in range(T)]


def farr(rows, dim):
    return np.array([[float(Fraction(v)) for v in r] for r in rows], dtype=float).reshape(len(rows), dim)


def F(rows):
    return [[Fraction(v) for v in r] for r in rows]


# ------------------------------------------------------------------------------------------ scenarios
INT_RANGES = {"uint8": (0, 20), "int8": (-12, 12), "int16": (-12, 12), "int32": (-12, 12), "int64": (-12, 12),
              "float16": (-20, 20), "float32": (-12, 12)}


def int_rows(rng, T, dim, lo, hi):
    return [[Fraction(rng.randint(lo, hi)) for _ in range(dim)] for _ in range(T)]


def gen_cases(rng, n):
    """Configuration space: data form (2-D / 3-D / ragged list), dims, warm-up, lambda, input_bias, the `Wout=` / `bias=`
    initial values given to the constructor (None = default, an array, or a callable initializer), and the dtype of the
    data arrays (float64 dyadic, or integer-valued data stored as uint8/int8/int16/int32/int64/float16/float32)."""
    cases = []
    for i in range(n):
        form = ["2d", "3d", "list"][i % 3]
        din, dout = rng.randint(1, 4), rng.randint(1, 3)
        warmup = rng.choice([0, 0, 1, 2, 3])
        bias = rng.random() < 0.6
        nseq = 1 if form == "2d" else rng.randint(1, 3)
        if form == "3d":
            T = warmup + rng.randint(1, 8)
            lens = [T] * nseq
        else:
            lens = [warmup + rng.randint(1, 8) for _ in range(nseq)]
        c = {"form": form, "bias": bias, "lam": rng.choice(LAMS), "warmup": warmup, "din": din, "dout": dout}
        dtype = rng.choice(list(INT_RANGES)) if rng.random() < 0.3 else "float64"
        if dtype == "float64":
            c["Xs"] = [rand_rows(rng, T, din, lim=8, maxpow=2) for T in lens]
            c["Ys"] = [rand_rows(rng, T, dout, lim=8, maxpow=2) for T in lens]
        else:
            lo, hi = INT_RANGES[dtype]
            c["dtype"] = dtype
            c["Xs"] = [int_rows(rng, T, din, lo, hi) for T in lens]
            if rng.random() < 0.5:      # targets of the same narrow type
                c["ydtype"] = dtype
                c["Ys"] = [int_rows(rng, T, dout, lo, hi) for T in lens]
            else:
                c["Ys"] = [rand_rows(rng, T, dout, lim=8, maxpow=2) for T in lens]
        c["Xtest"] = rand_rows(rng, rng.randint(1, 3), din, lim=8, maxpow=2)
        # initial values of the parameters: they must not survive the fit
        r = rng.random()
        if r < 0.25:
            c["binit"] = ["array", [core.dyadic(rng, 8, 2) or Fraction(1) for _ in range(dout)]]
        elif r < 0.45:
            c["binit"] = ["const", core.dyadic(rng, 8, 2) or Fraction(3)]
        r = rng.random()
        if r < 0.15:
            c["winit"] = ["array", rand_rows(rng, din, dout, 8, 2)]
        elif r < 0.3:
            c["winit"] = ["const", core.dyadic(rng, 8, 2) or Fraction(2)]
        cases.append(c)
    return cases


def _initializer(spec, shape):
    """`Wout=` / `bias=` constructor argument: an array or a callable initializer f(*shape, dtype=..., **kw)."""
    kind, val = spec
    if kind == "array":
        return np.array([[float(Fraction(v)) for v in r] for r in val] if isinstance(val[0], (list, tuple))
                        else [[float(Fraction(v)) for v in val]], dtype=float).reshape(shape)
    v = float(Fraction(val))
    return lambda *shp, **kw: np.full(shp, v, dtype=float)


def fit_impl(c, Xs=None, Ys=None):
    """Fit a fresh real Ridge node on the scenario's data; returns the node."""
    rpy()
    from reservoirpy.nodes import Ridge
    Xs = c["Xs"] if Xs is None else Xs
    Ys = c["Ys"] if Ys is None else Ys
    xa = [farr(s, c["din"]).astype(c.get("dtype", "float64")) for s in Xs]
    ya = [farr(s, c["dout"]).astype(c.get("ydtype", "float64")) for s in Ys]
    if c["form"] == "2d":
        X, Y = xa[0], ya[0]
    elif c["form"] == "3d":
        X, Y = np.stack(xa), np.stack(ya)
    else:
        X, Y = xa, ya
    kw = {}
    if c.get("binit"):
        kw["bias"] = _initializer(c["binit"], (1, c["dout"]))
    if c.get("winit"):
        kw["Wout"] = _initializer(c["winit"], (c["din"], c["dout"]))
    node = Ridge(ridge=float(Fraction(c["lam"])), input_bias=bool(c["bias"]), name=uname("ridge"), **kw)
    node.fit(X, Y, warmup=c["warmup"])
    return node


def run_impl(c):
    node = fit_impl(c)
    Wout = np.asarray(node.Wout, dtype=float)
    b = np.asarray(node.bias, dtype=float)
    pred = np.asarray(node.run(farr(c["Xtest"], c["din"])), dtype=float)
    return {"Wout": Wout.tolist(), "Wout_shape": list(Wout.shape), "bias": b.reshape(-1).tolist(), "bias_shape": list(b.shape),
            "pred": pred.tolist()}


def to_coq(c, o):
    if o["Wout_shape"] != [c["din"], c["dout"]] or o["bias_shape"] != [1, c["dout"]]:
        return "false"
    return "chk_fit %s %s %s %s %s %s %s %s %s %s %s" % (
        coqbool(c["bias"]), q(Fraction(c["lam"])), nat(c["warmup"]), nat(c["din"]), nat(c["dout"]),
        coqlist([qmat(F(s)) for s in c["Xs"]]), coqlist([qmat(F(s)) for s in c["Ys"]]),
        qmat(o["Wout"]), qvec(o["bias"]), qmat(F(c["Xtest"])), qmat(o["pred"]))


def nontrivial(c, o):
    kept = sum(len(s) - c["warmup"] for s in c["Xs"])
    return kept >= 2 and any(v != 0 for r in o["Wout"] for v in r) and any(Fraction(v) != 0 for s in c["Ys"] for r in s for v in r)


def jsonable(c):
    return json.loads(json.dumps(c, default=lambda f: str(f)))


def pregen(ctx):
    """tie (T): re-translate nodes/readouts/ridge.py + base.py of the tree under test into coq/gen/Gen_ridge.v"""
    from vlib import gen
    return gen.pregen_units(["ridge"])


def correspondence(ctx):
    rng = ctx.rng("corr")
    cases = gen_cases(rng, ctx.n(120, 1500))
    terms, keep, dist, nt = [], [], {}, set()
    for c in cases:
        o, err = None, None
        try:
            o = run_impl(c)
        except Exception as e:  # the implementation rejected / crashed on a valid scenario
            err = repr(e)
        if o is None:
            terms.append("false")
            keep.append({"scenario": jsonable(c), "impl_error": err})
            continue
        terms.append(to_coq(c, o))
        keep.append({"scenario": jsonable(c), "observed": jsonable(o)})
        k = "%s/bias=%s/warmup=%s/%s%s" % (c["form"], int(c["bias"]), "0" if c["warmup"] == 0 else ">0", c.get("dtype", "float64"),
                                         "/init" if (c.get("binit") or c.get("winit")) else "")
        dist[k] = dist.get(k, 0) + 1
        if nontrivial(c, o):
            nt.add(repr(jsonable(c)))
    failing, err = core.run_cases(ctx.pid, IMPORTS, terms, chunk=60)
    return {"evaluations": len(cases), "distinct_nontrivial": len(nt),
            "rule": "seeded Ridge(ridge=lam, input_bias=b).fit(X, Y, warmup=w) on a fresh node, X a 2-D array / 3-D array / ragged list "
                    "(1-3 sequences, 1-8 retained rows each), input dim 1-4, output dim 1-3, lam in {1/8..4}, warmup 0-3, dyadic float64 data or "
                    "integer-valued data stored as uint8/int8/int16/int32/int64/float16/float32, default or user-given (array / callable) "
                    "initial `Wout=` / `bias=`; "
                    "Wout, bias, run(Xtest) compared with the model at Q and the normal equations re-checked on the observed parameters; "
                    "non-trivial = at least 2 retained rows, non-zero targets and a non-zero fitted Wout; distinct by scenario text",
            "samples": [keep[0], keep[1], keep[min(12, len(keep) - 1)]],
            "distribution": dist, "tolerance": "1e-9 relative (qclose)",
            "failing": [dict(keep[i], index=i) for i in failing], "error": err}


# ------------------------------------------------------------------------------------------ oracle on the implementation
def _viol(key, what, c, expected=None, observed=None):
    return {"key": key, "what": what, "scenario": jsonable(c), "expected": jsonable(expected), "observed": jsonable(observed)}


def _retained(c, Xs=None, Ys=None):
    """(x~, y) for every retained timestep, exact rationals; x~ = [1] + x with bias."""
    rows = []
    for X, Y in zip(c["Xs"] if Xs is None else Xs, c["Ys"] if Ys is None else Ys):
        for x, y in zip(F(X)[c["warmup"]:], F(Y)[c["warmup"]:]):
            rows.append((([Fraction(1)] + x) if c["bias"] else x, y))
    return rows


def _objective(rows, lam, Wo, dout):
    """sum_t ||Wo^T x~_t - y_t||^2 + lam * ||Wo||_F^2   (Wo has the bias as first row when there is one)"""
    J = Fraction(0)
    for x, y in rows:
        for k in range(dout):
            e = sum(x[i] * Wo[i][k] for i in range(len(x))) - y[k]
            J += e * e
    return J + lam * sum(v * v for r in Wo for v in r)


def _solve_exact(A, B):
    """Gauss-Jordan over the rationals: X with A X = B (A is positive definite here)."""
    n, m = len(A), len(B[0])
    M = [list(A[i]) + list(B[i]) for i in range(n)]
    for c0 in range(n):
        p = next(r for r in range(c0, n) if M[r][c0] != 0)
        M[c0], M[p] = M[p], M[c0]
        piv = M[c0][c0]
        M[c0] = [v / piv for v in M[c0]]
        for r in range(n):
            if r != c0 and M[r][c0] != 0:
                f = M[r][c0]
                M[r] = [a - f * b for a, b in zip(M[r], M[c0])]
    return [row[n:] for row in M]


def _optimum(c, rows):
    """The regularised least-squares optimum of the scenario (bias row first when input_bias), exact rationals."""
    lam, dout = Fraction(c["lam"]), c["dout"]
    d = c["din"] + (1 if c["bias"] else 0)
    A = [[sum(x[i] * x[j] for x, _ in rows) + (lam if i == j else 0) for j in range(d)] for i in range(d)]
    B = [[sum(x[i] * y[k] for x, y in rows) for k in range(dout)] for i in range(d)]
    return _solve_exact(A, B)


def _judge(c, rng=None):
    """Decide the property's statement directly on the real code (exact rational arithmetic, no Coq model).  When a scenario
    with narrow-typed data fails although the same values as float64 pass, the violation is re-keyed ridge:sums-in-input-dtype."""
    v = _judge1(c, rng)
    if v and (c.get("dtype", "float64") != "float64" or c.get("ydtype", "float64") != "float64") \
            and v["key"] in ("ridge:predictor-not-optimum", "ridge:normal-equations", "ridge:not-optimal"):
        c64 = {k: x for k, x in c.items() if k not in ("dtype", "ydtype")}
        if _judge1(c64, None) is None:
            v = _viol("ridge:sums-in-input-dtype", "with %s inputs / %s targets the fit is not the least-squares optimum although the same "
                      "values given as float64 are fitted correctly (XXT / YXT accumulated in the data's dtype: overflow / rounding); %s"
                      % (c.get("dtype", "float64"), c.get("ydtype", "float64"), v["what"]), c, v["expected"], v["observed"])
    return v


def _judge1(c, rng=None):
    import random
    rng = rng or random.Random(repr(jsonable(c)))
    lam, dout, din = Fraction(c["lam"]), c["dout"], c["din"]
    try:
        node = fit_impl(c)
        Wout = np.asarray(node.Wout, dtype=float)
        b = np.asarray(node.bias, dtype=float)
        Xt = farr(c["Xtest"], din)
        pred = np.asarray(node.run(Xt), dtype=float)
    except Exception as e:
        return _viol("ridge:exception", "valid fit/run scenario raises %r" % (e,), c)
    if Wout.shape != (din, dout) or b.shape != (1, dout) or pred.shape != (len(c["Xtest"]), dout):
        return _viol("ridge:shape", "Wout/bias/prediction have unexpected shapes", c,
                     [[din, dout], [1, dout], [len(c["Xtest"]), dout]], [list(Wout.shape), list(b.shape), list(pred.shape)])
    # (0) the fitted PREDICTOR is the optimum's predictor: run(x) = x~ . W*  with W* the exact solution of the regularised normal
    #     equations of the scenario (x~ = [1] + x only with input_bias; without it there is no constant term at all)
    Wstar = _optimum(c, _retained(c))
    for t, x in enumerate(F(c["Xtest"])):
        xt = ([Fraction(1)] + x) if c["bias"] else x
        for k in range(dout):
            e = sum(xt[i] * Wstar[i][k] for i in range(len(xt)))
            if abs(core.frac(pred[t][k]) - e) > TOL * max(1, abs(e)):
                return _viol("ridge:predictor-not-optimum", "after fit, run(x) is not the prediction of the regularised least-squares optimum "
                             "(fitted bias %r, input_bias=%s, initial bias=%r, initial Wout=%r)"
                             % (b.reshape(-1).tolist(), c["bias"], jsonable(c.get("binit")), jsonable(c.get("winit"))),
                             c, float(e), float(pred[t][k]))
    W = [[core.frac(v) for v in r] for r in Wout.tolist()]
    bb = [core.frac(v) for v in b.reshape(-1).tolist()]
    if not c["bias"] and any(v != 0 for v in bb):
        return _viol("ridge:bias-without-input-bias", "input_bias=False but the bias is not zero after fit", c, [0] * dout, b.tolist())
    Wo = ([bb] + W) if c["bias"] else W
    rows = _retained(c)
    d = len(Wo)
    # (1) regularised normal equations  (sum x~ x~^T + lam I) Wo = sum x~ y^T
    worst, scale = Fraction(0), Fraction(1)
    grad = [[Fraction(0)] * dout for _ in range(d)]
    for i in range(d):
        for k in range(dout):
            lhs = sum(sum(x[i] * x[j] for x, _ in rows) * Wo[j][k] for j in range(d)) + lam * Wo[i][k]
            rhs = sum(x[i] * y[k] for x, y in rows)
            grad[i][k] = lhs - rhs
            worst = max(worst, abs(lhs - rhs))
            scale = max(scale, abs(rhs))
    if worst > TOL * scale:
        return _viol("ridge:normal-equations", "fitted Wout/bias do not satisfy (XXT + lam I) W = YXT^T on the retained rows "
                     "(residual %.3e)" % float(worst), c, "residual <= %.1e" % float(TOL * scale), float(worst))
    # (2) optimality against perturbations (exact objective values)
    J0 = _objective(rows, lam, Wo, dout)
    deltas = [[[core.dyadic(rng, 8, 3) * s for _ in range(dout)] for _ in range(d)] for s in (1, Fraction(1, 64), Fraction(1, 4096))]
    deltas.append([[-g / 1024 for g in r] for r in grad])
    for D in deltas:
        J1 = _objective(rows, lam, [[Wo[i][k] + D[i][k] for k in range(dout)] for i in range(d)], dout)
        if J1 < J0 - Fraction(1, 10 ** 12) * max(1, J0):
            return _viol("ridge:not-optimal", "a perturbed (Wout, bias) has a smaller regularised squared error", c,
                         "J(w+d) >= J(w) = %r" % float(J0), float(J1))
    # (3) predictions are Wout^T x + bias
    for t, x in enumerate(F(c["Xtest"])):
        for k in range(dout):
            e = sum(W[i][k] * x[i] for i in range(din)) + bb[k]
            if abs(core.frac(pred[t][k]) - e) > Fraction(1, 10 ** 12) * max(1, abs(e)):
                return _viol("ridge:prediction", "run(x) is not Wout^T x + bias", c, float(e), float(pred[t][k]))
    # (4) the first `warmup` rows of every sequence have no influence
    if c["warmup"] > 0:
        Xs2 = [rand_rows(rng, c["warmup"], din, 16, 2) + s[c["warmup"]:] for s in c["Xs"]]
        Ys2 = [rand_rows(rng, c["warmup"], dout, 16, 2) + s[c["warmup"]:] for s in c["Ys"]]
        try:
            n2 = fit_impl(c, Xs2, Ys2)
        except Exception as e:
            return _viol("ridge:exception", "valid fit scenario raises %r" % (e,), dict(c, Xs=Xs2, Ys=Ys2))
        W2 = np.asarray(n2.Wout, dtype=float)
        b2 = np.asarray(n2.bias, dtype=float)
        for a, a2 in ((Wout, W2), (b, b2)):
            for u, v in zip(a.reshape(-1).tolist(), a2.reshape(-1).tolist()):
                if abs(core.frac(u) - core.frac(v)) > Fraction(1, 10 ** 11) * max(1, abs(core.frac(u))):
                    return _viol("ridge:warmup-influence", "changing the first `warmup` rows of the sequences changes the fitted parameters",
                                 dict(c, Xs2=Xs2, Ys2=Ys2), [Wout.tolist(), b.tolist()], [W2.tolist(), b2.tolist()])
    return None


def judge(case):
    return _judge(case["scenario"])


def _judge_rejected_batch(rng, tag):
    """Successive partial fits where one batch is rejected (targets shorter than inputs) and the caller goes on: the result must be
    the ridge optimum of the ACCEPTED batches, i.e. equal to the same session without the rejected batch (added by the lead after a
    seeded change made the accumulation of one batch non-atomic)."""
    rpy()
    from reservoirpy.nodes import Ridge
    d, o = rng.randint(1, 3), rng.randint(1, 2)
    batches = [(farr(rand_rows(rng, 4, d), d), farr(rand_rows(rng, 4, o), o)) for _ in range(3)]
    bad = (farr(rand_rows(rng, 5, d), d), farr(rand_rows(rng, 3, o), o))
    pos = rng.randint(1, 2)
    a = Ridge(ridge=0.5, name=uname("rb_a")); b = Ridge(ridge=0.5, name=uname("rb_b"))
    rejected = False
    for k, (x, y) in enumerate(batches):
        if k == pos:
            try:
                a.partial_fit(bad[0], bad[1])
            except Exception:  # noqa: BLE001
                rejected = True
        a.partial_fit(x, y); b.partial_fit(x, y)
    a.fit(); b.fit()
    if rejected and (not np.allclose(a.Wout, b.Wout, rtol=1e-10, atol=1e-12) or not np.allclose(a.bias, b.bias, rtol=1e-10, atol=1e-12)):
        return _viol("ridge:rejected-batch-leaves-partial-sums", "a partial_fit batch rejected with an exception still changed the accumulators: the fit is not the "
                     "optimum over the accepted batches", {"tag": tag, "kind": "rejected-batch", "d": d, "o": o, "pos": pos},
                     np.asarray(b.Wout).tolist(), np.asarray(a.Wout).tolist())
    return None


def _judge_ridge_reassigned(rng, tag):
    """lambda is the node's `ridge` at the time the system is solved: partial_fit; node.ridge = new; partial_fit; fit() must satisfy the
    normal equations for the NEW lambda on all accepted rows, i.e. equal a one-shot fit with that lambda (added after a seeded change)."""
    rpy()
    from reservoirpy.nodes import Ridge
    d, o = rng.randint(1, 3), rng.randint(1, 2)
    b1 = (farr(rand_rows(rng, 5, d), d), farr(rand_rows(rng, 5, o), o)); b2 = (farr(rand_rows(rng, 4, d), d), farr(rand_rows(rng, 4, o), o))
    lam0, lam1 = float(Fraction(rng.choice(["1/4", "1/2", "1"]))), float(Fraction(rng.choice(["2", "4", "8"])))
    a = Ridge(ridge=lam0, name=uname("rr_a")); b = Ridge(ridge=lam1, name=uname("rr_b"))
    a.partial_fit(*b1); a.ridge = lam1; a.partial_fit(*b2); a.fit()
    b.fit([b1[0], b2[0]], [b1[1], b2[1]])
    if not np.allclose(a.Wout, b.Wout, rtol=1e-10, atol=1e-12) or not np.allclose(a.bias, b.bias, rtol=1e-10, atol=1e-12):
        return _viol("ridge:lambda-not-read-at-solve-time", "ridge reassigned between partial fits: the fit does not satisfy the normal equations for the current lambda",
                     {"tag": tag, "kind": "ridge-reassigned", "lam0": lam0, "lam1": lam1}, np.asarray(b.Wout).tolist(), np.asarray(a.Wout).tolist())
    return None


def _judge_copied_between(rng, tag):
    """partial_fit(A); c = node.copy() (or deepcopy); c.partial_fit(B); c.fit(); node.fit(): the node's solution is the optimum on A alone and
    the copy's the optimum on A + B (the partial sums belong to each object)."""
    import copy as _copy
    rpy()
    from reservoirpy.nodes import Ridge
    d, o, w = rng.randint(1, 3), rng.randint(1, 2), rng.choice([0, 1])
    A = (farr(rand_rows(rng, 6, d), d), farr(rand_rows(rng, 6, o), o)); Bd = (farr(rand_rows(rng, 5, d), d), farr(rand_rows(rng, 5, o), o))
    how = rng.choice(["Node.copy", "deepcopy"])
    sc = {"tag": tag, "kind": "copied-between", "how": how, "warmup": w}
    try:
        r = Ridge(ridge=0.5, name=uname("cb_r"))
        r.partial_fit(A[0], A[1], warmup=w)
        c = r.copy(name=uname("cb_c")) if how == "Node.copy" else _copy.deepcopy(r)
        c.partial_fit(Bd[0], Bd[1], warmup=w); c.fit(); r.fit()
        ra = Ridge(ridge=0.5, name=uname("cb_a")).fit(A[0], A[1], warmup=w)
        rab = Ridge(ridge=0.5, name=uname("cb_ab")).fit([A[0], Bd[0]], [A[1], Bd[1]], warmup=w)
    except Exception as e:  # noqa: BLE001
        return _viol("ridge:exception", "partial_fit / copy / partial_fit / fit raises %r" % (e,), sc)
    for got, ref, who in ((r, ra, "the original (data A)"), (c, rab, "the copy (data A + B)")):
        if not np.allclose(got.Wout, ref.Wout, rtol=1e-9, atol=1e-11) or not np.allclose(got.bias, ref.bias, rtol=1e-9, atol=1e-11):
            return _viol("ridge:partial-sums-shared-with-copy", "a readout copied (%s) between partial_fit and fit: %s is not the regularised least-squares "
                         "optimum of the data it was given (the pending sums are shared between the two objects)" % (how, who), sc,
                         np.asarray(ref.Wout).tolist(), np.asarray(got.Wout).tolist())
    return None


def _judge_bias_toggled(rng, tag):
    """`input_bias` is a hyper-parameter that can be reassigned: fit with bias, set node.input_bias = False, fit again.  The second fit
    is a fit "without bias": its predictor must be the bias-free optimum, i.e. equal to a fresh Ridge(input_bias=False) on the same data."""
    rpy()
    from reservoirpy.nodes import Ridge
    d, o = rng.randint(1, 3), rng.randint(1, 2)
    X, Y = farr(rand_rows(rng, 6, d), d), farr(rand_rows(rng, 6, o), o) + 3.0
    Xt = farr(rand_rows(rng, 3, d), d)
    a = Ridge(ridge=0.5, name=uname("tg_a")).fit(X, Y)
    a.input_bias = False
    try:
        a.fit(X, Y)
        b = Ridge(ridge=0.5, input_bias=False, name=uname("tg_b")).fit(X, Y)
        pa, pb = np.asarray(a.run(Xt)), np.asarray(b.run(Xt))
    except Exception as e:  # noqa: BLE001
        return _viol("ridge:exception", "refit after input_bias toggled raises %r" % (e,), {"tag": tag, "kind": "bias-toggled"})
    if not np.allclose(pa, pb, rtol=1e-10, atol=1e-10):
        return _viol("ridge:stale-bias-after-input-bias-toggle", "input_bias set to False on a node fitted with bias, then refit: Wout is the bias-free "
                     "solution but the bias learned by the previous fit is kept, so run(x) is not the optimum's prediction",
                     {"tag": tag, "kind": "bias-toggled", "d": d, "o": o, "stale_bias": np.asarray(a.bias).tolist()}, pb.tolist(), pa.tolist())
    return None


def _judge_refit_inside(rng, tag):
    """the Ridge readout as it is used INSIDE something, fitted a SECOND time on other data (ragged sequences, warm-up): reservoir >> ridge through Model.fit,
    the ESN convenience node, and a stand-alone Ridge.  After the second fit the readout satisfies the normal equations of the SECOND dataset only (states
    recomputed independently from the reservoir's matrices) and predicts Wout^T s + b"""
    import reservoirpy as rpy
    rpy.verbosity(0)
    from reservoirpy.nodes import ESN, Reservoir, Ridge
    rs = np.random.RandomState(rng.randrange(10 ** 6))
    W, Win = rs.randint(-4, 5, (3, 3)) / 8.0, rs.randint(-4, 5, (3, 2)) / 4.0
    lam, warm = 0.25, 2

    def data():
        L = (6, 8)
        return [rs.randint(-8, 9, (n, 2)) / 4.0 for n in L], [rs.randint(-8, 9, (n, 1)) / 4.0 for n in L]

    def states(x):
        s, out = np.zeros(3), []
        for u in x:
            s = 0.5 * s + 0.5 * np.clip(W @ s + Win @ u, -1, 1)
            out.append(s.copy())
        return np.array(out)
    for how in ("model", "esn", "node"):
        sc = {"kind": "refit-inside", "how": how, "tag": tag}
        try:
            res = Reservoir(3, W=W, Win=Win, bias=np.zeros((3, 1)), lr=0.5, activation=lambda v: np.clip(v, -1, 1), name="ri%s%s_r" % (tag, how))
            rd = Ridge(ridge=lam, name="ri%s%s_o" % (tag, how))
            (X1, Y1), (X2, Y2) = data(), data()
            if how == "model":
                m = res >> rd
                m.fit(X1, Y1, warmup=warm, reset=True); m.fit(X2, Y2, warmup=warm, reset=True)
            elif how == "esn":
                m = ESN(reservoir=res, readout=rd, name="ri%s_e" % tag)
                m.fit(X1, Y1, warmup=warm); m.fit(X2, Y2, warmup=warm)
            else:
                rd.fit([states(x) for x in X1], Y1, warmup=warm); rd.fit([states(x) for x in X2], Y2, warmup=warm)
        except Exception as ex:  # noqa: BLE001
            return _viol("refit-inside:exception", "second fit (%s) raises %r" % (how, ex), sc)
        S = np.vstack([states(x)[warm:] for x in X2]); T = np.vstack([y[warm:] for y in Y2])
        Sb = np.hstack([np.ones((len(S), 1)), S])
        A = Sb.T @ Sb + lam * np.eye(4)
        wb = np.vstack([np.asarray(rd.bias).reshape(1, -1), np.asarray(rd.Wout)])
        resid = float(np.max(np.abs(A @ wb - Sb.T @ T)))
        if resid > 1e-8:
            return _viol("normal-equations:second-fit:%s" % how, "after a SECOND fit on other data (%s, ragged sequences, warmup=%d) the readout does not satisfy the regularised normal "
                         "equations of the data it was just fitted on (residual %.3g): sums of the first dataset were kept" % (how, warm, resid), sc, 0.0, resid)
    return None


def oracle(ctx, scale=1):
    rng = ctx.rng("oracle")
    cases = gen_cases(rng, ctx.n(100, 1200) * scale)
    out = []
    for c in cases:
        v = _judge(c, rng)
        if v:
            out.append(v)
    for i in range(ctx.n(10, 100)):
        v = _judge_rejected_batch(rng, "%d_%d" % (ctx.seed, i)) or _judge_ridge_reassigned(rng, "%d_%d" % (ctx.seed, i))
        if v:
            out.append(v)
    for i in range(ctx.n(3, 20)):
        v = _judge_bias_toggled(rng, "%d_%d" % (ctx.seed, i)) or _judge_copied_between(rng, "%d_%d" % (ctx.seed, i))
        if v:
            out.append(v)
    for i in range(ctx.n(2, 10)):
        v = _judge_refit_inside(rng, "%d_%d" % (ctx.seed, i))
        if v:
            out.append(v)
    return {"evaluations": len(cases) + ctx.n(10, 100) + ctx.n(3, 20), "violations": out,
            "rule": "run(x) vs the exact-rational optimum's prediction (constant term only with input_bias), exact-rational normal-equation "
                    "residual of the observed Wout/bias, objective values at random and gradient-direction perturbations, Wout^T x + bias "
                    "vs run(x), refit after overwriting the warm-up rows, narrow-dtype data vs the same values as float64, user-given "
                    "initial Wout/bias, rejected batch, ridge / input_bias reassigned between fits; all on the real Ridge node"}


def replay(payload):
    if payload.get("scenario", {}).get("kind") == "refit-inside":
        import random
        vs = [v for v in (_judge_refit_inside(random.Random(i), "rr%d" % i) for i in range(4)) if v]
        return {"violates": bool(vs), "detail": vs[:1]}
    if payload.get("scenario", {}).get("kind") == "ridge-reassigned":
        import random
        vs = [v for v in (_judge_ridge_reassigned(random.Random(i), "rq%d" % i) for i in range(20)) if v]
        return {"violates": bool(vs), "detail": vs[:1]}
    if payload.get("scenario", {}).get("kind") == "copied-between":
        import random
        vs = [v for v in (_judge_copied_between(random.Random(i), "rc%d" % i) for i in range(6)) if v]
        return {"violates": bool(vs), "detail": vs[:1]}
    if payload.get("scenario", {}).get("kind") == "bias-toggled":
        import random
        vs = [v for v in (_judge_bias_toggled(random.Random(i), "rt%d" % i) for i in range(5)) if v]
        return {"violates": bool(vs), "detail": vs[:1]}
    if payload.get("scenario", {}).get("kind") == "rejected-batch":
        import random
        vs = [_judge_rejected_batch(random.Random(i), "rp%d" % i) for i in range(20)]
        vs = [v for v in vs if v]
        return {"violates": bool(vs), "detail": vs[:1]}
    v = _judge(payload["scenario"])
    return {"violates": bool(v), "detail": v}
